import InfluxQL.Lemmas.Quote
import InfluxQL.Lemmas.ScannerPos
/-
Converse direction of `IdentNeedsQuotes`: if a name written bare scans as that very identifier
(token IDENT, literal = the name, extent = exactly the name) then `IdentNeedsQuotes` is false.
-/
namespace InfluxQL
open Gen

/-- A successfully scanned string body is no longer than the text it was read from, minus the
closing quote. -/
theorem scanStringLoop_length (ending : Char) (fin : Pos) (st : List (Char × Pos)) (acc : List Char)
    (pv : Char × Pos) (n : Nat)
    (h : (scanStringLoop ending fin st acc pv n).2.1 = none) :
    (scanStringLoop ending fin st acc pv n).1.length + (scanStringLoop ending fin st acc pv n).2.2.1.length + 1
      ≤ acc.length + st.length := by
  fun_induction scanStringLoop ending fin st acc pv n
  all_goals first
    | (simp at h; done)
    | (simp only [List.length_cons]; omega)
    | (rename_i ih; have := ih h; simp only [List.length_append, List.length_cons, List.length_nil] at this ⊢; omega)

/-- A quoted token (opening quote … closing quote) covers at least its value plus two runes. -/
theorem scanString_length (r : Cursor) (h : (scanString r).1.tok = .STRING) :
    (scanString r).1.lit.length + (scanString r).2.rest.length + 2 ≤ r.rest.length := by
  unfold scanString at h ⊢
  dsimp only at h ⊢
  have key : (scanStringRaw r).2.1 = none →
      (scanStringRaw r).1.length + (scanStringRaw r).2.2.rest.length + 2 ≤ r.rest.length := by
    intro hn
    unfold scanStringRaw at hn ⊢
    dsimp only at hn ⊢
    split at hn
    · simp at hn
    · rename_i hne
      simp only [hne, if_false] at hn ⊢
      have hl := scanStringLoop_length r.read.1.1 r.read.2.fin r.read.2.rest [] r.read.2.prev r.read.2.off hn
      have hr := r.read_length
      have hne' : r.rest ≠ [] := by
        intro hnil
        have := Cursor.peek_eq_of_nil hnil
        rw [← r.read_fst_eq_peek] at this
        exact hne this
      have : 1 ≤ r.rest.length := by
        cases hrr : r.rest with
        | nil => exact absurd hrr hne'
        | cons _ _ => simp
      simp only [List.length_nil, Nat.zero_add] at hl
      exact Nat.le_trans (Nat.add_le_add_right hl 1) (by omega)
  generalize hres : scanStringRaw r = res at h key ⊢
  obtain ⟨lit, e, r'⟩ := res
  cases e with
  | none => simpa using key rfl
  | some e => cases e <;> simp at h

theorem scanFrom4_not_ident (ch0 : Char) (pos : Pos) (r1 : Cursor) : (scanFrom4 ch0 pos r1).1.tok ≠ .IDENT := by
  unfold scanFrom4; repeat' split
  all_goals (intro h; cases h)

theorem scanFrom3_not_ident (ch0 : Char) (pos : Pos) (r1 : Cursor) : (scanFrom3 ch0 pos r1).1.tok ≠ .IDENT := by
  unfold scanFrom3; repeat' split
  all_goals first
    | exact scanFrom4_not_ident _ _ _
    | (intro h; cases h)

theorem scanFrom2_not_ident (ch0 : Char) (pos : Pos) (r1 : Cursor) : (scanFrom2 ch0 pos r1).1.tok ≠ .IDENT := by
  unfold scanFrom2; repeat' split
  all_goals first
    | exact scanFrom3_not_ident _ _ _
    | (intro h; cases h)

theorem scanNumber_not_ident (r : Cursor) (pos : Pos) : (scanNumber r pos).1.tok ≠ .IDENT := by
  unfold scanNumber
  dsimp only
  split
  · split <;> (intro h; cases h)
  · intro h; cases h

theorem scanString_not_ident (r : Cursor) : (scanString r).1.tok ≠ .IDENT := by
  have := scanString_family r
  intro h
  rw [h] at this
  cases this

/-- A token that does not start with a letter, `_` or `"` is not an identifier. -/
theorem scanFrom_not_ident (ch0 : Char) (pos : Pos) (r r1 : Cursor)
    (h1 : (isLetter ch0 || ch0 == '_') = false) (h2 : ch0 ≠ '"') :
    (scanFrom ch0 pos r r1).1.tok ≠ .IDENT := by
  unfold scanFrom
  by_cases hw : isWhitespace ch0 = true
  · rw [if_pos hw]; intro h; cases h
  rw [if_neg hw, h1]
  simp only [Bool.false_eq_true, if_false]
  by_cases hd : isDigit ch0 = true
  · rw [if_pos hd]; exact scanNumber_not_ident _ _
  rw [if_neg hd]
  by_cases he : ch0 = eofRune
  · rw [if_pos he]; intro h; cases h
  rw [if_neg he, if_neg h2]
  by_cases hq : ch0 = '\''
  · rw [if_pos hq]; exact scanString_not_ident _
  rw [if_neg hq]
  by_cases hdot : ch0 = '.'
  · rw [if_pos hdot]
    split
    · exact scanNumber_not_ident _ _
    · intro h; cases h
  rw [if_neg hdot]
  by_cases hdol : ch0 = '$'
  · rw [if_pos hdol]
    split
    · rename_i hne; exact hne
    · intro h; cases h
  rw [if_neg hdol]
  exact scanFrom2_not_ident _ _ _

end InfluxQL

namespace InfluxQL
open Gen

theorem split_at_first_failure (p : Char → Bool) (s : List Char) :
    (∀ c ∈ s, p c = true) ∨ ∃ b y s2, s = b ++ y :: s2 ∧ (∀ c ∈ b, p c = true) ∧ p y = false := by
  induction s with
  | nil => left; simp
  | cons c s ih =>
    by_cases hc : p c = true
    · rcases ih with h | ⟨b, y, s2, rfl, hb, hy⟩
      · left; intro x hx; simp at hx; rcases hx with rfl | hx
        · exact hc
        · exact h x hx
      · right
        refine ⟨c :: b, y, s2, rfl, ?_, hy⟩
        intro x hx; simp at hx; rcases hx with rfl | hx
        · exact hc
        · exact hb x hx
    · right
      exact ⟨[], c, s, rfl, by simp, by simpa using hc⟩

theorem scanFrom_identFirst (ch0 : Char) (pos : Pos) (r r1 : Cursor) (h : isIdentFirstChar ch0 = true) :
    scanFrom ch0 pos r r1 = scanIdent true r := by
  obtain ⟨hws, hlu, _, _, _⟩ := isIdentFirstChar_facts h
  unfold scanFrom
  simp [hws, hlu]

/-- Result of `scanIdent` once the loop result is known. -/
theorem scanIdent_of_loop_none (lk : Bool) (r r' : Cursor) (lit : List Char)
    (h : scanIdentLoop (r.read.1).2 (r.rest.length + 2) r [] = ((none, lit), r')) :
    (scanIdent lk r).2 = r' ∧
    ((scanIdent lk r).1.tok = .IDENT → (scanIdent lk r).1.lit = lit ∧ (lk = true → lookup lit = .IDENT)) := by
  unfold scanIdent
  dsimp only
  rw [h]
  dsimp only
  split
  · rename_i hk
    refine ⟨rfl, ?_⟩
    intro ht
    exact absurd ht hk.2
  · rename_i hk
    refine ⟨rfl, fun _ => ⟨rfl, ?_⟩⟩
    intro hlk
    by_cases hl : lookup lit = .IDENT
    · exact hl
    · exact absurd ⟨hlk, hl⟩ hk

theorem scanIdent_of_loop_some (lk : Bool) (r r' : Cursor) (lx : Lexeme) (buf : List Char)
    (h : scanIdentLoop (r.read.1).2 (r.rest.length + 2) r [] = ((some lx, buf), r')) :
    scanIdent lk r = (lx, r') := by
  unfold scanIdent
  dsimp only
  rw [h]

/-- **Converse of `bare_ident_scans`.** If a non-empty expressible name written bare before a
separating character scans as the identifier with that very name, covering exactly the name, then
`IdentNeedsQuotes` is false for it. -/
theorem scan_ident_implies_no_quotes (r : Cursor) (s : List Char) (x : Char) (t : List Char)
    (hs : s ≠ []) (hex : Expressible s) (h : r.rest.map Prod.fst = s ++ x :: t)
    (hx : isIdentChar x = false) (hxq : x ≠ '"') (hxe : x ≠ eofRune)
    (htok : (scan r).1.tok = .IDENT) (hlit : (scan r).1.lit = s)
    (hrest : (scan r).2.rest.length = t.length + 1) :
    identNeedsQuotes s = false := by
  cases s with
  | nil => exact absurd rfl hs
  | cons c0 tl =>
  have hlen : r.rest.length = (c0 :: tl).length + t.length + 1 := by
    have := congrArg List.length h
    simp only [List.length_map, List.length_append, List.length_cons] at this ⊢
    omega
  have hpk := Cursor.peek_of_map (t := tl ++ x :: t) (by simpa using h)
  have hscan : scan r = scanFrom c0 r.read.1.2 r r.read.2 := by unfold scan; rw [hpk.2]
  by_cases hq : c0 = '"'
  · -- quoted: the token covers at least the value plus two quotes
    exfalso
    subst hq
    rw [hscan, scanFrom_dquote] at htok hlit hrest
    have hne : r.peek ≠ eofRune := by rw [hpk.1]; decide
    have hloop : scanIdentLoop (r.read.1).2 (r.rest.length + 2) r [] =
        (if (scanString r).1.tok = .BADSTRING ∨ (scanString r).1.tok = .BADESCAPE then
          ((some (scanString r).1, []), (scanString r).2)
         else ((some ⟨.IDENT, (r.read.1).2, (scanString r).1.lit⟩, []), (scanString r).2)) := by
      rw [show r.rest.length + 2 = (r.rest.length + 1) + 1 from rfl]
      have hq' : ('"' : Char) ≠ eofRune := by decide
      simp only [scanIdentLoop, hpk.1, hq', if_false, if_true]
    by_cases hbad : (scanString r).1.tok = .BADSTRING ∨ (scanString r).1.tok = .BADESCAPE
    · rw [if_pos hbad] at hloop
      rw [scanIdent_of_loop_some true r _ _ _ hloop] at htok
      rcases hbad with hb | hb <;> (rw [hb] at htok; cases htok)
    · rw [if_neg hbad] at hloop
      rw [scanIdent_of_loop_some true r _ _ _ hloop] at hlit hrest
      have hstr : (scanString r).1.tok = .STRING := by
        have := scanString_family r
        simp only [Gen.Token.isStringFamily, Bool.or_eq_true, beq_iff_eq] at this
        rcases this with (h1 | h1) | h1
        · exact h1
        · exact absurd (Or.inl h1) hbad
        · exact absurd (Or.inr h1) hbad
      have := scanString_length r hstr
      simp only at hlit hrest
      rw [hlit, hrest, hlen] at this
      simp only [List.length_cons] at this
      omega
  · by_cases hf : isIdentFirstChar c0 = true
    · -- starts like an identifier
      rw [hscan, scanFrom_identFirst _ _ _ _ hf] at htok hlit hrest
      obtain ⟨_, _, hic, hcq, hce⟩ := isIdentFirstChar_facts hf
      rcases split_at_first_failure isIdentChar (c0 :: tl) with hall | ⟨b, y, s2, hsplit, hb, hy⟩
      · -- the whole name is a run of identifier characters
        obtain ⟨hb1, hb2, _⟩ := scanBareIdent_exact r (c0 :: tl) x t h hall hx hxe
        have hpk' : (scanBareIdent r).2.peek = x := (Cursor.peek_of_map hb2).1
        have hloop : scanIdentLoop (r.read.1).2 (r.rest.length + 2) r [] = ((none, c0 :: tl), (scanBareIdent r).2) := by
          rw [show r.rest.length + 2 = (r.rest.length + 1) + 1 from rfl]
          rw [scanIdentLoop]
          simp only [hpk.1, hce, hcq, hic, if_false, if_true]
          rw [scanIdentLoop]
          simp only [hpk', hxe, hxq, hx, if_false, hb1, List.nil_append]
          simp
        obtain ⟨_, h2⟩ := scanIdent_of_loop_none true r _ _ hloop
        have hlk := (h2 htok).2 rfl
        rw [identNeedsQuotes_false_iff _ hs]
        refine ⟨hlk, c0, tl, rfl, hf, ?_⟩
        intro z hz
        exact hall z (by simp [hz])
      · -- a character that cannot continue an identifier occurs inside the name
        exfalso
        have hbne : b ≠ [] := by
          intro hb0; subst hb0
          simp at hsplit
          rw [← hsplit.1] at hy
          rw [hic] at hy; cases hy
        have hye : y ≠ eofRune := by
          have : y ∈ c0 :: tl := by rw [hsplit]; simp
          exact (hex y this).1
        have h' : r.rest.map Prod.fst = b ++ y :: (s2 ++ x :: t) := by rw [h, hsplit]; simp
        obtain ⟨hb1, hb2, _⟩ := scanBareIdent_exact r b y (s2 ++ x :: t) h' hb hy hye
        have hpk' : (scanBareIdent r).2.peek = y := (Cursor.peek_of_map hb2).1
        have hlen' : (scanBareIdent r).2.rest.length = s2.length + t.length + 2 := by
          have := congrArg List.length hb2
          simp only [List.length_map, List.length_append, List.length_cons] at this
          omega
        have hslen : (c0 :: tl).length = b.length + 1 + s2.length := by
          rw [hsplit]; simp only [List.length_append, List.length_cons]; omega
        have hbpos : 1 ≤ b.length := by
          cases b with
          | nil => exact absurd rfl hbne
          | cons _ _ => simp
        by_cases hyq : y = '"'
        · -- a quote inside: the token becomes a quoted identifier that is longer than the name
          subst hyq
          have hloop : scanIdentLoop (r.read.1).2 (r.rest.length + 2) r [] =
              (if (scanString (scanBareIdent r).2).1.tok = .BADSTRING ∨ (scanString (scanBareIdent r).2).1.tok = .BADESCAPE then
                ((some (scanString (scanBareIdent r).2).1, [] ++ (scanBareIdent r).1), (scanString (scanBareIdent r).2).2)
               else ((some ⟨.IDENT, (r.read.1).2, (scanString (scanBareIdent r).2).1.lit⟩, [] ++ (scanBareIdent r).1),
                 (scanString (scanBareIdent r).2).2)) := by
            rw [show r.rest.length + 2 = (r.rest.length + 1) + 1 from rfl]
            rw [scanIdentLoop]
            simp only [hpk.1, hce, hcq, hic, if_false, if_true]
            rw [scanIdentLoop]
            have hq' : ('"' : Char) ≠ eofRune := by decide
            simp only [hpk', hq', if_false, if_true]
          by_cases hbad : (scanString (scanBareIdent r).2).1.tok = .BADSTRING ∨ (scanString (scanBareIdent r).2).1.tok = .BADESCAPE
          · rw [if_pos hbad] at hloop
            rw [scanIdent_of_loop_some true r _ _ _ hloop] at htok
            rcases hbad with hb' | hb' <;> (rw [hb'] at htok; cases htok)
          · rw [if_neg hbad] at hloop
            rw [scanIdent_of_loop_some true r _ _ _ hloop] at hlit hrest
            have hstr : (scanString (scanBareIdent r).2).1.tok = .STRING := by
              have := scanString_family (scanBareIdent r).2
              simp only [Gen.Token.isStringFamily, Bool.or_eq_true, beq_iff_eq] at this
              rcases this with (h1 | h1) | h1
              · exact h1
              · exact absurd (Or.inl h1) hbad
              · exact absurd (Or.inr h1) hbad
            have := scanString_length (scanBareIdent r).2 hstr
            simp only at hlit hrest
            rw [hlit, hrest, hlen'] at this
            omega
        · -- any other character ends the identifier early
          have hloop : scanIdentLoop (r.read.1).2 (r.rest.length + 2) r [] = ((none, b), (scanBareIdent r).2) := by
            rw [show r.rest.length + 2 = (r.rest.length + 1) + 1 from rfl]
            rw [scanIdentLoop]
            simp only [hpk.1, hce, hcq, hic, if_false, if_true]
            rw [scanIdentLoop]
            simp only [hpk', hye, hyq, hy, if_false, hb1, List.nil_append]
            simp
          obtain ⟨h1, _⟩ := scanIdent_of_loop_none true r _ _ hloop
          rw [h1, hlen'] at hrest
          omega
    · -- does not start like an identifier and is not quoted: not an IDENT token at all
      exfalso
      have h1 : (isLetter c0 || c0 == '_') = false := by
        cases hl : (isLetter c0 || c0 == '_') with
        | false => rfl
        | true =>
          exfalso
          apply hf
          unfold isIdentFirstChar
          simp only [Bool.or_eq_true, beq_iff_eq] at hl ⊢
          rcases hl with hl | hl
          · exact Or.inl hl
          · right; rw [hl]; rfl
      rw [hscan] at htok
      exact scanFrom_not_ident c0 _ r _ h1 hq htok

end InfluxQL

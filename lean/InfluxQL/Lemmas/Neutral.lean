import InfluxQL.Lemmas.Scanner
import InfluxQL.Lemmas.Quote
/-
Locality of the scanner (C16): what `Scan` returns is determined by the runes it consumes
plus at most one rune of look-ahead, and of that look-ahead rune only its class matters as
long as it is one of the three whitespace runes. Stated as a simulation between two cursors
whose delivered rune streams share a prefix `a` and continue with `t1` / `t2`, where the
continuations are both exhausted or both begin with whitespace (`TailOK`): if the first run
stays inside `a`, the second run returns the same token and stays inside `a` as well.
With `t1 = t2 = []` this is position erasure (the result depends on the runes only).
-/
namespace InfluxQL
open Gen

/-- The delivered rune stream ahead of the cursor, positions erased. -/
def Cursor.chars (r : Cursor) : List Char := r.rest.map Prod.fst

/-- Kind and literal of a token, position erased. -/
def Lexeme.sig (lx : Lexeme) : Token × List Char := (lx.tok, lx.lit)

/-- Both continuations are exhausted, or both begin with a whitespace rune. -/
def TailOK (t1 t2 : List Char) : Prop :=
  (t1 = [] ∧ t2 = []) ∨
  ∃ c1 x1 c2 x2, t1 = c1 :: x1 ∧ t2 = c2 :: x2 ∧ isWhitespace c1 = true ∧ isWhitespace c2 = true

/-- Two stamped streams share a prefix and continue with `t1` / `t2`. -/
def LocL (t1 t2 : List Char) (l1 l2 : List (Char × Pos)) : Prop :=
  ∃ a, l1.map Prod.fst = a ++ t1 ∧ l2.map Prod.fst = a ++ t2

/-- Two cursors whose streams share a prefix and continue with `t1` / `t2`. -/
def Loc (t1 t2 : List Char) (r1 r2 : Cursor) : Prop := LocL t1 t2 r1.rest r2.rest

theorem LocL.length_ge {t1 t2 : List Char} {l1 l2 : List (Char × Pos)} (h : LocL t1 t2 l1 l2) :
    t1.length ≤ l1.length := by
  obtain ⟨a, h1, _⟩ := h
  have := congrArg List.length h1
  simp at this
  omega

/-- The three situations of a pair of related streams: both exhausted; a common rune inside the
shared prefix; or both standing at the gap (a whitespace rune each). -/
theorem LocL.cases {t1 t2 : List Char} {l1 l2 : List (Char × Pos)} (h : LocL t1 t2 l1 l2)
    (ht : TailOK t1 t2) :
    (l1 = [] ∧ l2 = [] ∧ t1 = [] ∧ t2 = []) ∨
    (∃ c q1 q2 l1' l2', l1 = (c, q1) :: l1' ∧ l2 = (c, q2) :: l2' ∧ LocL t1 t2 l1' l2') ∨
    (∃ c1 q1 l1' c2 q2 l2', l1 = (c1, q1) :: l1' ∧ l2 = (c2, q2) :: l2' ∧
      isWhitespace c1 = true ∧ isWhitespace c2 = true ∧ l1.length = t1.length) := by
  obtain ⟨a, h1, h2⟩ := h
  cases a with
  | nil =>
    simp only [List.nil_append] at h1 h2
    rcases ht with ⟨e1, e2⟩ | ⟨c1, x1, c2, x2, e1, e2, w1, w2⟩
    · subst e1 e2
      left
      simp at h1 h2
      exact ⟨h1, h2, by trivial, by trivial⟩
    · right; right
      subst e1 e2
      cases l1 with
      | nil => simp at h1
      | cons y1 l1' =>
        cases l2 with
        | nil => simp at h2
        | cons y2 l2' =>
          obtain ⟨d1, q1⟩ := y1
          obtain ⟨d2, q2⟩ := y2
          simp only [List.map_cons, List.cons.injEq] at h1 h2
          obtain ⟨hd1, h1⟩ := h1
          obtain ⟨hd2, h2⟩ := h2
          refine ⟨d1, q1, l1', d2, q2, l2', rfl, rfl, by rw [hd1]; exact w1, by rw [hd2]; exact w2, ?_⟩
          have := congrArg List.length h1
          simp at this
          simp [this]
  | cons c a =>
    right; left
    cases l1 with
    | nil => simp at h1
    | cons y1 l1' =>
      cases l2 with
      | nil => simp at h2
      | cons y2 l2' =>
        obtain ⟨d1, q1⟩ := y1
        obtain ⟨d2, q2⟩ := y2
        simp only [List.map_cons, List.cons_append, List.cons.injEq] at h1 h2
        obtain ⟨hd1, h1⟩ := h1
        obtain ⟨hd2, h2⟩ := h2
        subst hd1 hd2
        exact ⟨_, q1, q2, l1', l2', rfl, rfl, a, h1, h2⟩

theorem LocL.nil (t1 t2 : List Char) (l1 l2 : List (Char × Pos)) (h1 : l1.map Prod.fst = t1)
    (h2 : l2.map Prod.fst = t2) : LocL t1 t2 l1 l2 := ⟨[], by simpa using h1, by simpa using h2⟩

theorem isWhitespace_ne_eof {c : Char} (h : isWhitespace c = true) : c ≠ eofRune := by
  intro hc; subst hc; revert h; decide

/-! ### `spanStamped` / `readWhile` -/

theorem spanStamped_loc (p : Char → Bool) (t1 t2 : List Char) (ht : TailOK t1 t2)
    (l1 l2 : List (Char × Pos)) (pv1 pv2 : Char × Pos) (n1 n2 : Nat) (h : LocL t1 t2 l1 l2)
    (hu : t1.length < (spanStamped p l1 pv1 n1).2.1.length ∨
      (t1.length ≤ (spanStamped p l1 pv1 n1).2.1.length ∧
        (t1 = [] ∨ ∀ c1 c2, isWhitespace c1 = true → isWhitespace c2 = true → p c1 = p c2))) :
    (spanStamped p l1 pv1 n1).1 = (spanStamped p l2 pv2 n2).1 ∧
    LocL t1 t2 (spanStamped p l1 pv1 n1).2.1 (spanStamped p l2 pv2 n2).2.1 := by
  induction l1 generalizing l2 pv1 pv2 n1 n2 with
  | nil =>
    rcases h.cases ht with ⟨_, rfl, _, _⟩ | ⟨c, q1, q2, l1', l2', e, _⟩ | ⟨c1, q1, l1', c2, q2, l2', e, _⟩
    · simp only [spanStamped]; exact ⟨by trivial, h⟩
    · cases e
    · cases e
  | cons y l1' ih =>
    rcases h.cases ht with ⟨e, _⟩ | ⟨c, q1, q2, l1'', l2', e1, e2, hl⟩ |
        ⟨c1, q1, l1'', c2, q2, l2', e1, e2, w1, w2, hlen⟩
    · cases e
    · cases e1; subst e2
      simp only [spanStamped] at hu ⊢
      split
      · rename_i hc
        simp only [hc, if_true] at hu
        have := ih l2' (c, q1) (c, q2) (n1 + 1) (n2 + 1) hl hu
        exact ⟨by rw [this.1], this.2⟩
      · exact ⟨rfl, h⟩
    · cases e1; subst e2
      simp only [spanStamped] at hu ⊢
      by_cases hc : (p c1 && c1 != eofRune) = true
      · exfalso
        simp only [hc, if_true] at hu
        have hs := (spanStamped_suffix p l1' (c1, q1) (n1 + 1)).1.length_le
        simp only [List.length_cons] at hlen
        generalize spanStamped p l1' (c1, q1) (n1 + 1) = res at hu hs
        obtain ⟨cs, rest, pv, m⟩ := res
        simp only at hu hs
        rcases hu with hu | ⟨hu, _⟩ <;> omega
      · have hc' : (p c1 && c1 != eofRune) = false := by simpa using hc
        simp only [hc', Bool.false_eq_true, if_false] at hu ⊢
        rcases hu with hu | ⟨_, hp⟩
        · simp only [List.length_cons] at hlen hu; omega
        rcases hp with hp | hp
        · subst hp; simp at hlen
        · have hc2 : ¬ (p c2 && c2 != eofRune) = true := by
            rw [← hp c1 c2 w1 w2]
            simpa [isWhitespace_ne_eof w1, isWhitespace_ne_eof w2] using hc
          have hc2' : (p c2 && c2 != eofRune) = false := by simpa using hc2
          simp only [hc2', Bool.false_eq_true, if_false]
          exact ⟨by trivial, h⟩

/-! ### Cursor primitives -/

/-- Two look-ahead runes are interchangeable: equal, or both whitespace. -/
def PeekEq (c1 c2 : Char) : Prop := c1 = c2 ∨ (isWhitespace c1 = true ∧ isWhitespace c2 = true)

theorem PeekEq.const {c1 c2 : Char} (h : PeekEq c1 c2) (k : Char) (hk : isWhitespace k = false) :
    (c1 = k) = (c2 = k) := by
  rcases h with rfl | ⟨w1, w2⟩
  · rfl
  · have e1 : c1 ≠ k := fun e => by rw [e, hk] at w1; cases w1
    have e2 : c2 ≠ k := fun e => by rw [e, hk] at w2; cases w2
    simp [e1, e2]

theorem PeekEq.pred {c1 c2 : Char} (h : PeekEq c1 c2) (p : Char → Bool)
    (hp : ∀ c, isWhitespace c = true → p c = false) : p c1 = p c2 := by
  rcases h with rfl | ⟨w1, w2⟩
  · rfl
  · rw [hp c1 w1, hp c2 w2]

theorem Loc.peek {t1 t2 : List Char} {r1 r2 : Cursor} (h : Loc t1 t2 r1 r2) (ht : TailOK t1 t2) :
    PeekEq r1.peek r2.peek := by
  rcases LocL.cases h ht with ⟨e1, e2, _, _⟩ | ⟨c, q1, q2, l1', l2', e1, e2, _⟩ |
      ⟨c1, q1, l1', c2, q2, l2', e1, e2, w1, w2, _⟩
  · left; simp [Cursor.peek, e1, e2]
  · left; simp [Cursor.peek, e1, e2]
  · right; simp [Cursor.peek, e1, e2, w1, w2]

theorem Loc.read {t1 t2 : List Char} {r1 r2 : Cursor} (h : Loc t1 t2 r1 r2) (ht : TailOK t1 t2)
    (hlen : t1.length ≤ r1.read.2.rest.length) :
    r1.read.1.1 = r2.read.1.1 ∧ Loc t1 t2 r1.read.2 r2.read.2 := by
  rcases LocL.cases h ht with ⟨e1, e2, f1, f2⟩ | ⟨c, q1, q2, l1', l2', e1, e2, hl⟩ |
      ⟨c1, q1, l1', c2, q2, l2', e1, e2, w1, w2, hl⟩
  · subst f1 f2
    refine ⟨by simp [Cursor.read, e1, e2], ?_⟩
    unfold Loc
    simp only [Cursor.read, e1, e2]
    exact LocL.nil _ _ _ _ rfl rfl
  · refine ⟨by simp [Cursor.read, e1, e2], ?_⟩
    unfold Loc
    simp only [Cursor.read, e1, e2]
    exact hl
  · exfalso
    rw [r1.read_length, e1] at hlen
    rw [e1] at hl
    simp only [List.length_cons] at hlen hl
    omega

theorem Loc.eatEof {t1 t2 : List Char} {r1 r2 : Cursor} (h : Loc t1 t2 r1 r2) (ht : TailOK t1 t2)
    (hlen : t1.length ≤ r1.eatEof.rest.length) : Loc t1 t2 r1.eatEof r2.eatEof := by
  have hp := h.peek ht
  have := hp.const eofRune (by decide)
  unfold Cursor.eatEof at hlen ⊢
  by_cases h1 : r1.peek = eofRune
  · have h2 : r2.peek = eofRune := by rw [← this]; exact h1
    rw [if_pos h1] at hlen ⊢
    rw [if_pos h2]
    exact (h.read ht hlen).2
  · have h2 : ¬ r2.peek = eofRune := by rw [← this]; exact h1
    rw [if_neg h1, if_neg h2]
    exact h

theorem Loc.readWhile {t1 t2 : List Char} {r1 r2 : Cursor} (h : Loc t1 t2 r1 r2) (ht : TailOK t1 t2)
    (p : Char → Bool)
    (hu : t1.length < (r1.readWhile p).2.rest.length ∨
      (t1.length ≤ (r1.readWhile p).2.rest.length ∧
        (t1 = [] ∨ ∀ c1 c2, isWhitespace c1 = true → isWhitespace c2 = true → p c1 = p c2))) :
    (r1.readWhile p).1 = (r2.readWhile p).1 ∧ Loc t1 t2 (r1.readWhile p).2 (r2.readWhile p).2 :=
  spanStamped_loc p t1 t2 ht r1.rest r2.rest r1.prev r2.prev r1.off r2.off h hu

/-- Predicates that are uniformly false on whitespace. -/
theorem uniform_of_false {p : Char → Bool} (hp : ∀ c, isWhitespace c = true → p c = false) :
    ∀ c1 c2, isWhitespace c1 = true → isWhitespace c2 = true → p c1 = p c2 :=
  fun c1 c2 w1 w2 => by rw [hp c1 w1, hp c2 w2]

theorem ws_not_identChar (c : Char) (h : isWhitespace c = true) : isIdentChar c = false := by
  unfold isWhitespace at h
  unfold isIdentChar isLetter isDigit
  simp only [Bool.or_eq_true, beq_iff_eq] at h
  rcases h with (h | h) | h <;> simp [h]

theorem ws_not_digit (c : Char) (h : isWhitespace c = true) : isDigit c = false := by
  have := ws_not_identChar c h
  unfold isIdentChar at this
  simp only [Bool.or_eq_false_iff] at this
  exact this.1.2

theorem ws_not_letter (c : Char) (h : isWhitespace c = true) : isLetter c = false := by
  have := ws_not_identChar c h
  unfold isIdentChar at this
  simp only [Bool.or_eq_false_iff] at this
  exact this.1.1

theorem ws_not_durChar (c : Char) (h : isWhitespace c = true) : isDurChar c = false := by
  unfold isDurChar
  rw [ws_not_letter c h]
  unfold isWhitespace at h
  simp only [Bool.or_eq_true, beq_iff_eq] at h
  rcases h with (h | h) | h <;> simp [h]

theorem ws_not_durTailChar (c : Char) (h : isWhitespace c = true) : isDurTailChar c = false := by
  have h1 := ws_not_durChar c h
  unfold isDurChar at h1
  unfold isDurTailChar
  rw [h1, ws_not_digit c h]; rfl

/-! ### The string loop -/

theorem scanStringLoop_nil (ending : Char) (fin : Pos) (acc : List Char) (pv : Char × Pos) (n : Nat) :
    scanStringLoop ending fin [] acc pv n = (acc, some .badString, [], (eofRune, fin), n + 1) := by
  rw [scanStringLoop.eq_def]

theorem scanStringLoop_cons (ending : Char) (fin : Pos) (c : Char) (q : Pos) (t : List (Char × Pos))
    (acc : List Char) (pv : Char × Pos) (n : Nat) :
    scanStringLoop ending fin ((c, q) :: t) acc pv n =
      if c = ending then (acc, none, t, (c, q), n + 1)
      else if c = eofRune ∨ c = '\n' then (acc, some .badString, t, (c, q), n + 1)
      else if c = '\\' then
        match t with
        | [] => (['\\', eofRune], some .badEscape, [], (eofRune, fin), n + 2)
        | (c1, q1) :: t1 =>
          if c1 = 'n' then scanStringLoop ending fin t1 (acc ++ ['\n']) (c1, q1) (n + 2)
          else if c1 = '\\' then scanStringLoop ending fin t1 (acc ++ ['\\']) (c1, q1) (n + 2)
          else if c1 = '"' then scanStringLoop ending fin t1 (acc ++ ['"']) (c1, q1) (n + 2)
          else if c1 = '\'' then scanStringLoop ending fin t1 (acc ++ ['\'']) (c1, q1) (n + 2)
          else (['\\', c1], some .badEscape, t1, (c1, q1), n + 2)
      else scanStringLoop ending fin t (acc ++ [c]) (c, q) (n + 1) := by
  rw [scanStringLoop.eq_def]
  rfl

theorem scanStringLoop_rest_le (ending : Char) (fin : Pos) (c : Char) (q : Pos) (t : List (Char × Pos))
    (acc : List Char) (pv : Char × Pos) (n : Nat) :
    (scanStringLoop ending fin ((c, q) :: t) acc pv n).2.2.1.length ≤ t.length := by
  rw [scanStringLoop_cons]
  split
  · exact Nat.le_refl _
  · split
    · exact Nat.le_refl _
    · split
      · split
        · simp
        · rename_i c1 q1 t1
          have hs : ∀ acc', (scanStringLoop ending fin t1 acc' (c1, q1) (n + 2)).2.2.1.length ≤
              ((c1, q1) :: t1).length := fun acc' =>
            Nat.le_trans (scanStringLoop_suffix ending fin t1 acc' (c1, q1) (n + 2)).1.length_le (by simp)
          repeat' split
          all_goals first
            | exact hs _
            | simp
      · exact (scanStringLoop_suffix ending fin t _ (c, q) (n + 1)).1.length_le

theorem scanStringLoop_escape_rest_le (ending : Char) (fin : Pos) (q : Pos) (c1 : Char) (q1 : Pos)
    (t1 : List (Char × Pos)) (acc : List Char) (pv : Char × Pos) (n : Nat)
    (h1 : ¬ '\\' = ending) :
    (scanStringLoop ending fin (('\\', q) :: (c1, q1) :: t1) acc pv n).2.2.1.length ≤ t1.length := by
  have hs : ∀ acc', (scanStringLoop ending fin t1 acc' (c1, q1) (n + 2)).2.2.1.length ≤ t1.length :=
    fun acc' => (scanStringLoop_suffix ending fin t1 acc' (c1, q1) (n + 2)).1.length_le
  have h2 : ¬ (('\\' : Char) = eofRune ∨ ('\\' : Char) = '\n') := by decide
  rw [scanStringLoop_cons]
  simp only [h1, h2, if_false, if_true]
  repeat' split
  all_goals first
    | exact hs _
    | simp

theorem scanStringLoop_loc (ending : Char) (fin1 fin2 : Pos) (t1 t2 : List Char) (ht : TailOK t1 t2)
    (k : Nat) (l1 l2 : List (Char × Pos)) (hk : l1.length ≤ k) (acc : List Char)
    (pv1 pv2 : Char × Pos) (n1 n2 : Nat) (h : LocL t1 t2 l1 l2)
    (hlen : t1.length ≤ (scanStringLoop ending fin1 l1 acc pv1 n1).2.2.1.length) :
    (scanStringLoop ending fin1 l1 acc pv1 n1).1 = (scanStringLoop ending fin2 l2 acc pv2 n2).1 ∧
    (scanStringLoop ending fin1 l1 acc pv1 n1).2.1 = (scanStringLoop ending fin2 l2 acc pv2 n2).2.1 ∧
    LocL t1 t2 (scanStringLoop ending fin1 l1 acc pv1 n1).2.2.1
      (scanStringLoop ending fin2 l2 acc pv2 n2).2.2.1 := by
  induction k generalizing l1 l2 acc pv1 pv2 n1 n2 with
  | zero =>
    have : l1 = [] := List.length_eq_zero_iff.mp (Nat.le_zero.mp hk)
    subst this
    rcases h.cases ht with ⟨_, e2, f1, f2⟩ | ⟨c, q1, q2, l1', l2', e, _⟩ | ⟨c1, q1, l1', c2, q2, l2', e, _⟩
    · subst e2 f1 f2
      simp only [scanStringLoop_nil]
      exact ⟨by trivial, by trivial, LocL.nil _ _ _ _ rfl rfl⟩
    · cases e
    · cases e
  | succ k ih =>
    rcases h.cases ht with ⟨e1, e2, f1, f2⟩ | ⟨c, q1, q2, l1', l2', e1, e2, hl⟩ |
        ⟨c1, q1, l1', c2, q2, l2', e1, e2, w1, w2, hl⟩
    · subst e1 e2 f1 f2
      simp only [scanStringLoop_nil]
      exact ⟨by trivial, by trivial, LocL.nil _ _ _ _ rfl rfl⟩
    · subst e1 e2
      simp only [List.length_cons] at hk
      have hlen0 := hlen
      simp only [scanStringLoop_cons] at hlen ⊢
      by_cases hc1 : c = ending
      · simp only [hc1, if_true] at hlen ⊢
        exact ⟨by trivial, by trivial, hl⟩
      simp only [hc1, if_false] at hlen ⊢
      by_cases hc2 : c = eofRune ∨ c = '\n'
      · simp only [hc2, if_true] at hlen ⊢
        exact ⟨by trivial, by trivial, hl⟩
      simp only [hc2, if_false] at hlen ⊢
      by_cases hc3 : c = '\\'
      · simp only [hc3, if_true] at hlen ⊢
        rcases hl.cases ht with ⟨e1, e2, f1, f2⟩ | ⟨d, p1, p2, m1, m2, e1, e2, hm⟩ |
            ⟨d1, p1, m1, d2, p2, m2, e1, e2, w1, w2, hm⟩
        · subst e1 e2 f1 f2
          exact ⟨by trivial, by trivial, LocL.nil _ _ _ _ rfl rfl⟩
        · subst e1 e2
          simp only at hlen ⊢
          simp only [List.length_cons] at hk
          have hk' : m1.length ≤ k := by omega
          by_cases hd1 : d = 'n'
          · simp only [hd1, if_true] at hlen ⊢
            exact ih m1 m2 hk' _ _ _ _ _ hm hlen
          simp only [hd1, if_false] at hlen ⊢
          by_cases hd2 : d = '\\'
          · simp only [hd2, if_true] at hlen ⊢
            exact ih m1 m2 hk' _ _ _ _ _ hm hlen
          simp only [hd2, if_false] at hlen ⊢
          by_cases hd3 : d = '"'
          · simp only [hd3, if_true] at hlen ⊢
            exact ih m1 m2 hk' _ _ _ _ _ hm hlen
          simp only [hd3, if_false] at hlen ⊢
          by_cases hd4 : d = '\''
          · simp only [hd4, if_true] at hlen ⊢
            exact ih m1 m2 hk' _ _ _ _ _ hm hlen
          simp only [hd4, if_false] at hlen ⊢
          exact ⟨by trivial, by trivial, hm⟩
        · exfalso
          subst e1
          subst hc3
          have hb := scanStringLoop_escape_rest_le ending fin1 q1 d1 p1 m1 acc pv1 n1 (fun e => hc1 e)
          simp only [List.length_cons] at hm
          omega
      · simp only [hc3, if_false] at hlen ⊢
        exact ih l1' l2' (by omega) _ _ _ _ _ hl hlen
    · exfalso
      subst e1
      have := scanStringLoop_rest_le ending fin1 c1 q1 l1' acc pv1 n1
      simp only [List.length_cons] at hl
      omega

/-! ### The block-comment loop -/

theorem skipCommentLoop_loc (fin1 fin2 : Pos) (t1 t2 : List Char) (ht : TailOK t1 t2)
    (l1 l2 : List (Char × Pos)) (star : Bool) (pv1 pv2 : Char × Pos) (n1 n2 : Nat)
    (h : LocL t1 t2 l1 l2)
    (hlen : t1.length ≤ (skipCommentLoop fin1 l1 star pv1 n1).2.1.length) :
    (skipCommentLoop fin1 l1 star pv1 n1).1 = (skipCommentLoop fin2 l2 star pv2 n2).1 ∧
    LocL t1 t2 (skipCommentLoop fin1 l1 star pv1 n1).2.1 (skipCommentLoop fin2 l2 star pv2 n2).2.1 := by
  induction l1 generalizing l2 star pv1 pv2 n1 n2 with
  | nil =>
    rcases h.cases ht with ⟨_, e2, f1, f2⟩ | ⟨c, q1, q2, l1', l2', e, _⟩ | ⟨c1, q1, l1', c2, q2, l2', e, _⟩
    · subst e2 f1 f2
      simp only [skipCommentLoop]
      exact ⟨by trivial, LocL.nil _ _ _ _ rfl rfl⟩
    · cases e
    · cases e
  | cons y l1' ih =>
    rcases h.cases ht with ⟨e, _⟩ | ⟨c, q1, q2, l1'', l2', e1, e2, hl⟩ |
        ⟨c1, q1, l1'', c2, q2, l2', e1, e2, w1, w2, hl⟩
    · cases e
    · cases e1; subst e2
      simp only [skipCommentLoop] at hlen ⊢
      by_cases hc1 : c = eofRune
      · simp only [hc1, if_true] at hlen ⊢
        exact ⟨by trivial, hl⟩
      simp only [hc1, if_false] at hlen ⊢
      by_cases hc2 : star = true ∧ c = '/'
      · simp only [hc2, if_true] at hlen ⊢
        exact ⟨by trivial, hl⟩
      simp only [hc2, if_false] at hlen ⊢
      exact ih l2' _ _ _ _ _ hl hlen
    · exfalso
      cases e1
      have := (skipCommentLoop_suffix fin1 ((c1, q1) :: l1') star pv1 n1)
      have h3 : (skipCommentLoop fin1 ((c1, q1) :: l1') star pv1 n1).2.1.length ≤ l1'.length := by
        simp only [skipCommentLoop]
        repeat' split
        all_goals first
          | exact Nat.le_refl _
          | exact (skipCommentLoop_suffix fin1 l1' _ _ _).1.length_le
      simp only [List.length_cons] at hl
      omega

/-! ### Strings and identifiers -/

theorem scanStringRaw_loc {t1 t2 : List Char} {r1 r2 : Cursor} (h : Loc t1 t2 r1 r2) (ht : TailOK t1 t2)
    (hlen : t1.length ≤ (scanStringRaw r1).2.2.rest.length) :
    (scanStringRaw r1).1 = (scanStringRaw r2).1 ∧ (scanStringRaw r1).2.1 = (scanStringRaw r2).2.1 ∧
    Loc t1 t2 (scanStringRaw r1).2.2 (scanStringRaw r2).2.2 := by
  have hrd : t1.length ≤ r1.read.2.rest.length := by
    refine Nat.le_trans hlen ?_
    unfold scanStringRaw
    dsimp only
    split
    · exact Nat.le_refl _
    · exact (scanStringLoop_suffix _ _ _ _ _ _).1.length_le
  obtain ⟨hc, hl⟩ := h.read ht hrd
  unfold scanStringRaw at hlen ⊢
  dsimp only at hlen ⊢
  rw [← hc]
  by_cases he : r1.read.1.1 = eofRune
  · simp only [he, if_true]
    exact ⟨by trivial, by trivial, hl⟩
  · simp only [he, if_false] at hlen ⊢
    exact scanStringLoop_loc _ _ _ t1 t2 ht _ _ _ (Nat.le_refl _) _ _ _ _ _ hl hlen

/-- Kind of the token `scanString` returns for a given `ScanString` outcome. -/
def strTok : Option StrErr → Token
  | some .badString => .BADSTRING
  | some .badEscape => .BADESCAPE
  | none => .STRING

theorem scanString_eq (r : Cursor) :
    (scanString r).2 = (scanStringRaw r).2.2 ∧
    (scanString r).1.sig = (strTok (scanStringRaw r).2.1, (scanStringRaw r).1) := by
  unfold scanString
  generalize scanStringRaw r = res
  obtain ⟨lit, e, r'⟩ := res
  rcases e with _ | e
  · exact ⟨rfl, rfl⟩
  · cases e <;> exact ⟨rfl, rfl⟩

theorem scanString_loc {t1 t2 : List Char} {r1 r2 : Cursor} (h : Loc t1 t2 r1 r2) (ht : TailOK t1 t2)
    (hlen : t1.length ≤ (scanString r1).2.rest.length) :
    (scanString r1).1.sig = (scanString r2).1.sig ∧ Loc t1 t2 (scanString r1).2 (scanString r2).2 := by
  rw [(scanString_eq r1).1] at hlen
  have := scanStringRaw_loc h ht hlen
  rw [(scanString_eq r1).1, (scanString_eq r2).1, (scanString_eq r1).2, (scanString_eq r2).2,
    this.1, this.2.1]
  exact ⟨rfl, this.2.2⟩

theorem scanBareIdent_progress (r : Cursor) (hid : isIdentChar r.peek = true) :
    (scanBareIdent r).2.rest.length < r.rest.length := by
  have := r.readWhile_progress isIdentChar hid (isIdentChar_ne_eof hid)
  have h2 := (Cursor.eatEof_adv (r.readWhile isIdentChar).2).length_le
  exact Nat.lt_of_le_of_lt h2 this

theorem scanBareIdent_loc {t1 t2 : List Char} {r1 r2 : Cursor} (h : Loc t1 t2 r1 r2) (ht : TailOK t1 t2)
    (hlen : t1.length ≤ (scanBareIdent r1).2.rest.length) :
    (scanBareIdent r1).1 = (scanBareIdent r2).1 ∧ Loc t1 t2 (scanBareIdent r1).2 (scanBareIdent r2).2 := by
  have h1 : t1.length ≤ (r1.readWhile isIdentChar).2.rest.length :=
    Nat.le_trans hlen (Cursor.eatEof_adv _).length_le
  obtain ⟨hc, hl⟩ := h.readWhile ht isIdentChar (Or.inr ⟨h1, Or.inr (uniform_of_false ws_not_identChar)⟩)
  exact ⟨hc, hl.eatEof ht hlen⟩

theorem scanIdentLoop_loc {t1 t2 : List Char} (ht : TailOK t1 t2) (pos1 pos2 : Pos) (f1 f2 : Nat)
    (r1 r2 : Cursor) (buf : List Char) (h : Loc t1 t2 r1 r2)
    (hf1 : r1.rest.length < f1) (hf2 : r2.rest.length < f2)
    (hlen : t1.length ≤ (scanIdentLoop pos1 f1 r1 buf).2.rest.length) :
    (scanIdentLoop pos1 f1 r1 buf).1.1.map Lexeme.sig = (scanIdentLoop pos2 f2 r2 buf).1.1.map Lexeme.sig ∧
    (scanIdentLoop pos1 f1 r1 buf).1.2 = (scanIdentLoop pos2 f2 r2 buf).1.2 ∧
    Loc t1 t2 (scanIdentLoop pos1 f1 r1 buf).2 (scanIdentLoop pos2 f2 r2 buf).2 := by
  induction f1 generalizing f2 r1 r2 buf with
  | zero => omega
  | succ f1 ih =>
    cases f2 with
    | zero => omega
    | succ f2 =>
      have hp := h.peek ht
      have e1 := hp.const eofRune (by decide)
      have e2 := hp.const '"' (by decide)
      have e3 := hp.pred isIdentChar ws_not_identChar
      simp only [scanIdentLoop] at hlen ⊢
      by_cases c1 : r1.peek = eofRune
      · have c1' : r2.peek = eofRune := by rw [← e1]; exact c1
        simp only [c1, c1', if_true] at hlen ⊢
        exact ⟨by trivial, by trivial, (h.read ht hlen).2⟩
      have c1' : ¬ r2.peek = eofRune := by rw [← e1]; exact c1
      simp only [c1, c1', if_false] at hlen ⊢
      by_cases c2 : r1.peek = '"'
      · have c2' : r2.peek = '"' := by rw [← e2]; exact c2
        simp only [c2, c2', if_true] at hlen ⊢
        have hs : t1.length ≤ (scanString r1).2.rest.length := by
          split at hlen <;> exact hlen
        obtain ⟨hsig, hl⟩ := scanString_loc h ht hs
        have htok : (scanString r1).1.tok = (scanString r2).1.tok := congrArg Prod.fst hsig
        have hlit : (scanString r1).1.lit = (scanString r2).1.lit := congrArg Prod.snd hsig
        rw [← htok]
        split
        · exact ⟨by simp [hsig], by trivial, hl⟩
        · exact ⟨by simp [Lexeme.sig, hlit], by trivial, hl⟩
      have c2' : ¬ r2.peek = '"' := by rw [← e2]; exact c2
      simp only [c2, c2', if_false] at hlen ⊢
      by_cases c3 : isIdentChar r1.peek = true
      · have c3' : isIdentChar r2.peek = true := by rw [← e3]; exact c3
        simp only [c3, c3', if_true] at hlen ⊢
        have hb : t1.length ≤ (scanBareIdent r1).2.rest.length :=
          Nat.le_trans hlen (scanIdentLoop_adv _ _ _ _).length_le
        obtain ⟨hcs, hl⟩ := scanBareIdent_loc h ht hb
        have hp1 := scanBareIdent_progress r1 c3
        have hp2 := scanBareIdent_progress r2 c3'
        rw [← hcs]
        exact ih f2 _ _ _ hl (by omega) (by omega) hlen
      · have c3' : ¬ isIdentChar r2.peek = true := by rw [← e3]; exact c3
        simp only [c3, c3'] at hlen ⊢
        exact ⟨by trivial, by trivial, h⟩

theorem scanIdent_loc {t1 t2 : List Char} {r1 r2 : Cursor} (lk : Bool) (h : Loc t1 t2 r1 r2)
    (ht : TailOK t1 t2) (hlen : t1.length ≤ (scanIdent lk r1).2.rest.length) :
    (scanIdent lk r1).1.sig = (scanIdent lk r2).1.sig ∧ Loc t1 t2 (scanIdent lk r1).2 (scanIdent lk r2).2 := by
  have hcur : ∀ r : Cursor, (scanIdent lk r).2 =
      (scanIdentLoop (r.read.1).2 (r.rest.length + 2) r []).2 := by
    intro r
    unfold scanIdent
    dsimp only
    split
    · simp_all
    · split <;> simp_all
  rw [hcur] at hlen
  obtain ⟨ho, hb, hl⟩ := scanIdentLoop_loc ht (r1.read.1).2 (r2.read.1).2 (r1.rest.length + 2)
    (r2.rest.length + 2) r1 r2 [] h (by omega) (by omega) hlen
  rw [hcur r1, hcur r2]
  refine ⟨?_, hl⟩
  unfold scanIdent
  dsimp only
  generalize scanIdentLoop (r1.read.1).2 (r1.rest.length + 2) r1 [] = o1 at ho hb
  generalize scanIdentLoop (r2.read.1).2 (r2.rest.length + 2) r2 [] = o2 at ho hb
  obtain ⟨⟨x1, b1⟩, c1⟩ := o1
  obtain ⟨⟨x2, b2⟩, c2⟩ := o2
  simp only at ho hb
  subst hb
  cases x1 with
  | none =>
    cases x2 with
    | none =>
      simp only
      split <;> rfl
    | some y => simp at ho
  | some y1 =>
    cases x2 with
    | none => simp at ho
    | some y2 => simpa using ho

/-! ### Numbers -/

theorem scanNumberPrefix_loc {t1 t2 : List Char} {r1 r2 : Cursor} (h : Loc t1 t2 r1 r2) (ht : TailOK t1 t2)
    (hlen : t1.length ≤ (scanNumberPrefix r1).2.2.rest.length) :
    (scanNumberPrefix r1).1 = (scanNumberPrefix r2).1 ∧ (scanNumberPrefix r1).2.1 = (scanNumberPrefix r2).2.1 ∧
    Loc t1 t2 (scanNumberPrefix r1).2.2 (scanNumberPrefix r2).2.2 := by
  have hd : t1.length ≤ (r1.readWhile isDigit).2.rest.length := by
    refine Nat.le_trans hlen ?_
    unfold scanNumberPrefix scanDigits
    dsimp only
    split
    · split
      · exact (((Cursor.read_adv _).trans (Cursor.read_adv _)).trans (Cursor.readWhile_adv _ _)).length_le
      · exact (Cursor.read_adv _).length_le
    · exact Nat.le_refl _
  obtain ⟨hds, hl⟩ := h.readWhile ht isDigit (Or.inr ⟨hd, Or.inr (uniform_of_false ws_not_digit)⟩)
  have hp := hl.peek ht
  have e1 := hp.const '.' (by decide)
  unfold scanNumberPrefix scanDigits at hlen ⊢
  dsimp only at hlen ⊢
  by_cases c1 : (r1.readWhile isDigit).2.peek = '.'
  · have c1' : (r2.readWhile isDigit).2.peek = '.' := by rw [← e1]; exact c1
    simp only [c1, c1', if_true] at hlen ⊢
    have hr : t1.length ≤ (r1.readWhile isDigit).2.read.2.rest.length := by
      refine Nat.le_trans hlen ?_
      split
      · exact ((Cursor.read_adv _).trans (Cursor.readWhile_adv _ _)).length_le
      · exact Nat.le_refl _
    obtain ⟨_, hl2⟩ := hl.read ht hr
    have hp2 := hl2.peek ht
    have e2 := hp2.pred isDigit ws_not_digit
    by_cases c2 : isDigit (r1.readWhile isDigit).2.read.2.peek = true
    · have c2' : isDigit (r2.readWhile isDigit).2.read.2.peek = true := by rw [← e2]; exact c2
      simp only [c2, c2', if_true] at hlen ⊢
      have hpe : (r1.readWhile isDigit).2.read.2.peek = (r2.readWhile isDigit).2.read.2.peek := by
        rcases hp2 with e | ⟨w, _⟩
        · exact e
        · rw [ws_not_digit _ w] at c2; cases c2
      have hr2 : t1.length ≤ (r1.readWhile isDigit).2.read.2.read.2.rest.length :=
        Nat.le_trans hlen (Cursor.readWhile_adv _ _).length_le
      obtain ⟨_, hl3⟩ := hl2.read ht hr2
      obtain ⟨hds2, hl4⟩ := hl3.readWhile ht isDigit (Or.inr ⟨hlen, Or.inr (uniform_of_false ws_not_digit)⟩)
      exact ⟨by rw [hds, hpe, hds2], by trivial, hl4⟩
    · have c2' : ¬ isDigit (r2.readWhile isDigit).2.read.2.peek = true := by rw [← e2]; exact c2
      simp only [c2, c2'] at hlen ⊢
      exact ⟨hds, by trivial, hl2⟩
  · have c1' : ¬ (r2.readWhile isDigit).2.peek = '.' := by rw [← e1]; exact c1
    simp only [c1, c1', if_false] at hlen ⊢
    exact ⟨hds, by trivial, hl⟩

theorem scanNumber_loc {t1 t2 : List Char} {r1 r2 : Cursor} (pos1 pos2 : Pos) (h : Loc t1 t2 r1 r2)
    (ht : TailOK t1 t2) (hlen : t1.length ≤ (scanNumber r1 pos1).2.rest.length) :
    (scanNumber r1 pos1).1.sig = (scanNumber r2 pos2).1.sig ∧
    Loc t1 t2 (scanNumber r1 pos1).2 (scanNumber r2 pos2).2 := by
  have hpre : t1.length ≤ (scanNumberPrefix r1).2.2.rest.length := by
    refine Nat.le_trans hlen ?_
    unfold scanNumber
    dsimp only
    split
    · split
      · exact (((Cursor.read_adv _).trans (Cursor.readWhile_adv _ _)).trans (Cursor.readWhile_adv _ _)).length_le
      · exact Nat.le_refl _
    · exact Nat.le_refl _
  obtain ⟨hb, hdec, hl⟩ := scanNumberPrefix_loc h ht hpre
  unfold scanNumber at hlen ⊢
  dsimp only at hlen ⊢
  rw [← hb, ← hdec]
  by_cases c1 : (scanNumberPrefix r1).2.1 = true
  · simp only [c1, Bool.not_true, Bool.false_eq_true, if_false]
    exact ⟨rfl, by simpa [c1] using hl⟩
  · have c1f : (scanNumberPrefix r1).2.1 = false := by simpa using c1
    simp only [c1f, Bool.not_false, if_true] at hlen ⊢
    have hp := hl.peek ht
    have e2 := hp.pred isDurChar ws_not_durChar
    by_cases c2 : isDurChar (scanNumberPrefix r1).2.2.peek = true
    · have c2' : isDurChar (scanNumberPrefix r2).2.2.peek = true := by rw [← e2]; exact c2
      simp only [c2, c2', if_true] at hlen ⊢
      have hpe : (scanNumberPrefix r1).2.2.peek = (scanNumberPrefix r2).2.2.peek := by
        rcases hp with e | ⟨w, _⟩
        · exact e
        · rw [ws_not_durChar _ w] at c2; cases c2
      have hr : t1.length ≤ (scanNumberPrefix r1).2.2.read.2.rest.length :=
        Nat.le_trans hlen ((Cursor.readWhile_adv _ _).trans (Cursor.readWhile_adv _ _)).length_le
      obtain ⟨_, hl2⟩ := hl.read ht hr
      have hr2 : t1.length ≤ ((scanNumberPrefix r1).2.2.read.2.readWhile isDurChar).2.rest.length :=
        Nat.le_trans hlen (Cursor.readWhile_adv _ _).length_le
      obtain ⟨hl1, hl3⟩ := hl2.readWhile ht isDurChar (Or.inr ⟨hr2, Or.inr (uniform_of_false ws_not_durChar)⟩)
      obtain ⟨hl2', hl4⟩ := hl3.readWhile ht isDurTailChar
        (Or.inr ⟨hlen, Or.inr (uniform_of_false ws_not_durTailChar)⟩)
      exact ⟨by simp only [Lexeme.sig]; rw [hpe, hl1, hl2'], hl4⟩
    · have c2' : ¬ isDurChar (scanNumberPrefix r2).2.2.peek = true := by rw [← e2]; exact c2
      simp only [c2, c2'] at hlen ⊢
      exact ⟨rfl, hl⟩

/-! ### Comments and whitespace -/

theorem skipUntilNewline_loc {t1 t2 : List Char} {r1 r2 : Cursor} (h : Loc t1 t2 r1 r2) (ht : TailOK t1 t2)
    (hlen : t1.length ≤ (skipUntilNewline r1).rest.length) :
    Loc t1 t2 (skipUntilNewline r1) (skipUntilNewline r2) := by
  unfold skipUntilNewline at hlen ⊢
  have hu : t1.length < (r1.readWhile fun c => c != '\n').2.rest.length ∨
      (t1.length ≤ (r1.readWhile fun c => c != '\n').2.rest.length ∧
        (t1 = [] ∨ ∀ c1 c2, isWhitespace c1 = true → isWhitespace c2 = true →
          (fun c => c != '\n') c1 = (fun c => c != '\n') c2)) := by
    rw [Cursor.read_length] at hlen
    by_cases h0 : t1.length = 0
    · right
      exact ⟨by omega, Or.inl (List.length_eq_zero_iff.mp h0)⟩
    · left; omega
  obtain ⟨_, hl⟩ := h.readWhile ht _ hu
  exact (hl.read ht hlen).2

theorem skipUntilEndComment_loc {t1 t2 : List Char} {r1 r2 : Cursor} (h : Loc t1 t2 r1 r2)
    (ht : TailOK t1 t2) (hlen : t1.length ≤ (skipUntilEndComment r1).2.rest.length) :
    (skipUntilEndComment r1).1 = (skipUntilEndComment r2).1 ∧
    Loc t1 t2 (skipUntilEndComment r1).2 (skipUntilEndComment r2).2 :=
  skipCommentLoop_loc r1.fin r2.fin t1 t2 ht r1.rest r2.rest false r1.prev r2.prev r1.off r2.off h hlen

theorem scanWhitespace_loc {t1 t2 : List Char} {r1 r2 : Cursor} (ch0 : Char) (pos1 pos2 : Pos)
    (h : Loc t1 t2 r1 r2) (ht : TailOK t1 t2)
    (hlen : t1.length ≤ (scanWhitespace ch0 pos1 r1).2.rest.length) :
    (scanWhitespace ch0 pos1 r1).1.sig = (scanWhitespace ch0 pos2 r2).1.sig ∧
    Loc t1 t2 (scanWhitespace ch0 pos1 r1).2 (scanWhitespace ch0 pos2 r2).2 := by
  unfold scanWhitespace at hlen ⊢
  dsimp only at hlen ⊢
  have h1 : t1.length ≤ (r1.readWhile isWhitespace).2.rest.length :=
    Nat.le_trans hlen (Cursor.eatEof_adv _).length_le
  obtain ⟨hc, hl⟩ := h.readWhile ht isWhitespace
    (Or.inr ⟨h1, Or.inr (fun c1 c2 w1 w2 => by rw [w1, w2])⟩)
  exact ⟨by simp only [Lexeme.sig]; rw [hc], hl.eatEof ht hlen⟩

/-! ### Operators and the dispatch of `Scan` -/

/-- The pattern "peek one rune; if it is `k` consume it and return `A`, else return `B`". -/
theorem peekRead_loc {t1 t2 : List Char} {r1 r2 : Cursor} (k : Char) (hk : isWhitespace k = false)
    (A B A' B' : Lexeme) (hA : A.sig = A'.sig) (hB : B.sig = B'.sig) (h : Loc t1 t2 r1 r2)
    (ht : TailOK t1 t2)
    (hlen : t1.length ≤ (if r1.peek = k then (A, r1.read.2) else (B, r1)).2.rest.length) :
    (if r1.peek = k then (A, r1.read.2) else (B, r1)).1.sig =
      (if r2.peek = k then (A', r2.read.2) else (B', r2)).1.sig ∧
    Loc t1 t2 (if r1.peek = k then (A, r1.read.2) else (B, r1)).2
      (if r2.peek = k then (A', r2.read.2) else (B', r2)).2 := by
  have e := (h.peek ht).const k hk
  by_cases c : r1.peek = k
  · have c' : r2.peek = k := by rw [← e]; exact c
    simp only [c, c', if_true] at hlen ⊢
    exact ⟨hA, (h.read ht hlen).2⟩
  · have c' : ¬ r2.peek = k := by rw [← e]; exact c
    simp only [c, c', if_false] at hlen ⊢
    exact ⟨hB, h⟩

theorem scanFrom4_loc {t1 t2 : List Char} {r1 r2 : Cursor} (ch0 : Char) (pos1 pos2 : Pos)
    (h : Loc t1 t2 r1 r2) (ht : TailOK t1 t2)
    (hlen : t1.length ≤ (scanFrom4 ch0 pos1 r1).2.rest.length) :
    (scanFrom4 ch0 pos1 r1).1.sig = (scanFrom4 ch0 pos2 r2).1.sig ∧
    Loc t1 t2 (scanFrom4 ch0 pos1 r1).2 (scanFrom4 ch0 pos2 r2).2 := by
  unfold scanFrom4 at hlen ⊢
  by_cases c1 : ch0 = '('
  · simp only [c1, if_true]; exact ⟨rfl, h⟩
  simp only [c1, if_false] at hlen ⊢
  by_cases c2 : ch0 = ')'
  · simp only [c2, if_true]; exact ⟨rfl, h⟩
  simp only [c2, if_false] at hlen ⊢
  by_cases c3 : ch0 = ','
  · simp only [c3, if_true]; exact ⟨rfl, h⟩
  simp only [c3, if_false] at hlen ⊢
  by_cases c4 : ch0 = ';'
  · simp only [c4, if_true]; exact ⟨rfl, h⟩
  simp only [c4, if_false] at hlen ⊢
  by_cases c5 : ch0 = ':'
  · simp only [c5, if_true] at hlen ⊢
    exact peekRead_loc ':' (by decide) _ _ _ _ rfl rfl h ht hlen
  simp only [c5, if_false] at hlen ⊢
  exact ⟨rfl, h⟩

theorem scanFrom3_loc {t1 t2 : List Char} {r1 r2 : Cursor} (ch0 : Char) (pos1 pos2 : Pos)
    (h : Loc t1 t2 r1 r2) (ht : TailOK t1 t2)
    (hlen : t1.length ≤ (scanFrom3 ch0 pos1 r1).2.rest.length) :
    (scanFrom3 ch0 pos1 r1).1.sig = (scanFrom3 ch0 pos2 r2).1.sig ∧
    Loc t1 t2 (scanFrom3 ch0 pos1 r1).2 (scanFrom3 ch0 pos2 r2).2 := by
  unfold scanFrom3 at hlen ⊢
  by_cases c1 : ch0 = '='
  · simp only [c1, if_true] at hlen ⊢
    exact peekRead_loc '~' (by decide) _ _ _ _ rfl rfl h ht hlen
  simp only [c1, if_false] at hlen ⊢
  by_cases c2 : ch0 = '!'
  · simp only [c2, if_true] at hlen ⊢
    have e := (h.peek ht).const '=' (by decide)
    by_cases d : r1.peek = '='
    · have d' : r2.peek = '=' := by rw [← e]; exact d
      simp only [d, d', if_true] at hlen ⊢
      exact ⟨rfl, (h.read ht hlen).2⟩
    · have d' : ¬ r2.peek = '=' := by rw [← e]; exact d
      simp only [d, d', if_false] at hlen ⊢
      exact peekRead_loc '~' (by decide) _ _ _ _ rfl rfl h ht hlen
  simp only [c2, if_false] at hlen ⊢
  by_cases c3 : ch0 = '>'
  · simp only [c3, if_true] at hlen ⊢
    exact peekRead_loc '=' (by decide) _ _ _ _ rfl rfl h ht hlen
  simp only [c3, if_false] at hlen ⊢
  by_cases c4 : ch0 = '<'
  · simp only [c4, if_true] at hlen ⊢
    have e := (h.peek ht).const '=' (by decide)
    by_cases d : r1.peek = '='
    · have d' : r2.peek = '=' := by rw [← e]; exact d
      simp only [d, d', if_true] at hlen ⊢
      exact ⟨rfl, (h.read ht hlen).2⟩
    · have d' : ¬ r2.peek = '=' := by rw [← e]; exact d
      simp only [d, d', if_false] at hlen ⊢
      exact peekRead_loc '>' (by decide) _ _ _ _ rfl rfl h ht hlen
  simp only [c4, if_false] at hlen ⊢
  exact scanFrom4_loc ch0 pos1 pos2 h ht hlen

theorem scanFrom2_loc {t1 t2 : List Char} {r1 r2 : Cursor} (ch0 : Char) (pos1 pos2 : Pos)
    (h : Loc t1 t2 r1 r2) (ht : TailOK t1 t2)
    (hlen : t1.length ≤ (scanFrom2 ch0 pos1 r1).2.rest.length) :
    (scanFrom2 ch0 pos1 r1).1.sig = (scanFrom2 ch0 pos2 r2).1.sig ∧
    Loc t1 t2 (scanFrom2 ch0 pos1 r1).2 (scanFrom2 ch0 pos2 r2).2 := by
  unfold scanFrom2 at hlen ⊢
  by_cases c1 : ch0 = '+'
  · simp only [c1, if_true]; exact ⟨rfl, h⟩
  simp only [c1, if_false] at hlen ⊢
  by_cases c2 : ch0 = '-'
  · simp only [c2, if_true] at hlen ⊢
    have e := (h.peek ht).const '-' (by decide)
    by_cases d : r1.peek = '-'
    · have d' : r2.peek = '-' := by rw [← e]; exact d
      simp only [d, d', if_true] at hlen ⊢
      have hr : t1.length ≤ r1.read.2.rest.length := Nat.le_trans hlen (skipUntilNewline_adv _).length_le
      exact ⟨rfl, skipUntilNewline_loc (h.read ht hr).2 ht hlen⟩
    · have d' : ¬ r2.peek = '-' := by rw [← e]; exact d
      simp only [d, d', if_false] at hlen ⊢
      exact ⟨rfl, h⟩
  simp only [c2, if_false] at hlen ⊢
  by_cases c3 : ch0 = '*'
  · simp only [c3, if_true]; exact ⟨rfl, h⟩
  simp only [c3, if_false] at hlen ⊢
  by_cases c4 : ch0 = '/'
  · simp only [c4, if_true] at hlen ⊢
    have e := (h.peek ht).const '*' (by decide)
    by_cases d : r1.peek = '*'
    · have d' : r2.peek = '*' := by rw [← e]; exact d
      simp only [d, d', if_true] at hlen ⊢
      have hfin : t1.length ≤ (skipUntilEndComment r1.read.2).2.rest.length := by
        split at hlen <;> exact hlen
      have hr : t1.length ≤ r1.read.2.rest.length := Nat.le_trans hfin (skipUntilEndComment_adv _).length_le
      obtain ⟨hb, hl⟩ := skipUntilEndComment_loc (h.read ht hr).2 ht hfin
      rw [← hb]
      split
      · exact ⟨rfl, hl⟩
      · exact ⟨rfl, hl⟩
    · have d' : ¬ r2.peek = '*' := by rw [← e]; exact d
      simp only [d, d', if_false] at hlen ⊢
      exact ⟨rfl, h⟩
  simp only [c4, if_false] at hlen ⊢
  by_cases c5 : ch0 = '%'
  · simp only [c5, if_true]; exact ⟨rfl, h⟩
  simp only [c5, if_false] at hlen ⊢
  by_cases c6 : ch0 = '&'
  · simp only [c6, if_true]; exact ⟨rfl, h⟩
  simp only [c6, if_false] at hlen ⊢
  by_cases c7 : ch0 = '|'
  · simp only [c7, if_true]; exact ⟨rfl, h⟩
  simp only [c7, if_false] at hlen ⊢
  by_cases c8 : ch0 = '^'
  · simp only [c8, if_true]; exact ⟨rfl, h⟩
  simp only [c8, if_false] at hlen ⊢
  exact scanFrom3_loc ch0 pos1 pos2 h ht hlen

theorem scanFrom_loc {t1 t2 : List Char} {r1 r2 q1 q2 : Cursor} (ch0 : Char) (pos1 pos2 : Pos)
    (h : Loc t1 t2 r1 r2) (hq : Loc t1 t2 q1 q2) (ht : TailOK t1 t2)
    (hlen : t1.length ≤ (scanFrom ch0 pos1 r1 q1).2.rest.length) :
    (scanFrom ch0 pos1 r1 q1).1.sig = (scanFrom ch0 pos2 r2 q2).1.sig ∧
    Loc t1 t2 (scanFrom ch0 pos1 r1 q1).2 (scanFrom ch0 pos2 r2 q2).2 := by
  unfold scanFrom at hlen ⊢
  by_cases c1 : isWhitespace ch0 = true
  · simp only [c1, if_true] at hlen ⊢
    exact scanWhitespace_loc ch0 pos1 pos2 hq ht hlen
  have c1f : isWhitespace ch0 = false := by simpa using c1
  simp only [c1f, Bool.false_eq_true, if_false] at hlen ⊢
  by_cases c2 : (isLetter ch0 || ch0 == '_') = true
  · simp only [c2, if_true] at hlen ⊢
    exact scanIdent_loc true h ht hlen
  have c2f : (isLetter ch0 || ch0 == '_') = false := by simpa using c2
  simp only [c2f, Bool.false_eq_true, if_false] at hlen ⊢
  by_cases c3 : isDigit ch0 = true
  · simp only [c3, if_true] at hlen ⊢
    exact scanNumber_loc pos1 pos2 h ht hlen
  have c3f : isDigit ch0 = false := by simpa using c3
  simp only [c3f, Bool.false_eq_true, if_false] at hlen ⊢
  by_cases c4 : ch0 = eofRune
  · simp only [c4, if_true]; exact ⟨rfl, hq⟩
  simp only [c4, if_false] at hlen ⊢
  by_cases c5 : ch0 = '"'
  · simp only [c5, if_true] at hlen ⊢
    exact scanIdent_loc true h ht hlen
  simp only [c5, if_false] at hlen ⊢
  by_cases c6 : ch0 = '\''
  · simp only [c6, if_true] at hlen ⊢
    exact scanString_loc h ht hlen
  simp only [c6, if_false] at hlen ⊢
  by_cases c7 : ch0 = '.'
  · simp only [c7, if_true] at hlen ⊢
    have e := (hq.peek ht).pred isDigit ws_not_digit
    by_cases d : isDigit q1.peek = true
    · have d' : isDigit q2.peek = true := by rw [← e]; exact d
      simp only [d, d', if_true] at hlen ⊢
      exact scanNumber_loc pos1 pos2 h ht hlen
    · have d' : ¬ isDigit q2.peek = true := by rw [← e]; exact d
      simp only [d, d', if_false] at hlen ⊢
      exact ⟨rfl, hq⟩
  simp only [c7, if_false] at hlen ⊢
  by_cases c8 : ch0 = '$'
  · simp only [c8, if_true] at hlen ⊢
    have hfin : t1.length ≤ (scanIdent false q1).2.rest.length := by
      split at hlen <;> exact hlen
    obtain ⟨hsig, hl⟩ := scanIdent_loc false hq ht hfin
    have htok : (scanIdent false q1).1.tok = (scanIdent false q2).1.tok := congrArg Prod.fst hsig
    have hlit : (scanIdent false q1).1.lit = (scanIdent false q2).1.lit := congrArg Prod.snd hsig
    rw [← htok]
    split
    · exact ⟨by simp only [Lexeme.sig]; rw [hlit], hl⟩
    · exact ⟨by simp only [Lexeme.sig]; rw [hlit], hl⟩
  simp only [c8, if_false] at hlen ⊢
  exact scanFrom2_loc ch0 pos1 pos2 hq ht hlen

/-- **Locality of `Scan`.** If two cursors' streams share a prefix, their continuations are both
exhausted or both begin with whitespace, and `Scan` on the first stays inside the shared prefix,
then `Scan` on the second returns the same kind and literal and stops at the same place. -/
theorem scan_loc {t1 t2 : List Char} {r1 r2 : Cursor} (h : Loc t1 t2 r1 r2) (ht : TailOK t1 t2)
    (hlen : t1.length ≤ (scan r1).2.rest.length) :
    (scan r1).1.sig = (scan r2).1.sig ∧ Loc t1 t2 (scan r1).2 (scan r2).2 := by
  have hr : t1.length ≤ r1.read.2.rest.length := by
    rw [r1.read_length]
    by_cases hne : r1.rest = []
    · have := (scan_adv r1).length_le
      rw [hne] at this ⊢
      simp only [List.length_nil] at this ⊢
      omega
    · have := scan_progress r1 hne
      omega
  obtain ⟨hc, hl⟩ := h.read ht hr
  unfold scan at hlen ⊢
  rw [← hc]
  exact scanFrom_loc _ _ _ h hl ht hlen

/-! ### The significant-token stream -/

/-- What `ScanIgnoreWhitespace` delivers from `r` on: every token that is not WS or COMMENT, kind
and literal only, up to and including the first EOF. -/
def sigLoop : Nat → Cursor → List (Token × List Char)
  | 0, _ => []
  | fuel + 1, r =>
    if (scan r).1.tok = .EOF then [(scan r).1.sig]
    else if (scan r).1.tok = .WS ∨ (scan r).1.tok = .COMMENT then sigLoop fuel (scan r).2
    else (scan r).1.sig :: sigLoop fuel (scan r).2

/-- The significant tokens ahead of a cursor (one more step than runes remain always suffices). -/
def sigTokens (r : Cursor) : List (Token × List Char) := sigLoop (r.rest.length + 1) r

theorem TailOK.nil : TailOK [] [] := Or.inl ⟨rfl, rfl⟩

/-- **Position erasure.** The significant tokens depend on the delivered runes only. -/
theorem sigLoop_erase (f1 f2 : Nat) (r1 r2 : Cursor) (h : Loc [] [] r1 r2)
    (hf1 : r1.rest.length < f1) (hf2 : r2.rest.length < f2) : sigLoop f1 r1 = sigLoop f2 r2 := by
  induction f1 generalizing f2 r1 r2 with
  | zero => omega
  | succ f1 ih =>
    cases f2 with
    | zero => omega
    | succ f2 =>
      obtain ⟨hsig, hl⟩ := scan_loc h TailOK.nil (Nat.zero_le _)
      have htok : (scan r1).1.tok = (scan r2).1.tok := congrArg Prod.fst hsig
      simp only [sigLoop]
      rw [← htok, ← hsig]
      by_cases he : (scan r1).1.tok = .EOF
      · simp only [he, if_true]
      · simp only [he, if_false]
        have hne1 : r1.rest ≠ [] := fun hnil => he (scan_at_end r1 hnil)
        have hne2 : r2.rest ≠ [] := fun hnil => he (htok ▸ scan_at_end r2 hnil)
        have p1 := scan_progress r1 hne1
        have p2 := scan_progress r2 hne2
        have := ih f2 _ _ hl (by omega) (by omega)
        rw [this]

theorem Loc.refl (r : Cursor) : Loc [] [] r r := ⟨r.rest.map Prod.fst, by simp, by simp⟩

theorem sigLoop_fuel (f : Nat) (r : Cursor) (hf : r.rest.length < f) : sigLoop f r = sigTokens r :=
  sigLoop_erase f _ r r (Loc.refl r) hf (Nat.lt_succ_self _)

theorem sigTokens_erase (r1 r2 : Cursor) (h : r1.chars = r2.chars) : sigTokens r1 = sigTokens r2 :=
  sigLoop_erase _ _ r1 r2 ⟨r1.chars, by simp [Cursor.chars], by rw [h]; simp [Cursor.chars]⟩
    (Nat.lt_succ_self _) (Nat.lt_succ_self _)

/-- One step of the significant-token stream. -/
theorem sigTokens_step (r : Cursor) :
    sigTokens r =
      if (scan r).1.tok = .EOF then [(scan r).1.sig]
      else if (scan r).1.tok = .WS ∨ (scan r).1.tok = .COMMENT then sigTokens (scan r).2
      else (scan r).1.sig :: sigTokens (scan r).2 := by
  unfold sigTokens
  simp only [sigLoop]
  by_cases he : (scan r).1.tok = .EOF
  · simp only [he, if_true]
  · simp only [he, if_false]
    have hne : r.rest ≠ [] := fun hnil => he (scan_at_end r hnil)
    have p := scan_progress r hne
    rw [sigLoop_fuel _ _ (by omega)]
    rfl

/-- `n` successive `Scan`s. -/
def scanN : Nat → Cursor → Cursor
  | 0, r => r
  | n + 1, r => scanN n (scan r).2

theorem scanN_length_le (n : Nat) (r : Cursor) : (scanN n r).rest.length ≤ r.rest.length := by
  induction n generalizing r with
  | zero => exact Nat.le_refl _
  | succ n ih => exact Nat.le_trans (ih _) (scan_adv r).length_le

/-- **Prefix locality.** If two streams share a prefix up to a gap that starts with whitespace in
both, and the gap of the first stream begins at a token boundary, then the significant tokens
coincide as soon as they coincide from the gap on. -/
theorem sigTokens_prefix {t1 t2 : List Char} (ht : TailOK t1 t2) (n : Nat) (r1 r2 : Cursor)
    (h : Loc t1 t2 r1 r2) (hb : (scanN n r1).rest.length = t1.length)
    (hcont : ∀ g1 g2 : Cursor, g1.chars = t1 → g2.chars = t2 → sigTokens g1 = sigTokens g2) :
    sigTokens r1 = sigTokens r2 := by
  induction n generalizing r1 r2 with
  | zero =>
    obtain ⟨a, h1, h2⟩ := h
    have hl : r1.rest.length = t1.length := hb
    have ha : a = [] := by
      have := congrArg List.length h1
      simp only [List.length_map, List.length_append] at this
      exact List.length_eq_zero_iff.mp (by omega)
    subst ha
    exact hcont r1 r2 (by simpa [Cursor.chars] using h1) (by simpa [Cursor.chars] using h2)
  | succ n ih =>
    have hlen : t1.length ≤ (scan r1).2.rest.length := by
      rw [← hb]; exact scanN_length_le n _
    obtain ⟨hsig, hl⟩ := scan_loc h ht hlen
    have htok : (scan r1).1.tok = (scan r2).1.tok := congrArg Prod.fst hsig
    rw [sigTokens_step r1, sigTokens_step r2, ← htok, ← hsig, ih _ _ hl hb]

/-! ### Scanning a whitespace run and a comment -/

/-- The loops that `break` on `eof` without `unread` swallow one NUL. -/
def dropEof : List Char → List Char
  | [] => []
  | c :: x => if c = eofRune then x else c :: x

theorem Cursor.chars_cons {r : Cursor} {c : Char} {x : List Char} (h : r.chars = c :: x) :
    r.read.1.1 = c ∧ r.read.2.chars = x ∧ r.peek = c := by
  unfold Cursor.chars at h
  cases hr : r.rest with
  | nil => rw [hr] at h; simp at h
  | cons y rest =>
    rw [hr] at h
    simp only [List.map_cons, List.cons.injEq] at h
    simp [Cursor.read, Cursor.peek, Cursor.chars, hr, h.1, h.2]

theorem Cursor.chars_nil {r : Cursor} (h : r.chars = []) : r.peek = eofRune ∧ r.read.2.chars = [] := by
  unfold Cursor.chars at h
  have hr : r.rest = [] := by simpa using h
  simp [Cursor.peek, Cursor.read, Cursor.chars, hr]

theorem Cursor.chars_eatEof (r : Cursor) : r.eatEof.chars = dropEof r.chars := by
  unfold Cursor.eatEof
  cases hc : r.chars with
  | nil =>
    obtain ⟨h1, h2⟩ := Cursor.chars_nil hc
    simp [h1, h2, dropEof]
  | cons c x =>
    obtain ⟨_, h2, h3⟩ := Cursor.chars_cons hc
    rw [h3]
    by_cases he : c = eofRune
    · simp [he, dropEof, ← h2]
    · simp [he, dropEof, hc]

/-- A non-empty run of whitespace runes (delivered form: space, tab, line feed). -/
def WsRun (w : List Char) : Prop := w ≠ [] ∧ ∀ c ∈ w, isWhitespace c = true

/-- The text does not continue with whitespace. -/
def NotWsHead (post : List Char) : Prop := ∀ c x, post = c :: x → isWhitespace c = false

theorem readWhile_chars (p : Char → Bool) (r : Cursor) (s k : List Char) (h : r.chars = s ++ k)
    (hs : ∀ c ∈ s, p c = true ∧ c ≠ eofRune)
    (hk : ∀ x t, k = x :: t → (p x && x != eofRune) = false) :
    (r.readWhile p).1 = s ∧ (r.readWhile p).2.chars = k :=
  spanStamped_exact p s k r.rest r.prev r.off h hs hk

theorem scan_wsRun (r : Cursor) (w post : List Char) (h : r.chars = w ++ post) (hw : WsRun w)
    (hp : NotWsHead post) : (scan r).1.tok = .WS ∧ (scan r).2.chars = dropEof post := by
  obtain ⟨hne, hall⟩ := hw
  cases w with
  | nil => exact absurd rfl hne
  | cons c0 w' =>
    obtain ⟨h1, h2, _⟩ := Cursor.chars_cons (x := w' ++ post) (by simpa using h)
    have hc0 : isWhitespace c0 = true := hall c0 (by simp)
    have hscan : scan r = scanWhitespace c0 r.read.1.2 r.read.2 := by
      unfold scan scanFrom
      rw [h1]
      simp only [hc0, if_true]
    obtain ⟨_, hk⟩ := readWhile_chars isWhitespace r.read.2 w' post h2
      (fun c hc => ⟨hall c (by simp [hc]), isWhitespace_ne_eof (hall c (by simp [hc]))⟩)
      (fun x t hxt => by rw [hp x t hxt]; rfl)
    rw [hscan]
    unfold scanWhitespace
    dsimp only
    exact ⟨rfl, by rw [Cursor.chars_eatEof, hk]⟩

/-- Body of a `/* … */` comment that the scanner reads to its own closing `*/`: no NUL and no
earlier `*/` (`star` = the previous rune was a `*`). -/
def commentBodyOK : Bool → List Char → Bool
  | _, [] => true
  | star, c :: t => c != eofRune && !(star && c == '/') && commentBodyOK (decide (c = '*')) t

theorem skipCommentLoop_body (fin : Pos) (body k : List Char) (l : List (Char × Pos)) (star : Bool)
    (pv : Char × Pos) (n : Nat) (h : l.map Prod.fst = body ++ '*' :: '/' :: k)
    (hb : commentBodyOK star body = true) :
    (skipCommentLoop fin l star pv n).1 = true ∧ (skipCommentLoop fin l star pv n).2.1.map Prod.fst = k := by
  induction body generalizing l star pv n with
  | nil =>
    cases l with
    | nil => simp at h
    | cons y1 l1 =>
      cases l1 with
      | nil => simp at h
      | cons y2 l' =>
        obtain ⟨c1, q1⟩ := y1
        obtain ⟨c2, q2⟩ := y2
        simp only [List.nil_append, List.map_cons, List.cons.injEq] at h
        obtain ⟨e1', e2', h'⟩ := h
        subst e1' e2'
        have e1 : ('*' : Char) ≠ eofRune := by decide
        have e2 : ('/' : Char) ≠ eofRune := by decide
        have e3 : ('*' : Char) ≠ '/' := by decide
        simp [skipCommentLoop, e1, e2, e3, h']
  | cons c body ih =>
    cases l with
    | nil => simp at h
    | cons y1 l' =>
      obtain ⟨c1, q1⟩ := y1
      simp only [List.cons_append, List.map_cons, List.cons.injEq] at h
      obtain ⟨e1', h'⟩ := h
      subst e1'
      simp only [commentBodyOK, Bool.and_eq_true, bne_iff_ne, ne_eq, Bool.not_eq_true',
        Bool.and_eq_false_iff, beq_eq_false_iff_ne] at hb
      obtain ⟨⟨hne, hst⟩, hb⟩ := hb
      have hcond : ¬ (star = true ∧ c1 = '/') := by
        rintro ⟨hs, hc⟩
        rcases hst with hst | hst
        · rw [hs] at hst; cases hst
        · exact hst hc
      simp only [skipCommentLoop, hne, hcond, if_false]
      exact ih l' _ _ _ h' hb

/-- `Scan` at a terminated block comment. -/
theorem scan_blockComment (r : Cursor) (body k : List Char)
    (h : r.chars = '/' :: '*' :: (body ++ '*' :: '/' :: k)) (hb : commentBodyOK false body = true) :
    (scan r).1.tok = .COMMENT ∧ (scan r).2.chars = k := by
  obtain ⟨h1, h2, _⟩ := Cursor.chars_cons h
  obtain ⟨_, h3, h4⟩ := Cursor.chars_cons h2
  have hscan : scan r = scanFrom2 '/' r.read.1.2 r.read.2 := by
    unfold scan scanFrom
    rw [h1]
    have a1 : isWhitespace '/' = false := by decide
    have a2 : isLetter '/' = false := by decide
    have a3 : isDigit '/' = false := by decide
    have a4 : ('/' : Char) ≠ eofRune := by decide
    simp [a1, a2, a3, a4]
  rw [hscan]
  unfold scanFrom2
  have b1 : ¬ ('/' : Char) = '+' := by decide
  have b2 : ¬ ('/' : Char) = '-' := by decide
  have b3 : ¬ ('/' : Char) = '*' := by decide
  simp only [b1, b2, b3, if_false, if_true, h4]
  have := skipCommentLoop_body r.read.2.read.2.fin body k r.read.2.read.2.rest false
    r.read.2.read.2.prev r.read.2.read.2.off h3 hb
  have hres : (skipUntilEndComment r.read.2.read.2).1 = true ∧
      (skipUntilEndComment r.read.2.read.2).2.chars = k := this
  simp only [hres.1, if_true]
  exact ⟨by trivial, hres.2⟩

/-- `Scan` at a `-- …` comment that ends in a line feed. -/
theorem scan_lineComment (r : Cursor) (body k : List Char)
    (h : r.chars = '-' :: '-' :: (body ++ '\n' :: k))
    (hb : ∀ c ∈ body, c ≠ '\n' ∧ c ≠ eofRune) :
    (scan r).1.tok = .COMMENT ∧ (scan r).2.chars = k := by
  obtain ⟨h1, h2, _⟩ := Cursor.chars_cons h
  obtain ⟨_, h3, h4⟩ := Cursor.chars_cons h2
  have hscan : scan r = scanFrom2 '-' r.read.1.2 r.read.2 := by
    unfold scan scanFrom
    rw [h1]
    have a1 : isWhitespace '-' = false := by decide
    have a2 : isLetter '-' = false := by decide
    have a3 : isDigit '-' = false := by decide
    have a4 : ('-' : Char) ≠ eofRune := by decide
    simp [a1, a2, a3, a4]
  rw [hscan]
  unfold scanFrom2
  have b1 : ¬ ('-' : Char) = '+' := by decide
  simp only [b1, if_false, if_true, h4]
  refine ⟨by trivial, ?_⟩
  unfold skipUntilNewline
  obtain ⟨_, hk⟩ := readWhile_chars (fun c => c != '\n') r.read.2.read.2 body ('\n' :: k) h3
    (fun c hc => ⟨by simpa using (hb c hc).1, (hb c hc).2⟩)
    (fun x t hxt => by simp at hxt; simp [← hxt.1])
  exact (Cursor.chars_cons hk).2.1

/-! ### Helpers for the statements of Props/C16 -/

theorem tailOK_of_wsRuns {w1 w2 post : List Char} (hw1 : WsRun w1) (hw2 : WsRun w2) :
    TailOK (w1 ++ post) (w2 ++ post) := by
  obtain ⟨hn1, ha1⟩ := hw1
  obtain ⟨hn2, ha2⟩ := hw2
  cases w1 with
  | nil => exact absurd rfl hn1
  | cons c1 x1 =>
    cases w2 with
    | nil => exact absurd rfl hn2
    | cons c2 x2 =>
      exact Or.inr ⟨c1, x1 ++ post, c2, x2 ++ post, rfl, rfl, ha1 c1 (by simp), ha2 c2 (by simp)⟩

/-- From a cursor standing at a whitespace run the significant tokens are those of what follows
the run: the run itself (and nothing else) is skipped. -/
theorem sigTokens_wsRun (g1 g2 : Cursor) (w1 w2 post : List Char) (h1 : g1.chars = w1 ++ post)
    (h2 : g2.chars = w2 ++ post) (hw1 : WsRun w1) (hw2 : WsRun w2) (hpost : NotWsHead post) :
    sigTokens g1 = sigTokens g2 := by
  obtain ⟨t1, c1⟩ := scan_wsRun g1 w1 post h1 hw1 hpost
  obtain ⟨t2, c2⟩ := scan_wsRun g2 w2 post h2 hw2 hpost
  rw [sigTokens_step g1, sigTokens_step g2, t1, t2]
  simp only [reduceCtorEq, if_false, true_or, if_true]
  exact sigTokens_erase _ _ (by rw [c1, c2])


/-- A comment the scanner reads as exactly one COMMENT token: `/* body */` whose body contains
no NUL and no earlier `*/`, or `-- body` + line feed whose body contains no line feed and no NUL
(delivered form: a CR in the text is a line feed here). -/
inductive IsComment : List Char → Prop
  | block (body : List Char) (h : commentBodyOK false body = true) :
      IsComment ('/' :: '*' :: (body ++ ['*', '/']))
  | line (body : List Char) (h : ∀ c ∈ body, c ≠ '\n' ∧ c ≠ eofRune) :
      IsComment ('-' :: '-' :: (body ++ ['\n']))

theorem scan_comment (r : Cursor) (cm k : List Char) (hc : IsComment cm) (h : r.chars = cm ++ k) :
    (scan r).1.tok = .COMMENT ∧ (scan r).2.chars = k := by
  cases hc with
  | block body hb => exact scan_blockComment r body k (by simpa using h) hb
  | line body hb => exact scan_lineComment r body k (by simpa using h) hb

theorem notWsHead_comment (cm k : List Char) (hc : IsComment cm) : NotWsHead (cm ++ k) := by
  intro c x hx
  cases hc with
  | block body hb => simp at hx; rw [← hx.1]; decide
  | line body hb => simp at hx; rw [← hx.1]; decide

theorem dropEof_comment (cm k : List Char) (hc : IsComment cm) : dropEof (cm ++ k) = cm ++ k := by
  cases hc with
  | block body hb =>
    have : ¬ ('/' : Char) = eofRune := by decide
    simp [dropEof, this]
  | line body hb =>
    have : ¬ ('-' : Char) = eofRune := by decide
    simp [dropEof, this]


theorem chars_ofRunes (text : List Char) : (Cursor.ofRunes text).chars = foldCR text ++ [eofRune] := by
  simp [Cursor.ofRunes, Cursor.chars, stampRunes_map_fst]

theorem notWsHead_append_eof (post : List Char) (h : NotWsHead post) : NotWsHead (post ++ [eofRune]) := by
  intro c x hx
  cases post with
  | nil => simp at hx; rw [← hx.1]; decide
  | cons d post' => simp at hx; rw [← hx.1]; exact h d post' rfl


/-- How raw whitespace is delivered: folding commutes with concatenation unless a CR LF pair is
split, and a raw run of space, tab, LF, CR is delivered as a run of space, tab, LF. -/
theorem foldCR_append (x y : List Char) (h : ¬ (x.getLast? = some '\r' ∧ y.head? = some '\n')) :
    foldCR (x ++ y) = foldCR x ++ foldCR y := by
  induction x using foldCR.induct with
  | case1 => rfl
  | case2 t ih =>
    simp only [List.cons_append, foldCR, List.cons.injEq, true_and]
    apply ih
    intro hh; apply h
    cases t <;> simp_all [List.getLast?_cons_cons]
  | case3 t hne ih =>
    cases t with
    | nil =>
      cases y with
      | nil => rfl
      | cons d y' =>
        have hd : d ≠ '\n' := fun e => h ⟨rfl, by simp [e]⟩
        simp [foldCR, hd]
    | cons d t' =>
      have hd : d ≠ '\n' := fun e => hne t' (by rw [e])
      simp only [List.cons_append, foldCR_cr_of_ne d _ hd, List.cons.injEq, true_and]
      rw [← List.cons_append]
      apply ih
      intro hh; apply h
      simpa [List.getLast?_cons_cons] using hh
  | case4 c t _ hc2 ih =>
    have hc : c ≠ '\r' := fun e => hc2 e
    rw [List.cons_append, foldCR_cons_of_ne c _ hc, foldCR_cons_of_ne c _ hc, List.cons_append]
    congr 1
    apply ih
    intro hh; apply h
    cases t <;> simp_all [List.getLast?_cons_cons]

/-- Raw whitespace: space, tab, line feed, carriage return. -/
def isRawWs (c : Char) : Bool := isWhitespace c || c == '\r'

theorem foldCR_rawWs (w : List Char) (hne : w ≠ []) (h : ∀ c ∈ w, isRawWs c = true) : WsRun (foldCR w) := by
  induction w using foldCR.induct with
  | case1 => exact absurd rfl hne
  | case2 t ih =>
    refine ⟨by simp [foldCR], ?_⟩
    intro c hc
    simp only [foldCR, List.mem_cons] at hc
    rcases hc with rfl | hc
    · decide
    · by_cases ht : t = []
      · subst ht; simp [foldCR] at hc
      · exact (ih ht (fun x hx => h x (by simp [hx]))).2 c hc
  | case3 t hne' ih =>
    have e : foldCR ('\r' :: t) = '\n' :: foldCR t := by
      cases t with
      | nil => rfl
      | cons d t' =>
        have hd : d ≠ '\n' := fun e => hne' t' (by rw [e])
        exact foldCR_cr_of_ne d t' hd
    rw [e]
    refine ⟨by simp, ?_⟩
    intro c hc
    simp only [List.mem_cons] at hc
    rcases hc with rfl | hc
    · decide
    · by_cases ht : t = []
      · subst ht; simp [foldCR] at hc
      · exact (ih ht (fun x hx => h x (by simp [hx]))).2 c hc
  | case4 c t _ hc2 ih =>
    have hc : c ≠ '\r' := fun e => hc2 e
    rw [foldCR_cons_of_ne c _ hc]
    refine ⟨by simp, ?_⟩
    intro x hx
    simp only [List.mem_cons] at hx
    rcases hx with rfl | hx
    · have := h x (by simp)
      simpa [isRawWs, hc] using this
    · by_cases ht : t = []
      · subst ht; simp [foldCR] at hx
      · exact (ih ht (fun y hy => h y (by simp [hy]))).2 x hx

theorem notWsHead_foldCR (post : List Char) (h : ∀ c x, post = c :: x → isRawWs c = false) :
    NotWsHead (foldCR post) := by
  intro c x hx
  cases post with
  | nil => simp [foldCR] at hx
  | cons d post' =>
    have hd := h d post' rfl
    simp only [isRawWs, Bool.or_eq_false_iff, beq_eq_false_iff_ne] at hd
    rw [foldCR_cons_of_ne d _ hd.2] at hx
    simp at hx
    rw [← hx.1]; exact hd.1


end InfluxQL

import InfluxQL.Gen.Types
import InfluxQL.Model.Ast
import InfluxQL.Model.Print
/-
`SelectStatement.RewriteFields` (ast.go) and everything it reaches: `FieldDimensions`,
`EvalType` / `TypeValuerEval`, `Field.Name`, `FieldExprByName`, `HasFieldWildcard`,
`HasDimensionWildcard`, `sort.Sort(VarRefs)`, `stringSetSlice`.

Conventions of this file
* The schema is data.  `FieldMapper.FieldDimensions(m)` returns two Go maps; here they are an
  association list `name → type` and a list of tag keys **in arbitrary order** (the order a
  `range` over the Go map happens to produce).  Nothing below may depend on that order; that it
  does not is `rewriteFields_perm_invariant` (Props/C12.lean).
* Go maps built inside the code (`fields`, `dimensions` of `FieldDimensions`) are association
  lists in insertion order (`TypeMap`, `StrSet`); iteration over them is iteration over the list.
* `regexp.MatchString` is an oracle: `re src name` says whether the regex with source `src`
  matches `name`.
* `CallTypeMapper` is optional in Go (a type assertion); `callType = none` is a mapper that does
  not implement it.
* errors are the error text.
-/
namespace InfluxQL
open Gen

/-! ## Orders -/

/-- `DataType.LessThan` (generated from the source, on the constant values). -/
def DataType.lessThan (a b : DataType) : Bool := Gen.lessThan a.toNat b.toNat

/-- Go's `<` on strings: byte-wise on UTF-8, which for valid text is code-point-wise. -/
def strLt : Str → Str → Bool
  | _, [] => false
  | [], _ :: _ => true
  | a :: as, b :: bs => decide (a.toNat < b.toNat) || (a == b && strLt as bs)

/-- A `VarRef` value as it is put into the `VarRefs` slice. -/
structure ColRef where
  name : Str
  type : DataType
  deriving DecidableEq, Repr, Inhabited

/-- `VarRefs.Less` (generated). -/
def ColRef.less (a b : ColRef) : Bool := Gen.varRefsLess strLt a.name a.type.toNat b.name b.type.toNat

/-- Insertion into a sorted list (structural, so that the kernel can evaluate examples). -/
def insertSorted {α} (le : α → α → Bool) (a : α) : List α → List α
  | [] => [a]
  | b :: l => if le a b then a :: b :: l else b :: insertSorted le a l

/-- Insertion sort.  The library's `sort.Sort` / `sort.Strings` are other algorithms; the orders
used here are total and any two elements that are not strictly ordered are equal, so every
correct sorting algorithm returns the same list (`isort_eq_of_perm`, Lemmas/Fields.lean). -/
def isort {α} (le : α → α → Bool) : List α → List α
  | [] => []
  | a :: l => insertSorted le a (isort le l)

/-- `sort.Sort(VarRefs(l))`. -/
def sortRefs (l : List ColRef) : List ColRef := isort (fun a b => !b.less a) l

/-- `sort.Strings`. -/
def sortStrs (l : List Str) : List Str := isort (fun a b => !strLt b a) l

/-! ## Go maps -/

/-- `map[string]DataType` in insertion order. -/
abbrev TypeMap := List (Str × DataType)

/-- `m[k]` (zero value `Unknown` when absent). -/
def TypeMap.get : TypeMap → Str → DataType
  | [], _ => .Unknown
  | (k', t) :: rest, k => if k' = k then t else TypeMap.get rest k

/-- `m[k] = t`. -/
def TypeMap.set : TypeMap → Str → DataType → TypeMap
  | [], k, t => [(k, t)]
  | (k', t') :: rest, k, t => if k' = k then (k, t) :: rest else (k', t') :: TypeMap.set rest k t

/-- `if m[k].LessThan(t) { m[k] = t }`. -/
def TypeMap.merge (m : TypeMap) (k : Str) (t : DataType) : TypeMap :=
  if (m.get k).lessThan t then m.set k t else m

/-- `map[string]struct{}` in insertion order. -/
abbrev StrSet := List Str

/-- `s[k] = struct{}{}`. -/
def StrSet.add (s : StrSet) (k : Str) : StrSet := if k ∈ s then s else s ++ [k]

/-- `delete(s, k)`. -/
def StrSet.del (s : StrSet) (k : Str) : StrSet := s.filter (fun x => x ≠ k)

/-! ## The mapper -/

/-- `TypeMapper` (with the optional `CallTypeMapper`). -/
structure TypeMapper where
  mapType : Measurement → Str → DataType
  callType : Option (Str → List DataType → Except Str DataType)

/-- `FieldMapper`: a `TypeMapper` with `FieldDimensions(m)`, which returns two Go maps: here the
field columns and the tag keys of the measurement as lists in arbitrary order. -/
structure FieldMapper extends TypeMapper where
  fieldDimensions : Measurement → Except Str (List (Str × DataType) × List Str)

/-! ## Names -/

/-- `binaryExprNameVisitor`: names of references and calls in `Walk` order; does not descend
into calls. -/
def walkNamesB : Expr → List Str
  | .binary _ l r => walkNamesB l ++ walkNamesB r
  | .paren e => walkNamesB e
  | .varRef v _ => [v]
  | .call n _ => [n]
  | _ => []

/-- `Field{Expr: e}.Name()` with an empty alias. -/
def exprName : Expr → Str
  | .call n _ => n
  | .binary op l r => joinWith ['_'] (walkNamesB (.binary op l r))
  | .paren e => exprName e
  | .varRef v _ => v
  | _ => []

/-- `Field.Name()`. -/
def Field.rfName (f : Field) : Str := if f.alias ≠ [] then f.alias else exprName f.expr

/-- The loop over `call.Args[1:len-1]` in `FieldExprByName`. -/
def findRefArg (name : Str) : List Expr → Option Expr
  | [] => none
  | .varRef v t :: rest => if v = name then some (.varRef v t) else findRefArg name rest
  | _ :: rest => findRefArg name rest

/-- `SelectStatement.FieldExprByName` (the expression only). -/
def fieldExprByName (name : Str) : List Field → Option Expr
  | [] => none
  | f :: rest =>
    if f.rfName = name then some f.expr
    else
      let viaArgs : Option Expr :=
        match f.expr with
        | .call cn args =>
          if (cn = ['t','o','p'] ∨ cn = ['b','o','t','t','o','m']) ∧ args.length > 2 then
            findRefArg name ((args.drop 1).take (args.length - 2))
          else none
        | _ => none
      match viaArgs with
      | some e => some e
      | none => fieldExprByName name rest

/-! ## `EvalType` -/

/-- What `DataType.Zero()` puts into the map of `evalBinaryExprType`, by dynamic type. -/
inductive ZeroKind where
  | float | int | uint | str | bool | time | dur | nil
  deriving DecidableEq, Repr

/-- `DataType.Zero()`. -/
def DataType.zeroKind : DataType → ZeroKind
  | .Float => .float | .Integer => .int | .Unsigned => .uint | .String => .str | .Tag => .str
  | .Boolean => .bool | .Time => .time | .Duration => .dur
  | .Unknown => .nil | .AnyField => .nil

def Gen.Token.isCompare (op : Token) : Bool :=
  op == .EQ || op == .NEQ || op == .LT || op == .LTE || op == .GT || op == .GTE
def Gen.Token.isArith (op : Token) : Bool :=
  op == .ADD || op == .SUB || op == .MUL || op == .DIV || op == .MOD
def Gen.Token.isBitwise (op : Token) : Bool :=
  op == .BITWISE_AND || op == .BITWISE_OR || op == .BITWISE_XOR

/-- `InspectDataType(Eval(lhs op rhs))` on the zero values of the two types
(`ValuerEval.evalBinaryExpr`, `IntegerFloatDivision = false`): the dynamic type of the result,
`Unknown` for `nil`. -/
def zeroEvalType (op : Token) (lt rt : DataType) : DataType :=
  -- nil is coerced to false next to a boolean
  let lk := if lt.zeroKind = .nil ∧ rt.zeroKind = .bool then ZeroKind.bool else lt.zeroKind
  let rk := if rt.zeroKind = .nil ∧ lt.zeroKind = .bool then ZeroKind.bool else rt.zeroKind
  let fallOut : DataType := if op.isCompare then .Boolean else .Unknown
  let numeric (k : ZeroKind) : Bool := k = .float ∨ k = .int ∨ k = .uint
  match lk with
  | .bool =>
    if op == .AND || op == .OR || op.isBitwise || op == .EQ || op == .NEQ then .Boolean else fallOut
  | .float =>
    if op.isCompare then .Boolean
    else if op.isArith then (if numeric rk then .Float else .Unknown)
    else fallOut
  | .int =>
    match rk with
    | .float => if op.isCompare then .Boolean else if op.isArith then .Float else fallOut
    | .int => if op.isCompare then .Boolean else if op.isArith || op.isBitwise then .Integer else fallOut
    | .uint => if op.isCompare then .Boolean else if op.isArith || op.isBitwise then .Unsigned else fallOut
    | _ => fallOut
  | .uint =>
    match rk with
    | .float => if op.isCompare then .Boolean else if op.isArith then .Float else fallOut
    | .int => if op.isCompare then .Boolean else if op.isArith || op.isBitwise then .Unsigned else fallOut
    | .uint => if op.isCompare then .Boolean else if op.isArith || op.isBitwise then .Unsigned else fallOut
    | _ => fallOut
  | .str =>
    if op == .EQ || op == .NEQ || op == .EQREGEX || op == .NEQREGEX then .Boolean else fallOut
  | _ => fallOut

/-- `isLiteral`: the types with a `literal()` method. -/
def Expr.isLiteral : Expr → Bool
  | .boolean _ | .boundParam _ | .duration _ | .integer _ | .unsigned _ | .nil | .number _
  | .regex _ | .list _ | .string _ | .time _ => true
  | _ => false

mutual
  /-- `TypeValuerEval.EvalType` with the sources abstracted to `ρ`: `ρ name` is what
  `evalVarRefExprType` computes for an untyped reference `name` (`none`: a type error).
  `none` stands for `(Unknown, err)`. -/
  def evalTypeE (m : TypeMapper) (ρ : Str → Option DataType) : Expr → Option DataType
    | .varRef v t => if t ≠ .Unknown ∧ t ≠ .AnyField then some t else ρ v
    | .call name args =>
      match m.callType with
      | none => some .Unknown
      | some ct =>
        match evalTypeArgs m ρ args with
        | none => none
        | some ts =>
          match ct name ts with
          | .ok t => some t
          | .error _ => none
    | .binary op l r =>
      match evalTypeE m ρ l, evalTypeE m ρ r with
      | some lt, some rt =>
        let castErr : Bool :=
          if lt = .Unsigned ∧ rt = .Integer then l.isLiteral || !r.isLiteral
          else if lt = .Integer ∧ rt = .Unsigned then r.isLiteral || !l.isLiteral
          else false
        if castErr then none
        else if lt = .Unknown then some rt
        else if rt = .Unknown then some lt
        else
          let t := zeroEvalType op lt rt
          if t = .Unknown then none else some t
      | _, _ => none
    | .paren e => evalTypeE m ρ e
    | .number _ => some .Float
    | .integer _ => some .Integer
    | .unsigned _ => some .Unsigned
    | .string _ => some .String
    | .boolean _ => some .Boolean
    | _ => some .Unknown
  def evalTypeArgs (m : TypeMapper) (ρ : Str → Option DataType) : List Expr → Option (List DataType)
    | [] => some []
    | a :: rest =>
      match evalTypeE m ρ a with
      | none => none
      | some t =>
        match evalTypeArgs m ρ rest with
        | none => none
        | some ts => some (t :: ts)
end

/-- The loop `for _, d := range src.Statement.Dimensions` of `evalVarRefExprType`. -/
def dimsHaveRef (name : Str) : List Expr → Bool
  | [] => false
  | .varRef v _ :: rest => v = name || dimsHaveRef name rest
  | _ :: rest => dimsHaveRef name rest

/-- `if typ.LessThan(t) { typ = t }`. -/
def raiseTo (typ t : DataType) : DataType := if typ.lessThan t then t else typ

mutual
  /-- The loop over the sources in `evalVarRefExprType` for an untyped reference `name`, started
  with the type found so far. -/
  def resolveSources (m : TypeMapper) : List Source → Str → DataType → Option DataType
    | [], _, typ => some typ
    | src :: rest, name, typ =>
      match resolveSource m src name typ with
      | none => none
      | some typ' => resolveSources m rest name typ'
  def resolveSource (m : TypeMapper) : Source → Str → DataType → Option DataType
    | .measurement ms, name, typ => some (raiseTo typ (m.mapType ms name))
    | .subquery st, name, typ => resolveStmt m st name typ
  def resolveStmt (m : TypeMapper) : SelectStmt → Str → DataType → Option DataType
    | .mk fields _ dims sources _ _ _ _ _ _ _ _ _ _ _ _ _ _ _, name, typ =>
      let typ1 : Option DataType :=
        match fieldExprByName name fields with
        | some e =>
          match evalTypeE m (fun n => resolveSources m sources n .Unknown) e with
          | none => none
          | some t => some (raiseTo typ t)
        | none => some typ
      match typ1 with
      | none => none
      | some t1 => if t1 = .Unknown then (if dimsHaveRef name dims then some .Tag else some .Unknown) else some t1
end

/-- `evalVarRefExprType` for an untyped reference against `sources`. -/
def resolveRef (m : TypeMapper) (sources : List Source) (name : Str) : Option DataType :=
  resolveSources m sources name .Unknown

/-- The package-level `EvalType(expr, sources, m)`: errors are dropped, the type is then `Unknown`. -/
def evalType (m : TypeMapper) (sources : List Source) (e : Expr) : DataType :=
  (evalTypeE m (resolveRef m sources) e).getD .Unknown

/-! ## `FieldDimensions` -/

/-- `for k, typ := range f { if fields[k].LessThan(typ) { fields[k] = typ } }`. -/
def mergeCols (fields : TypeMap) : List (Str × DataType) → TypeMap
  | [] => fields
  | (k, t) :: rest => mergeCols (fields.merge k t) rest

def addKeys (dims : StrSet) : List Str → StrSet
  | [] => dims
  | k :: rest => addKeys (dims.add k) rest

/-- The columns a subquery exposes: `(f.Name(), EvalType(f.Expr, stmt.Sources, m))`. -/
def subqueryCols (m : TypeMapper) (sources : List Source) : List Field → List (Str × DataType)
  | [] => []
  | f :: rest => (f.rfName, evalType m sources f.expr) :: subqueryCols m sources rest

/-- The `VarRef` dimensions of a statement. -/
def dimRefs : List Expr → List Str
  | [] => []
  | .varRef v _ :: rest => v :: dimRefs rest
  | _ :: rest => dimRefs rest

/-- The package-level `FieldDimensions(sources, m)`, with the two maps threaded through. -/
def fieldDimensionsFrom (m : FieldMapper) : List Source → TypeMap → StrSet → Except Str (TypeMap × StrSet)
  | [], fields, dims => .ok (fields, dims)
  | .measurement ms :: rest, fields, dims =>
    match m.fieldDimensions ms with
    | .error e => .error e
    | .ok (f, d) => fieldDimensionsFrom m rest (mergeCols fields f) (addKeys dims d)
  | .subquery st :: rest, fields, dims =>
    fieldDimensionsFrom m rest (mergeCols fields (subqueryCols m.toTypeMapper st.sources st.fields))
      (addKeys dims (dimRefs st.dimensions))

def fieldDimensions (m : FieldMapper) (sources : List Source) : Except Str (TypeMap × StrSet) :=
  fieldDimensionsFrom m sources [] []

/-! ## Wildcard detection, reference typing -/

mutual
  /-- Does `Walk` meet a `*Wildcard` or `*RegexLiteral`? -/
  def Expr.hasWild : Expr → Bool
    | .wildcard _ => true
    | .regex _ => true
    | .binary _ l r => l.hasWild || r.hasWild
    | .paren e => e.hasWild
    | .call _ args => argsHaveWild args
    | _ => false
  def argsHaveWild : List Expr → Bool
    | [] => false
    | a :: rest => a.hasWild || argsHaveWild rest
end

mutual
  /-- Does `Walk` meet a `*Wildcard`? -/
  def Expr.hasStar : Expr → Bool
    | .wildcard _ => true
    | .binary _ l r => l.hasStar || r.hasStar
    | .paren e => e.hasStar
    | .call _ args => argsHaveStar args
    | _ => false
  def argsHaveStar : List Expr → Bool
    | [] => false
    | a :: rest => a.hasStar || argsHaveStar rest
end

mutual
  /-- Does `Walk` meet a `*RegexLiteral`? -/
  def Expr.hasRegex : Expr → Bool
    | .regex _ => true
    | .binary _ l r => l.hasRegex || r.hasRegex
    | .paren e => e.hasRegex
    | .call _ args => argsHaveRegex args
    | _ => false
  def argsHaveRegex : List Expr → Bool
    | [] => false
    | a :: rest => a.hasRegex || argsHaveRegex rest
end

/-- `HasFieldWildcard`. -/
def hasFieldWildcard (fields : List Field) : Bool := fields.any (fun f => f.expr.hasWild)

def Expr.isWildOrRegex : Expr → Bool
  | .wildcard _ => true
  | .regex _ => true
  | _ => false

/-- `HasDimensionWildcard`. -/
def hasDimensionWildcard (dims : List Expr) : Bool := dims.any Expr.isWildOrRegex

/-- The closure `rewrite` of `RewriteFields` on one reference: `ρ` is `EvalType(ref, other.Sources, m)`
for untyped references. -/
def typeRef (ρ : Str → Option DataType) (v : Str) (t : DataType) : Expr :=
  if t ≠ .Unknown ∧ t ≠ .AnyField then .varRef v t
  else
    let typ := (ρ v).getD .Unknown
    if typ = .Tag ∧ t = .AnyField then .varRef v t else .varRef v typ

mutual
  /-- `WalkFunc(e, rewrite)`: every reference `Walk` reaches is typed in place. -/
  def typeRefs (ρ : Str → Option DataType) : Expr → Expr
    | .varRef v t => typeRef ρ v t
    | .binary op l r => .binary op (typeRefs ρ l) (typeRefs ρ r)
    | .paren e => .paren (typeRefs ρ e)
    | .call n args => .call n (typeRefsArgs ρ args)
    | e => e
  def typeRefsArgs (ρ : Str → Option DataType) : List Expr → List Expr
    | [] => []
    | a :: rest => typeRefs ρ a :: typeRefsArgs ρ rest
end

/-! ## Expansion of one field -/

mutual
  /-- Descend `call.Args[0]` while it is a call: the name of the innermost call and its first
  argument (`none` when it has no arguments). -/
  def innerCall : Expr → Option (Str × Option Expr)
    | .call name args => innerArgs name args
    | _ => none
  def innerArgs (name : Str) : List Expr → Option (Str × Option Expr)
    | [] => some (name, none)
    | a :: _ =>
      match innerCall a with
      | some r => some r
      | none => some (name, some a)
end

mutual
  /-- `call.Args[0] = r` on the innermost call of the template. -/
  def substInner (r : Expr) : Expr → Expr
    | .call name args => .call name (substInnerArgs r args)
    | e => e
  def substInnerArgs (r : Expr) : List Expr → List Expr
    | [] => []
    | a :: rest =>
      (match a with
       | .call n as => substInner r (.call n as)
       | _ => r) :: rest
end

/-- `supportedTypes` after `switch call.Name` (generated table). -/
def callSupportedTypes (name : Str) : List Nat :=
  match Gen.callTypeCases.find? (fun c => c.1.contains name) with
  | some c => c.2
  | none => Gen.callBaseTypes

def errTagWildcard : Str := ['u', 'n', 'a', 'b', 'l', 'e', ' ', 't', 'o', ' ', 'u', 's', 'e', ' ', 't', 'a', 'g', ' ', 'w', 'i', 'l', 'd', 'c', 'a', 'r', 'd', ' ', 'i', 'n', ' ']
def errBinWildcard : Str := ['u', 'n', 's', 'u', 'p', 'p', 'o', 'r', 't', 'e', 'd', ' ', 'e', 'x', 'p', 'r', 'e', 's', 's', 'i', 'o', 'n', ' ', 'w', 'i', 't', 'h', ' ', 'w', 'i', 'l', 'd', 'c', 'a', 'r', 'd', ':', ' ']
def errBinRegex : Str := ['u', 'n', 's', 'u', 'p', 'p', 'o', 'r', 't', 'e', 'd', ' ', 'e', 'x', 'p', 'r', 'e', 's', 's', 'i', 'o', 'n', ' ', 'w', 'i', 't', 'h', ' ', 'r', 'e', 'g', 'e', 'x', ' ', 'f', 'i', 'e', 'l', 'd', ':', ' ']

/-- A plain `*`, `*::field`, `*::tag` as a whole field. -/
def starKeeps (wt : Token) (ref : ColRef) : Bool :=
  !((wt = .FIELD ∧ ref.type = .Tag) ∨ (wt = .TAG ∧ ref.type ≠ .Tag))

def refField (ref : ColRef) : Field := { expr := .varRef ref.name ref.type }

/-- The fields a call `e` (field name `fname`) with a wildcard or regex as first argument of its
innermost call `iname` expands to: one per column that is not a tag, has a type the function
supports and passes `keep` (the regex), the column substituted for the wildcard, aliased
`<field name>_<column>`. -/
def callFields (refs : List ColRef) (fname : Str) (e : Expr) (iname : Str) (keep : ColRef → Bool) : List Field :=
  (refs.filter (fun r => r.type ≠ .Tag && (callSupportedTypes iname).contains r.type.toNat && keep r)).map
    (fun r => { expr := substInner (.varRef r.name r.type) e, alias := fname ++ ['_'] ++ r.name })

/-- The body of `for _, f := range other.Fields` in `RewriteFields`: the fields that replace `f`. -/
def expandField (re : Str → Str → Bool) (refs : List ColRef) (f : Field) : Except Str (List Field) :=
  match f.expr with
  | .wildcard wt => .ok ((refs.filter (starKeeps wt)).map refField)
  | .regex src => .ok ((refs.filter (fun r => re src r.name)).map refField)
  | .call cname cargs =>
    match innerCall (.call cname cargs) with
    | none => .ok [f]
    | some (_, none) => .ok [f]
    | some (iname, some arg) =>
      let go (keep : ColRef → Bool) : Except Str (List Field) :=
        .ok (callFields refs f.rfName (.call cname cargs) iname keep)
      match arg with
      | .wildcard wt =>
        if wt = .TAG then .error (errTagWildcard ++ iname ++ ['(', ')'])
        else go (fun _ => true)
      | .regex src => go (fun r => re src r.name)
      | _ => .ok [f]
  | .binary op l r =>
    if (Expr.binary op l r).hasStar then
      .error (errBinWildcard ++ (Expr.binary op l r).print)
    else if (Expr.binary op l r).hasRegex then
      .error (errBinRegex ++ (Expr.binary op l r).print)
    else .ok [f]
  | _ => .ok [f]

def expandFields (re : Str → Str → Bool) (refs : List ColRef) : List Field → Except Str (List Field)
  | [] => .ok []
  | f :: rest =>
    match expandField re refs f with
    | .error e => .error e
    | .ok fs =>
      match expandFields re refs rest with
      | .error e => .error e
      | .ok more => .ok (fs ++ more)

/-- The body of `for _, d := range other.Dimensions`. -/
def expandDim (re : Str → Str → Bool) (names : List Str) (d : Expr) : List Expr :=
  match d with
  | .wildcard _ => names.map (fun n => .varRef n .Unknown)
  | .regex src => (names.filter (fun n => re src n)).map (fun n => .varRef n .Unknown)
  | d => [d]

def expandDims (re : Str → Str → Bool) (names : List Str) : List Expr → List Expr
  | [] => []
  | d :: rest => expandDim re names d ++ expandDims re names rest

/-! ## `RewriteFields` -/

/-- `for _, d := range other.Dimensions { if ref { delete(dimensionSet, ref.Val) } }`. -/
def delDimRefs (s : StrSet) : List Expr → StrSet
  | [] => s
  | .varRef v _ :: rest => delDimRefs (s.del v) rest
  | _ :: rest => delDimRefs s rest

/-- The slice `fields` of `RewriteFields` (sorted expansion of `*`), from the two maps. -/
def wildcardRefs (fieldSet : TypeMap) (dimSet : StrSet) (hasDimWild : Bool) : List ColRef :=
  if fieldSet.length > 0 then
    sortRefs (fieldSet.map (fun kt => ⟨kt.1, kt.2⟩) ++
      (if !hasDimWild then dimSet.map (fun k => ⟨k, .Tag⟩) else []))
  else []

/-- The slice `dimensions` of `RewriteFields` (`stringSetSlice(dimensionSet)`; `dimensionSet` was
set to nil when its keys went into the fields). -/
def wildcardDims (fieldSet : TypeMap) (dimSet : StrSet) (hasDimWild : Bool) : List Str :=
  if fieldSet.length > 0 ∧ !hasDimWild then [] else sortStrs dimSet

def typeFields (ρ : Str → Option DataType) : List Field → List Field
  | [] => []
  | f :: rest => { f with expr := typeRefs ρ f.expr } :: typeFields ρ rest

/-- `RewriteFields` after the subqueries have been rewritten (`sources` are the new sources). -/
def rewriteBody (m : FieldMapper) (re : Str → Str → Bool) (fields : List Field) (dims : List Expr)
    (sources : List Source) (cond : Option Expr) :
    Except Str (List Field × List Expr × Option Expr) :=
  let ρ := resolveRef m.toTypeMapper sources
  let fields1 := typeFields ρ fields
  let cond1 := cond.map (typeRefs ρ)
  let hasFW := hasFieldWildcard fields1
  let hasDW := hasDimensionWildcard dims
  if !hasFW && !hasDW then .ok (fields1, dims, cond1)
  else
    match fieldDimensions m sources with
    | .error e => .error e
    | .ok (fieldSet, dimSet0) =>
      let dimSet := if !hasDW then delDimRefs dimSet0 dims else dimSet0
      let refs := wildcardRefs fieldSet dimSet hasDW
      let dnames := wildcardDims fieldSet dimSet hasDW
      match (if hasFW then expandFields re refs fields1 else .ok fields1) with
      | .error e => .error e
      | .ok fields2 =>
        let dims2 := if hasDW then expandDims re dnames dims else dims
        .ok (fields2, dims2, cond1)

/-- What `RewriteFields` does to a statement once its subqueries have been rewritten: new fields,
dimensions and condition from the old ones and the new sources. -/
abbrev RewriteBody := List Field → List Expr → List Source → Option Expr →
  Except Str (List Field × List Expr × Option Expr)

mutual
  /-- The recursion of `RewriteFields`: subqueries first (in source order, the first error wins),
  then the statement itself. -/
  def rewriteWith (body : RewriteBody) : SelectStmt → Except Str SelectStmt
    | .mk fields target dims sources cond sortFields limit offset slimit soffset isRaw fill fillValue
        location timeAlias omitTime stripName emitName dedupe =>
      match rewriteSourcesWith body sources with
      | .error e => .error e
      | .ok sources' =>
        match body fields dims sources' cond with
        | .error e => .error e
        | .ok (fields', dims', cond') =>
          .ok (.mk fields' target dims' sources' cond' sortFields limit offset slimit soffset isRaw fill
            fillValue location timeAlias omitTime stripName emitName dedupe)
  /-- The loop `for _, src := range other.Sources`. -/
  def rewriteSourcesWith (body : RewriteBody) : List Source → Except Str (List Source)
    | [] => .ok []
    | src :: rest =>
      match rewriteSourceWith body src with
      | .error e => .error e
      | .ok src' =>
        match rewriteSourcesWith body rest with
        | .error e => .error e
        | .ok rest' => .ok (src' :: rest')
  def rewriteSourceWith (body : RewriteBody) : Source → Except Str Source
    | .measurement ms => .ok (.measurement ms)
    | .subquery st =>
      match rewriteWith body st with
      | .error e => .error e
      | .ok st' => .ok (.subquery st')
end

/-- `SelectStatement.RewriteFields(m)`. -/
def rewriteFields (m : FieldMapper) (re : Str → Str → Bool) : SelectStmt → Except Str SelectStmt :=
  rewriteWith (rewriteBody m re)

/-! ## Declarative specification

What the expansion is, said without maps: the columns the sources expose are concatenated
(`sourceSchema`); a field column appears once per distinct name with the highest-precedence type
among the columns of that name; tag keys appear once, minus those the statement groups by
explicitly; the two are sorted together by `VarRefs.Less`.  Two clauses of the code are spelled
out because the property text does not have them (see Props/C12.lean, `*_counterexample`):
no field column at all ⇒ no expansion at all; any wildcard or regex in GROUP BY ⇒ no tag among
the fields. -/

/-- Keep one copy of each element. -/
def dedup {α} [DecidableEq α] : List α → List α
  | [] => []
  | a :: l => if a ∈ l then dedup l else a :: dedup l

/-- The columns and tag keys the sources expose, concatenated in source order. -/
def sourceSchema (m : FieldMapper) : List Source → Except Str (List (Str × DataType) × List Str)
  | [] => .ok ([], [])
  | .measurement ms :: rest =>
    match m.fieldDimensions ms with
    | .error e => .error e
    | .ok (f, d) =>
      match sourceSchema m rest with
      | .error e => .error e
      | .ok (fs, ds) => .ok (f ++ fs, d ++ ds)
  | .subquery st :: rest =>
    match sourceSchema m rest with
    | .error e => .error e
    | .ok (fs, ds) => .ok (subqueryCols m.toTypeMapper st.sources st.fields ++ fs, dimRefs st.dimensions ++ ds)

/-- The highest-precedence type among the columns called `n`. -/
def colType (cols : List (Str × DataType)) (n : Str) : DataType :=
  ((cols.filter (fun c => c.1 = n)).map (fun c => c.2)).foldl raiseTo .Unknown

/-- The field columns: each distinct name once, with its type. -/
def specFieldCols (cols : List (Str × DataType)) : List ColRef :=
  (dedup (cols.map (fun c => c.1))).map (fun n => ⟨n, colType cols n⟩)

/-- The tag columns that are not named in GROUP BY. -/
def specTagCols (tags : List Str) (dims : List Expr) : List ColRef :=
  ((dedup tags).filter (fun t => t ∉ dimRefs dims)).map (fun t => ⟨t, .Tag⟩)

/-- What a whole-field `*` stands for. -/
def expandSpec (cols : List (Str × DataType)) (tags : List Str) (dims : List Expr) (hasDimWild : Bool) :
    List ColRef :=
  if specFieldCols cols = [] then []
  else sortRefs (specFieldCols cols ++ (if hasDimWild then [] else specTagCols tags dims))

/-- What a `*` in GROUP BY stands for. -/
def dimSpec (tags : List Str) : List Str := sortStrs (dedup tags)

/-- The specification of `rewriteBody`. -/
def specBody (m : FieldMapper) (re : Str → Str → Bool) : RewriteBody := fun fields dims sources cond =>
  let ρ := resolveRef m.toTypeMapper sources
  let fields1 := typeFields ρ fields
  let cond1 := cond.map (typeRefs ρ)
  let hasFW := hasFieldWildcard fields1
  let hasDW := hasDimensionWildcard dims
  if !hasFW && !hasDW then .ok (fields1, dims, cond1)
  else
    match sourceSchema m sources with
    | .error e => .error e
    | .ok (cols, tags) =>
      match (if hasFW then expandFields re (expandSpec cols tags dims hasDW) fields1 else .ok fields1) with
      | .error e => .error e
      | .ok fields2 => .ok (fields2, if hasDW then expandDims re (dimSpec tags) dims else dims, cond1)

/-- The specification of `rewriteFields`: the same recursion, the declarative body. -/
def rewriteSpec (m : FieldMapper) (re : Str → Str → Bool) : SelectStmt → Except Str SelectStmt :=
  rewriteWith (specBody m re)

end InfluxQL

import InfluxQL.Model.Ring
import InfluxQL.Model.Scanner
/-
Operation-level transcription of scanner.go: which `read()` / `unread()` / `curr()` calls the
scanner functions issue on the `reader`, in which order, depending on what the calls return.

`Prog α` is a program over the three reader operations and nothing else: a tree whose nodes are
the calls and whose branches are indexed by the rune+position a call returns. Every Go statement
`ch, pos := s.r.read()` / `s.r.unread()` / `s.r.curr()` (and `ReadRune` / `UnreadRune`, the
wrappers ScanString / ScanDelimited / ScanBareIdent and the parser's peekRune go through) is one
node; the functions below follow the Go source line by line, quirks included. Loops are cut by a
`fuel` argument (the Go loops have none; `Lemmas/ScanOps.lean` shows every loop stops at the
first `eof` at the latest, so `text.length + 2` is never used up).

A `Prog` can be run in two ways:
* `Prog.run text p k` – on the pure stream (`streamAt`), from logical position `k`; returns the
  emitted `ROp` trace, the result and the final logical position. `read` at `k` returns
  `streamAt text k`, `curr` returns the rune before `k`: the clauses of `idxRun`.
* `Prog.runRing p r` – on the 3-slot ring as written (`Ring.read readerNext` / `Ring.unread` /
  `Ring.currChecked`); `none` when the depth assertion fires.
-/
namespace InfluxQL.ScanOps
open InfluxQL InfluxQL.Ring Gen

abbrev Rune := Char × Pos

inductive Prog (α : Type) where
  | ret (a : α)
  | read (f : Rune → Prog α)
  | unread (p : Prog α)
  | curr (f : Rune → Prog α)

def Prog.bind {α β : Type} : Prog α → (α → Prog β) → Prog β
  | .ret a, g => g a
  | .read f, g => .read fun x => (f x).bind g
  | .unread p, g => .unread (p.bind g)
  | .curr f, g => .curr fun x => (f x).bind g

instance : Monad Prog where
  pure := .ret
  bind := Prog.bind

/-- `curr()` at logical position `k`: the rune delivered before it (the zero slot at the start). -/
def currAt (text : List Char) (k : Nat) : Rune :=
  if k = 0 then zeroSlot else streamAt text (k - 1)

/-- Run on the pure stream from logical position `k`: (trace, result, final position). -/
def Prog.run {α : Type} (text : List Char) : Prog α → Nat → List ROp × α × Nat
  | .ret a, k => ([], a, k)
  | .read f, k =>
    let r := (f (streamAt text k)).run text (k + 1)
    (.read :: r.1, r.2)
  | .unread p, k =>
    let r := p.run text (k - 1)
    (.unread :: r.1, r.2)
  | .curr f, k =>
    let r := (f (currAt text k)).run text k
    (.curr :: r.1, r.2)

/-- Run on the ring as written; `none` = the depth assertion in `curr()` fires. -/
def Prog.runRing {α : Type} : Prog α → Ring Rune RSrc → Option (α × Ring Rune RSrc)
  | .ret a, r => some (a, r)
  | .read f, r =>
    match r.read readerNext with
    | none => none
    | some (x, r') => (f x).runRing r'
  | .unread p, r => p.runRing r.unread
  | .curr f, r =>
    match r.currChecked with
    | none => none
    | some x => (f x).runRing r

/-- `ch, pos := s.r.read()`. -/
def rd : Prog Rune := .read .ret
/-- `s.r.unread()`. -/
def unrd : Prog Unit := .unread (.ret ())
/-- `ch, pos := s.r.curr()`. -/
def cur : Prog Rune := .curr .ret

/-- `reader.ReadRune()`: `ch, _ = r.read(); if ch == eof { err = io.EOF }`; (ch, err ≠ nil). -/
def readRune : Prog (Char × Bool) := do
  let x ← rd
  pure (x.1, x.1 == eofRune)

/-- `reader.UnreadRune()`. -/
def unreadRune : Prog Unit := unrd

/-! ## scanner.go -/

/-- The `for` loop of `scanWhitespace`. -/
def wsLoop : Nat → Prog (List Char)
  | 0 => pure []
  | fuel + 1 => do
    let x ← rd
    if x.1 = eofRune then pure []
    else if !isWhitespace x.1 then do
      unrd
      pure []
    else do
      let cs ← wsLoop fuel
      pure (x.1 :: cs)

/-- `Scanner.scanWhitespace()`. -/
def opScanWhitespace (fuel : Nat) : Prog Lexeme := do
  let x ← cur
  let cs ← wsLoop fuel
  pure ⟨.WS, x.2, x.1 :: cs⟩

/-- `Scanner.skipUntilNewline()`. -/
def opSkipUntilNewline : Nat → Prog Unit
  | 0 => pure ()
  | fuel + 1 => do
    let x ← rd
    if x.1 = '\n' ∨ x.1 = eofRune then pure () else opSkipUntilNewline fuel

/-- `Scanner.skipUntilEndComment()`; the flag says whether control is at the label `star`.
`true` = `nil`, `false` = `io.EOF`. -/
def opSkipUntilEndComment : Nat → Bool → Prog Bool
  | 0, _ => pure false
  | fuel + 1, false => do
    let x1 ← rd
    if x1.1 = '*' then opSkipUntilEndComment fuel true
    else if x1.1 = eofRune then pure false
    else opSkipUntilEndComment fuel false
  | fuel + 1, true => do
    let x2 ← rd
    if x2.1 = '/' then pure true
    else if x2.1 = '*' then opSkipUntilEndComment fuel true
    else if x2.1 = eofRune then pure false
    else opSkipUntilEndComment fuel false

/-- `Scanner.scanDigits()`. -/
def opScanDigits : Nat → Prog (List Char)
  | 0 => pure []
  | fuel + 1 => do
    let x ← rd
    if !isDigit x.1 then do
      unrd
      pure []
    else do
      let cs ← opScanDigits fuel
      pure (x.1 :: cs)

/-- `ScanBareIdent(r)`. -/
def opScanBareIdent : Nat → Prog (List Char)
  | 0 => pure []
  | fuel + 1 => do
    let x ← readRune
    if x.2 then pure []
    else if !isIdentChar x.1 then do
      unreadRune
      pure []
    else do
      let cs ← opScanBareIdent fuel
      pure (x.1 :: cs)

/-- The `for` loop of `ScanString(r)`. -/
def strLoop (ending : Char) : Nat → List Char → Prog (List Char × Option StrErr)
  | 0, acc => pure (acc, none)
  | fuel + 1, acc => do
    let x0 ← readRune
    if x0.1 = ending then pure (acc, none)
    else if x0.2 ∨ x0.1 = '\n' then pure (acc, some .badString)
    else if x0.1 = '\\' then do
      let x1 ← readRune
      if x1.1 = 'n' then strLoop ending fuel (acc ++ ['\n'])
      else if x1.1 = '\\' then strLoop ending fuel (acc ++ ['\\'])
      else if x1.1 = '"' then strLoop ending fuel (acc ++ ['"'])
      else if x1.1 = '\'' then strLoop ending fuel (acc ++ ['\''])
      else pure ([x0.1, x1.1], some .badEscape)
    else strLoop ending fuel (acc ++ [x0.1])

/-- `ScanString(r)`. -/
def opScanString (fuel : Nat) : Prog (List Char × Option StrErr) := do
  let e ← readRune
  if e.2 then pure ([], some .badString)
  else strLoop e.1 fuel []

/-- `Scanner.scanString()`. -/
def opScannerScanString (fuel : Nat) : Prog Lexeme := do
  unrd
  let p ← cur
  let r ← opScanString fuel
  match r.2 with
  | some .badString => pure ⟨.BADSTRING, p.2, r.1⟩
  | some .badEscape => do
    let q ← cur
    pure ⟨.BADESCAPE, q.2, r.1⟩
  | none => pure ⟨.STRING, p.2, r.1⟩

/-- The `for` loop of `scanIdent`; `some lx` = one of the two `return`s inside the loop. -/
def identLoop (fuel0 : Nat) (pos : Pos) : Nat → List Char → Prog (Option Lexeme × List Char)
  | 0, buf => pure (none, buf)
  | fuel + 1, buf => do
    let x ← rd
    if x.1 = eofRune then pure (none, buf)
    else if x.1 = '"' then do
      let lx ← opScannerScanString fuel0
      if lx.tok = .BADSTRING ∨ lx.tok = .BADESCAPE then pure (some lx, buf)
      else pure (some ⟨.IDENT, pos, lx.lit⟩, buf)
    else if isIdentChar x.1 then do
      unrd
      let cs ← opScanBareIdent fuel0
      identLoop fuel0 pos fuel (buf ++ cs)
    else do
      unrd
      pure (none, buf)

/-- `Scanner.scanIdent(lookup)`. -/
def opScanIdent (fuel : Nat) (lookupKw? : Bool) : Prog Lexeme := do
  let x ← rd
  unrd
  let r ← identLoop fuel x.2 fuel []
  match r.1 with
  | some lx => pure lx
  | none =>
    if lookupKw? ∧ lookup r.2 ≠ .IDENT then pure ⟨lookup r.2, x.2, []⟩
    else pure ⟨.IDENT, x.2, r.2⟩

/-- First duration loop of `scanNumber`: `if !isLetter(ch1) && ch1 != 'µ' { unread; break }`. -/
def durLoop1 : Nat → Prog (List Char)
  | 0 => pure []
  | fuel + 1 => do
    let x ← rd
    if !isDurChar x.1 then do
      unrd
      pure []
    else do
      let cs ← durLoop1 fuel
      pure (x.1 :: cs)

/-- Second duration loop: `if isLetter(ch0) || ch0 == 'µ' || isDigit(ch0) {…} else { unread; break }`. -/
def durLoop2 : Nat → Prog (List Char)
  | 0 => pure []
  | fuel + 1 => do
    let x ← rd
    if isDurTailChar x.1 then do
      let cs ← durLoop2 fuel
      pure (x.1 :: cs)
    else do
      unrd
      pure []

/-- `scanNumber` from "Read as a duration or integer if it doesn't have a fractional part" on. -/
def numberTail (fuel : Nat) (pos : Pos) (buf : List Char) (isDecimal : Bool) : Prog Lexeme :=
  if !isDecimal then do
    let y0 ← rd
    if isDurChar y0.1 then do
      let l1 ← durLoop1 fuel
      let l2 ← durLoop2 fuel
      pure ⟨.DURATIONVAL, pos, buf ++ [y0.1] ++ l1 ++ l2⟩
    else do
      unrd
      pure ⟨.INTEGER, pos, buf⟩
  else pure ⟨.NUMBER, pos, buf⟩

/-- "If next code points are a full stop and digit then consume them": (buf, isDecimal). -/
def numberFrac (fuel : Nat) (ds : List Char) : Prog (List Char × Bool) := do
  let x0 ← rd
  if x0.1 = '.' then do
    let x1 ← rd
    if isDigit x1.1 then do
      let ds2 ← opScanDigits fuel
      pure (ds ++ [x0.1, x1.1] ++ ds2, true)
    else do
      unrd
      pure (ds, true)
  else do
    unrd
    pure (ds, false)

/-- `scanNumber` from "Read as many digits as possible" on. -/
def numberRest (fuel : Nat) (pos : Pos) : Prog Lexeme := do
  let ds ← opScanDigits fuel
  let r ← numberFrac fuel ds
  numberTail fuel pos r.1 r.2

/-- `Scanner.scanNumber()`. -/
def opScanNumber (fuel : Nat) : Prog Lexeme := do
  let c ← cur
  if c.1 = '.' then do
    let x1 ← rd
    unrd
    if !isDigit x1.1 then pure ⟨.ILLEGAL, c.2, ['.']⟩
    else do
      unrd
      numberRest fuel c.2
  else do
    unrd
    numberRest fuel c.2

/-- `switch ch0`, last group. -/
def opScan4 (ch0 : Char) (pos : Pos) : Prog Lexeme :=
  if ch0 = '(' then pure ⟨.LPAREN, pos, []⟩
  else if ch0 = ')' then pure ⟨.RPAREN, pos, []⟩
  else if ch0 = ',' then pure ⟨.COMMA, pos, []⟩
  else if ch0 = ';' then pure ⟨.SEMICOLON, pos, []⟩
  else if ch0 = ':' then do
    let x1 ← rd
    if x1.1 = ':' then pure ⟨.DOUBLECOLON, pos, []⟩
    else do
      unrd
      pure ⟨.COLON, pos, []⟩
  else pure ⟨.ILLEGAL, pos, [ch0]⟩

/-- `switch ch0`, comparison group (`!` falls out of the switch to the final `ILLEGAL`). -/
def opScan3 (ch0 : Char) (pos : Pos) : Prog Lexeme :=
  if ch0 = '=' then do
    let x1 ← rd
    if x1.1 = '~' then pure ⟨.EQREGEX, pos, []⟩
    else do
      unrd
      pure ⟨.EQ, pos, []⟩
  else if ch0 = '!' then do
    let x1 ← rd
    if x1.1 = '=' then pure ⟨.NEQ, pos, []⟩
    else if x1.1 = '~' then pure ⟨.NEQREGEX, pos, []⟩
    else do
      unrd
      pure ⟨.ILLEGAL, pos, [ch0]⟩
  else if ch0 = '>' then do
    let x1 ← rd
    if x1.1 = '=' then pure ⟨.GTE, pos, []⟩
    else do
      unrd
      pure ⟨.GT, pos, []⟩
  else if ch0 = '<' then do
    let x1 ← rd
    if x1.1 = '=' then pure ⟨.LTE, pos, []⟩
    else if x1.1 = '>' then pure ⟨.NEQ, pos, []⟩
    else do
      unrd
      pure ⟨.LT, pos, []⟩
  else opScan4 ch0 pos

/-- `switch ch0`, arithmetic group with the two comment forms. -/
def opScan2 (fuel : Nat) (ch0 : Char) (pos : Pos) : Prog Lexeme :=
  if ch0 = '+' then pure ⟨.ADD, pos, []⟩
  else if ch0 = '-' then do
    let x1 ← rd
    if x1.1 = '-' then do
      opSkipUntilNewline fuel
      pure ⟨.COMMENT, pos, []⟩
    else do
      unrd
      pure ⟨.SUB, pos, []⟩
  else if ch0 = '*' then pure ⟨.MUL, pos, []⟩
  else if ch0 = '/' then do
    let x1 ← rd
    if x1.1 = '*' then do
      let ok ← opSkipUntilEndComment fuel false
      if !ok then pure ⟨.ILLEGAL, pos, []⟩ else pure ⟨.COMMENT, pos, []⟩
    else do
      unrd
      pure ⟨.DIV, pos, []⟩
  else if ch0 = '%' then pure ⟨.MOD, pos, []⟩
  else if ch0 = '&' then pure ⟨.BITWISE_AND, pos, []⟩
  else if ch0 = '|' then pure ⟨.BITWISE_OR, pos, []⟩
  else if ch0 = '^' then pure ⟨.BITWISE_XOR, pos, []⟩
  else opScan3 ch0 pos

/-- `Scanner.Scan()` after `ch0, pos := s.r.read()`. -/
def opScanFrom (fuel : Nat) (ch0 : Char) (pos : Pos) : Prog Lexeme :=
  if isWhitespace ch0 then opScanWhitespace fuel
  else if isLetter ch0 || ch0 == '_' then do
    unrd
    opScanIdent fuel true
  else if isDigit ch0 then opScanNumber fuel
  else if ch0 = eofRune then pure ⟨.EOF, pos, []⟩
  else if ch0 = '"' then do
    unrd
    opScanIdent fuel true
  else if ch0 = '\'' then opScannerScanString fuel
  else if ch0 = '.' then do
    let x1 ← rd
    unrd
    if isDigit x1.1 then opScanNumber fuel else pure ⟨.DOT, pos, []⟩
  else if ch0 = '$' then do
    let lx ← opScanIdent fuel false
    if lx.tok ≠ .IDENT then pure ⟨lx.tok, pos, '$' :: lx.lit⟩
    else pure ⟨.BOUNDPARAM, pos, '$' :: lx.lit⟩
  else opScan2 fuel ch0 pos

/-- `Scanner.Scan()`. -/
def opScan (fuel : Nat) : Prog Lexeme := do
  let x ← rd
  opScanFrom fuel x.1 x.2

/-- What `ScanDelimited` returns besides the bytes. -/
inductive DErr where
  | eofErr | other | badEscape
  deriving Repr, DecidableEq

/-- The `for` loop of `ScanDelimited(r, start, end, escapes, escapesPassThru)`. -/
def delimLoop (ending : Char) (escapes : Char → Option Char) (passThru : Bool) :
    Nat → List Char → Prog (List Char × Option DErr)
  | 0, acc => pure (acc, none)
  | fuel + 1, acc => do
    let x0 ← readRune
    if x0.1 = ending then pure (acc, none)
    else if x0.2 then pure (acc, some .eofErr)
    else if x0.1 = '\n' then pure ([], some .other)
    else if x0.1 = '\\' then do
      let x1 ← readRune
      if x1.2 then pure ([], some .eofErr)
      else
        match escapes x1.1 with
        | none =>
          if passThru then do
            unreadRune
            delimLoop ending escapes passThru fuel (acc ++ [x0.1])
          else pure ([x0.1, x1.1], some .badEscape)
        | some c => delimLoop ending escapes passThru fuel (acc ++ [c])
    else delimLoop ending escapes passThru fuel (acc ++ [x0.1])

/-- `ScanDelimited`. -/
def opScanDelimited (fuel : Nat) (start ending : Char) (escapes : Char → Option Char)
    (passThru : Bool) : Prog (List Char × Option DErr) := do
  let x ← readRune
  if x.2 then pure ([], some .eofErr)
  else if x.1 ≠ start then pure ([], some .other)
  else delimLoop ending escapes passThru fuel []

/-- `map[rune]rune{'/': '/'}`. -/
def regexEscapes (c : Char) : Option Char := if c = '/' then some '/' else none

/-- `Scanner.ScanRegex()` (the named result `lit` is still empty on the two error returns). -/
def opScanRegex (fuel : Nat) : Prog Lexeme := do
  let p ← cur
  let r ← opScanDelimited fuel '/' '/' regexEscapes true
  match r.2 with
  | some .badEscape => do
    let q ← cur
    pure ⟨.BADESCAPE, q.2, []⟩
  | some _ => pure ⟨.BADREGEX, p.2, []⟩
  | none => pure ⟨.REGEX, p.2, r.1⟩

/-! ## parser.go: the parser's own calls on the same reader -/

/-- `Parser.peekRune()`. -/
def opPeekRune : Prog Char := do
  let x ← readRune
  if x.1 ≠ eofRune then do
    unreadRune
    pure x.1
  else pure x.1

/-- `Parser.peekComment()`. -/
def opPeekComment : Prog Bool := do
  let x0 ← rd
  let x1 ← rd
  unrd
  unrd
  pure ((x0.1 == '-' && x1.1 == '-') || (x0.1 == '/' && x1.1 == '*'))

/-! ## call sequences -/

inductive Call where
  | scan | scanRegex | peekRune | peekComment
  deriving Repr, DecidableEq

inductive Out where
  | tok (lx : Lexeme)
  | rune (c : Char)
  | bool (b : Bool)
  deriving Repr, DecidableEq

def opCall (fuel : Nat) : Call → Prog Out
  | .scan => do
    let lx ← opScan fuel
    pure (.tok lx)
  | .scanRegex => do
    let lx ← opScanRegex fuel
    pure (.tok lx)
  | .peekRune => do
    let c ← opPeekRune
    pure (.rune c)
  | .peekComment => do
    let b ← opPeekComment
    pure (.bool b)

def opCalls (fuel : Nat) : List Call → Prog (List Out)
  | [] => pure []
  | c :: cs => do
    let o ← opCall fuel c
    let os ← opCalls fuel cs
    pure (o :: os)

/-- The fuel every loop gets: more than the delivered stream is long. -/
def fuelFor (text : List Char) : Nat := text.length + 2

end InfluxQL.ScanOps

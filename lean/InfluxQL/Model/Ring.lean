import InfluxQL.Model.Reader
import InfluxQL.Gen.Ring
/-
The two 3-slot push-back rings of scanner.go, modelled as they are written:

  `reader`      buf [3]{ch,pos}; i, n;  read / unread / curr
  `bufScanner`  buf [3]{tok,pos,lit}; i, n;  scanFunc(scan) / Unscan / curr

Both have the same shape: a new element is stored at `i = (i+1) % len(buf)`, `unread` only
counts (`n++`), a `read` with `n > 0` re-delivers (`n--; return curr()`), and `curr()` returns
`buf[(i - n + len(buf)) % len(buf)]`. The number of slots comes from the regenerated
`Gen.Ring` (array length of both `buf` fields); the bodies of the six functions are pinned by the
extractor.

`Ring` is that machine, generic in the element type `α` and in the source state `σ`; the function
that produces the next element is an argument of every `read` (`bufScanner.scanFunc` is called
with `Scan` or with `ScanRegex`). With the `verif` build tag `curr()` panics when `n ≥ len(buf)`
(`verifAssertReaderPushback` / `verifAssertTokenPushback`): that is `currChecked`.

`Hist` is the specification: the unbounded history of everything delivered so far and the
push-back count. `Lemmas/Ring.lean` proves that the ring and the history machine return the same
elements on every operation sequence the check lets through, and `Props/C05.lean` states it
for the rune reader against the pure cursor of `Model/Reader.lean`.
-/
namespace InfluxQL.Ring
open InfluxQL Gen

/-- `buf [3]T`. -/
structure Buf (α : Type) where
  b0 : α
  b1 : α
  b2 : α
  deriving Repr

def Buf.get {α : Type} (b : Buf α) (j : Nat) : α :=
  match j % 3 with
  | 0 => b.b0
  | 1 => b.b1
  | _ => b.b2

def Buf.set {α : Type} (b : Buf α) (j : Nat) (x : α) : Buf α :=
  match j % 3 with
  | 0 => { b with b0 := x }
  | 1 => { b with b1 := x }
  | _ => { b with b2 := x }

/-- The ring with its source: `src` is whatever the next element is produced from (the underlying
`io.RuneScanner` with the position counters; the `Scanner`). -/
structure Ring (α σ : Type) where
  src : σ
  i : Nat
  n : Nat
  buf : Buf α

/-- The zero value: all slots hold the zero element `z`, `i = n = 0`. -/
def Ring.init {α σ : Type} (z : α) (s : σ) : Ring α σ :=
  { src := s, i := 0, n := 0, buf := ⟨z, z, z⟩ }

/-- `curr()` as written: `buf[(i - n + len(buf)) % len(buf)]`. Go computes in `int`; for
`n ≤ i + 3` (always the case below) this is the natural-number expression. -/
def Ring.curr {α σ : Type} (r : Ring α σ) : α :=
  r.buf.get ((r.i + ringSlots - r.n) % ringSlots)

/-- `curr()` under the `verif` tag: panics (here: `none`) when `n ≥ len(buf)`. -/
def Ring.currChecked {α σ : Type} (r : Ring α σ) : Option α :=
  if r.n ≥ ringSlots then none else some r.curr

/-- `unread()` / `Unscan()`: `n++`. -/
def Ring.unread {α σ : Type} (r : Ring α σ) : Ring α σ := { r with n := r.n + 1 }

/-- `read()` / `scanFunc(next)`. -/
def Ring.read {α σ : Type} (next : σ → α × σ) (r : Ring α σ) : Option (α × Ring α σ) :=
  if r.n > 0 then
    let r' := { r with n := r.n - 1 }
    r'.currChecked.map (·, r')
  else
    let (x, s') := next r.src
    let i' := (r.i + 1) % ringSlots
    let r' : Ring α σ := { src := s', i := i', n := r.n, buf := r.buf.set i' x }
    r'.currChecked.map (·, r')

/-- One operation on a ring; `read` carries the producer it is called with. -/
inductive Op (α σ : Type) where
  | read (next : σ → α × σ)
  | unread
  | curr

/-- Run a sequence of operations; the outputs of `read` and `curr` in order, `none` as soon as a
`curr()` would trip the depth assertion. -/
def Ring.run {α σ : Type} : List (Op α σ) → Ring α σ → Option (List α × Ring α σ)
  | [], r => some ([], r)
  | .read next :: ops, r =>
    match r.read next with
    | none => none
    | some (x, r') => (Ring.run ops r').map fun (xs, r'') => (x :: xs, r'')
  | .unread :: ops, r => Ring.run ops r.unread
  | .curr :: ops, r =>
    match r.currChecked with
    | none => none
    | some x => (Ring.run ops r).map fun (xs, r'') => (x :: xs, r'')

/-! ## Specification: unbounded history -/

/-- Everything delivered so far, most recent first (three zero elements at the bottom: the zero
slots a fresh ring would hand out), and the push-back count. -/
structure Hist (α σ : Type) where
  src : σ
  hist : List α
  n : Nat

def Hist.init {α σ : Type} (z : α) (s : σ) : Hist α σ := { src := s, hist := [z, z, z], n := 0 }

/-- The element `n` back in history (`z` is never used: the history has at least three entries and
the depth check keeps `n < 3`). -/
def Hist.curr {α σ : Type} (z : α) (h : Hist α σ) : α := h.hist.getD h.n z

def Hist.unread {α σ : Type} (h : Hist α σ) : Hist α σ := { h with n := h.n + 1 }

def Hist.read {α σ : Type} (z : α) (next : σ → α × σ) (h : Hist α σ) : α × Hist α σ :=
  if h.n > 0 then
    let h' := { h with n := h.n - 1 }
    (h'.curr z, h')
  else
    let (x, s') := next h.src
    (x, { src := s', hist := x :: h.hist, n := h.n })

def Hist.run {α σ : Type} (z : α) : List (Op α σ) → Hist α σ → List α × Hist α σ
  | [], h => ([], h)
  | .read next :: ops, h =>
    let (x, h') := h.read z next
    let (xs, h'') := Hist.run z ops h'
    (x :: xs, h'')
  | .unread :: ops, h => Hist.run z ops h.unread
  | .curr :: ops, h =>
    let (xs, h'') := Hist.run z ops h
    (h.curr z :: xs, h'')

/-! ## The rune reader: source state and producer -/

/-- What `reader.read()` reads from and updates when nothing is pushed back: the underlying rune
scanner (`rest`: the runes it will still deliver), `r.pos` and `r.eof`. -/
structure RSrc where
  rest : List Char
  pos : Pos
  eof : Bool
  deriving Repr

/-- The body of `reader.read()` below the push-back test: read a rune (any error = end of input =
`eof`), fold `\r\n` and a lone `\r` into `\n`, stamp with the position *before* it, advance. -/
def readerNext (s : RSrc) : (Char × Pos) × RSrc :=
  let (ch, rest') : Char × List Char :=
    match s.rest with
    | [] => (eofRune, [])
    | '\r' :: '\n' :: t => ('\n', t)
    | '\r' :: t => ('\n', t)
    | c :: t => (c, t)
  ((ch, s.pos), { rest := rest', pos := advance ch s.pos s.eof, eof := s.eof || ch == eofRune })

/-- The zero slot of `reader.buf`: `rune(0)` at `Pos{0, 0}`. -/
def zeroSlot : Char × Pos := (eofRune, ⟨0, 0⟩)

/-- `&reader{r: bufio.NewReader(text)}`. -/
def readerInit (text : List Char) : Ring (Char × Pos) RSrc :=
  Ring.init zeroSlot { rest := text, pos := ⟨0, 0⟩, eof := false }

/-- The stream the pure cursor of `Model/Reader.lean` walks over: `j`-th delivered rune. -/
def streamAt (text : List Char) (j : Nat) : Char × Pos :=
  let c := Cursor.ofRunes text
  c.rest.getD j (eofRune, c.fin)

/-- Reader operations with the one producer the reader has. -/
inductive ROp where
  | read
  | unread
  | curr
  deriving Repr, DecidableEq

def ROp.toOp : ROp → Op (Char × Pos) RSrc
  | .read => .read readerNext
  | .unread => .unread
  | .curr => .curr

/-- The look-ahead reading of the pure-cursor model: a logical position `k` in the delivered
stream; `read` returns the rune there and advances, `unread` steps back, `curr` is the rune before
the position (the zero slot at the very start). Positions below zero do not exist: `unread` at the
start is treated as staying (the depth check rules the case out before it matters). -/
def idxRun (text : List Char) : List ROp → Nat → List (Char × Pos)
  | [], _ => []
  | .read :: ops, k => streamAt text k :: idxRun text ops (k + 1)
  | .unread :: ops, k => idxRun text ops (k - 1)
  | .curr :: ops, k => (if k = 0 then zeroSlot else streamAt text (k - 1)) :: idxRun text ops k

end InfluxQL.Ring

import InfluxQL.Model.Eval
/-
`Reduce`, `reduce`, `reduceBinaryExpr*`, `reduceCall`, `reduceParenExpr`, `reduceVarRef`,
`asLiteral` (ast.go), one definition per Go function. Trees are non-nil (`Reduce` of a Go `nil`
expression, and binary nodes with a nil child, are outside the model).

A Go helper that calls itself once on a converted operand (`reduceBinaryExprTimeLHS` with a string
or integer on the right, `…DurationLHS` with a string, `…NumberLHS` with an unsigned) is written as
a base function for the operand kinds the inner call can see plus the outer function.
-/
namespace InfluxQL
open Gen

namespace RExpr
variable {F : Type}

def isBinary : RExpr F → Bool
  | .binary _ _ _ => true
  | _ => false

/-- `isLiteral`: the types implementing the `Literal` interface. -/
def isLiteral : RExpr F → Bool
  | .bool _ | .boundParam _ | .dur _ | .int _ | .uint _ | .nil | .num _ | .regex _ | .list _
  | .str _ | .time _ => true
  | _ => false

def isTrueLiteral : RExpr F → Bool
  | .bool true => true
  | _ => false

def isFalseLiteral : RExpr F → Bool
  | .bool false => true
  | _ => false

end RExpr

/-- `asLiteral`. -/
def asLiteral {F : Type} : Value F → RExpr F
  | .bool b => .bool b
  | .dur d => .dur d
  | .float f => .num f
  | .int v => .int v
  | .uint v => .uint v
  | .str s => .str s
  | .time t => .time t
  | _ => .nil

/-- `Time.Sub`: the difference as an `int64` duration, saturating. -/
def timeSub (a b : Int) : Int :=
  let d := a - b
  if d < minInt64 then minInt64 else if d > maxInt64 then maxInt64 else d

section
variable {F : Type} (A : FloatAlg F) (S : StrAlg)

/-- `reduceBinaryExprBooleanLHS`. -/
def reduceBoolLHS (tok : Token) (l : Bool) (rhs : RExpr F) : RExpr F :=
  match rhs with
  | .bool r =>
    match BinOp.ofToken tok with
    | .eq => .bool (l == r)
    | .neq => .bool (l != r)
    | .and => .bool (l && r)
    | .or => .bool (l || r)
    | .band => .bool (l && r)
    | .bor => .bool (l || r)
    | .bxor => .bool (l != r)
    | _ => .binary tok (.bool l) rhs
  | .nil => .bool false
  | _ => .binary tok (.bool l) rhs

/-- `reduceBinaryExprDurationLHS` for every right operand but a string. -/
def reduceDurLHS₀ (tok : Token) (l : Int) (rhs : RExpr F) : RExpr F :=
  match rhs with
  | .dur r =>
    match BinOp.ofToken tok with
    | .add => .dur (wrap64 (l + r))
    | .sub => .dur (wrap64 (l - r))
    | .eq => .bool (l == r)
    | .neq => .bool (l != r)
    | .gt => .bool (decide (l > r))
    | .gte => .bool (decide (l ≥ r))
    | .lt => .bool (decide (l < r))
    | .lte => .bool (decide (l ≤ r))
    | _ => .binary tok (.dur l) rhs
  | .num r =>
    match BinOp.ofToken tok with
    | .mul => .dur (wrap64 (l * A.toInt64 r))
    | .div => if A.toInt64 r == 0 then .dur 0 else .dur (wrap64 (l.tdiv (A.toInt64 r)))
    | _ => .binary tok (.dur l) rhs
  | .int r =>
    match BinOp.ofToken tok with
    | .mul => .dur (wrap64 (l * r))
    | .div => if r == 0 then .dur 0 else .dur (wrap64 (l.tdiv r))
    | _ => .binary tok (.dur l) rhs
  | .time r =>
    match BinOp.ofToken tok with
    | .add => .time (r + l)
    | _ => .binary tok (.dur l) rhs
  | .nil => .bool false
  | _ => .binary tok (.dur l) rhs

/-- `reduceBinaryExprDurationLHS`. -/
def reduceDurLHS (loc : Int) (tok : Token) (l : Int) (rhs : RExpr F) : RExpr F :=
  match rhs with
  | .str s =>
    match S.toTime loc s with
    | none => .binary tok (.dur l) rhs
    | some t =>
      let e := reduceDurLHS₀ A tok l (.time t)
      if e.isBinary then .binary tok (.dur l) rhs else e
  | _ => reduceDurLHS₀ A tok l rhs

/-- `reduceBinaryExprNumberLHS` with a number on the right. -/
def reduceNumNum (tok : Token) (l r : F) : RExpr F :=
  match BinOp.ofToken tok with
  | .add => .num (A.add l r)
  | .sub => .num (A.sub l r)
  | .mul => .num (A.mul l r)
  | .div => if A.eq r A.zero then .num A.zero else .num (A.div l r)
  | .mod => .num (A.mod l r)
  | .eq => .bool (A.eq l r)
  | .neq => .bool (!A.eq l r)
  | .gt => .bool (A.lt r l)
  | .gte => .bool (A.le r l)
  | .lt => .bool (A.lt l r)
  | .lte => .bool (A.le l r)
  | _ => .binary tok (.num l) (.num r)

/-- `reduceBinaryExprNumberLHS`. -/
def reduceNumLHS (tok : Token) (l : F) (rhs : RExpr F) : RExpr F :=
  match rhs with
  | .num r => reduceNumNum A tok l r
  | .int r =>
    match BinOp.ofToken tok with
    | .add => .num (A.add l (A.ofInt r))
    | .sub => .num (A.sub l (A.ofInt r))
    | .mul => .num (A.mul l (A.ofInt r))
    | .div => if A.eq (A.ofInt r) A.zero then .num A.zero else .num (A.div l (A.ofInt r))
    | .mod => .num (A.mod l (A.ofInt r))
    | .eq => .bool (A.eq l (A.ofInt r))
    | .neq => .bool (!A.eq l (A.ofInt r))
    | .gt => .bool (A.lt (A.ofInt r) l)
    | .gte => .bool (A.le (A.ofInt r) l)
    | .lt => .bool (A.lt l (A.ofInt r))
    | .lte => .bool (A.le l (A.ofInt r))
    | _ => .binary tok (.num l) rhs
  | .uint r => reduceNumNum A tok l (A.ofNat r)
  | .nil => .bool false
  | _ => .binary tok (.num l) rhs

/-- `reduceBinaryExprUnsignedLHS` with an unsigned on the right. -/
def reduceUintUint (tok : Token) (l r : Nat) : RExpr F :=
  match BinOp.ofToken tok with
  | .add => .uint (uAdd l r)
  | .sub => .uint (uSub l r)
  | .mul => .uint (uMul l r)
  | .div => if r == 0 then .uint 0 else .uint (l / r)
  | .mod => if r == 0 then .uint 0 else .uint (l % r)
  | .eq => .bool (l == r)
  | .neq => .bool (l != r)
  | .gt => .bool (decide (l > r))
  | .gte => .bool (decide (l ≥ r))
  | .lt => .bool (decide (l < r))
  | .lte => .bool (decide (l ≤ r))
  | _ => .binary tok (.uint l) (.uint r)

/-- `reduceBinaryExprUnsignedLHS`. -/
def reduceUintLHS (tok : Token) (l : Nat) (rhs : RExpr F) : RExpr F :=
  match rhs with
  | .num r => reduceNumLHS A tok (A.ofNat l) (.num r)
  | .int r =>
    if r < 0 ∧ (BinOp.ofToken tok = .lt ∨ BinOp.ofToken tok = .lte) then .bool false
    else if r < 0 ∧ (BinOp.ofToken tok = .gt ∨ BinOp.ofToken tok = .gte) then .bool true
    else reduceUintUint tok l (toU64 r)
  | .uint r => reduceUintUint tok l r
  | _ => .binary tok (.uint l) rhs

/-- `reduceBinaryExprNilLHS`. -/
def reduceNilLHS (tok : Token) (rhs : RExpr F) : RExpr F :=
  match BinOp.ofToken tok with
  | .eq | .neq => .bool false
  | _ => .binary tok .nil rhs

/-- `reduceBinaryExprTimeLHS` with a duration or a time on the right. -/
def reduceTimeLHS₀ (tok : Token) (l : Int) (rhs : RExpr F) : RExpr F :=
  match rhs with
  | .dur r =>
    match BinOp.ofToken tok with
    | .add => .time (l + r)
    | .sub => .time (l + wrap64 (-r))
    | _ => .binary tok (.time l) rhs
  | .time r =>
    match BinOp.ofToken tok with
    | .sub => .dur (timeSub l r)
    | .eq => .bool (l == r)
    | .neq => .bool (l != r)
    | .gt => .bool (decide (l > r))
    | .gte => .bool (decide (l > r) || l == r)
    | .lt => .bool (decide (l < r))
    | .lte => .bool (decide (l < r) || l == r)
    | _ => .binary tok (.time l) rhs
  | _ => .binary tok (.time l) rhs

/-- `reduceBinaryExprTimeLHS`. -/
def reduceTimeLHS (loc : Int) (tok : Token) (l : Int) (rhs : RExpr F) : RExpr F :=
  match rhs with
  | .dur _ | .time _ => reduceTimeLHS₀ tok l rhs
  | .int r =>
    let e := reduceTimeLHS₀ (F := F) tok l (.dur r)
    if e.isBinary then .binary tok (.time l) rhs else e
  | .str s =>
    match S.toTime loc s with
    | none => .binary tok (.time l) rhs
    | some t =>
      let e := reduceTimeLHS₀ (F := F) tok l (.time t)
      if e.isBinary then .binary tok (.time l) rhs else e
  | .nil => .bool false
  | _ => .binary tok (.time l) rhs

/-- `reduceBinaryExprIntegerLHS`. -/
def reduceIntLHS (loc : Int) (tok : Token) (l : Int) (rhs : RExpr F) : RExpr F :=
  match rhs with
  | .num r => reduceNumLHS A tok (A.ofInt l) (.num r)
  | .int r =>
    match BinOp.ofToken tok with
    | .add => .int (wrap64 (l + r))
    | .sub => .int (wrap64 (l - r))
    | .mul => .int (wrap64 (l * r))
    | .div => if r == 0 then .num A.zero else .num (A.div (A.ofInt l) (A.ofInt r))
    | .mod => if r == 0 then .int 0 else .int (l.tmod r)
    | .band => .int (iAnd l r)
    | .bor => .int (iOr l r)
    | .bxor => .int (iXor l r)
    | .eq => .bool (l == r)
    | .neq => .bool (l != r)
    | .gt => .bool (decide (l > r))
    | .gte => .bool (decide (l ≥ r))
    | .lt => .bool (decide (l < r))
    | .lte => .bool (decide (l ≤ r))
    | _ => .binary tok (.int l) rhs
  | .uint r =>
    if l < 0 ∧ (BinOp.ofToken tok = .lt ∨ BinOp.ofToken tok = .lte) then .bool true
    else if l < 0 ∧ (BinOp.ofToken tok = .gt ∨ BinOp.ofToken tok = .gte) then .bool false
    else reduceUintLHS A tok (toU64 l) (.uint r)
  | .dur r =>
    match BinOp.ofToken tok with
    | .add => .time (l + r)
    | .sub => .time (l + wrap64 (-r))
    | _ => .binary tok (.int l) rhs
  | .time r =>
    let e := reduceDurLHS A S loc tok l (.time r)
    if e.isBinary then .binary tok (.int l) rhs else e
  | .str s =>
    match S.toTime loc s with
    | none => .binary tok (.int l) rhs
    | some t =>
      let e := reduceDurLHS A S loc tok l (.time t)
      if e.isBinary then .binary tok (.int l) rhs else e
  | .nil => .bool false
  | _ => .binary tok (.int l) rhs

/-- The string-vs-string equality tests of `reduceBinaryExprStringLHS`: the plain comparison
`base`, replaced by the comparison of the two instants when both strings look like dates and
both convert. -/
def reduceStrEq (loc : Int) (tok : Token) (l r : Str) (base : Bool) : RExpr F :=
  if S.isTimeLit l && S.isTimeLit r then
    match S.toTime loc l with
    | none => .bool base
    | some tl =>
      match S.toTime loc r with
      | none => .bool base
      | some tr =>
        let t := reduceTimeLHS (F := F) S loc tok tl (.time tr)
        if t.isBinary then .bool base else t
  else .bool base

/-- The "attempt to convert the string literal to a time literal" tail shared by four cases of
`reduceBinaryExprStringLHS`. -/
def reduceStrAsTime (loc : Int) (tok : Token) (l : Str) (rhs : RExpr F) : RExpr F :=
  match S.toTime loc l with
  | none => .binary tok (.str l) rhs
  | some t =>
    let e := reduceTimeLHS S loc tok t rhs
    if e.isBinary then .binary tok (.str l) rhs else e

/-- `reduceBinaryExprStringLHS`. -/
def reduceStrLHS (loc : Int) (tok : Token) (l : Str) (rhs : RExpr F) : RExpr F :=
  match rhs with
  | .str r =>
    match BinOp.ofToken tok with
    | .eq => reduceStrEq S loc tok l r (l == r)
    | .neq => reduceStrEq S loc tok l r (l != r)
    | .add => .str (l ++ r)
    | _ => reduceStrAsTime S loc tok l rhs
  | .dur _ | .time _ | .int _ => reduceStrAsTime S loc tok l rhs
  | .nil =>
    match BinOp.ofToken tok with
    | .eq | .neq => .bool false
    | _ => .binary tok (.str l) rhs
  | _ => .binary tok (.str l) rhs

/-- The type switch at the end of `reduceBinaryExpr`. -/
def reduceDispatch (loc : Int) (tok : Token) (lhs rhs : RExpr F) : RExpr F :=
  match lhs with
  | .bool l => reduceBoolLHS tok l rhs
  | .dur l => reduceDurLHS A S loc tok l rhs
  | .int l => reduceIntLHS A S loc tok l rhs
  | .uint l => reduceUintLHS A tok l rhs
  | .nil => reduceNilLHS tok rhs
  | .num l => reduceNumLHS A tok l rhs
  | .str l => reduceStrLHS S loc tok l rhs
  | .time l => reduceTimeLHS S loc tok l rhs
  | _ => .binary tok lhs rhs

/-- `reduceBinaryExpr` after both sides have been reduced. -/
def reduceBinary (loc : Int) (tok : Token) (lhs rhs : RExpr F) : RExpr F :=
  match BinOp.ofToken tok with
  | .and =>
    if lhs.isFalseLiteral || rhs.isFalseLiteral then .bool false
    else if lhs.isTrueLiteral then rhs
    else if rhs.isTrueLiteral then lhs
    else reduceDispatch A S loc tok lhs rhs
  | .or =>
    if lhs.isTrueLiteral || rhs.isTrueLiteral then .bool true
    else if lhs.isFalseLiteral then rhs
    else if rhs.isFalseLiteral then lhs
    else reduceDispatch A S loc tok lhs rhs
  | _ => reduceDispatch A S loc tok lhs rhs

mutual
  /-- `reduce`. -/
  def reduce (V : Valuer F) : RExpr F → RExpr F
    | .binary tok l r => reduceBinary A S (V.zone.getD 0) tok (reduce V l) (reduce V r)
    | .call name args =>
      let args' := reduceArgs V args
      if args'.all RExpr.isLiteral then
        match V.call with
        | some f =>
          match f name (args'.map (eval A S false Valuer.empty)) with
          | some v => asLiteral v
          | none => .call name args'
        | none => .call name args'
      else .call name args'
    | .paren e =>
      let sub := reduce V e
      if sub.isBinary then .paren sub else sub
    | .varRef val ty =>
      match V.value val with
      | some v => asLiteral v
      | none => .varRef val ty
    | e => e
  def reduceArgs (V : Valuer F) : List (RExpr F) → List (RExpr F)
    | [] => []
    | a :: rest => reduce V a :: reduceArgs V rest
end

/-- `Reduce`: `reduce`, then one pair of parentheses at the top is dropped. -/
def Reduce (V : Valuer F) (e : RExpr F) : RExpr F :=
  match reduce A S V e with
  | .paren x => x
  | x => x

end
end InfluxQL

import InfluxQL.Model.ParserStmt
import InfluxQL.Model.Columns
/-
C20 end to end from the statement text: `ParseStatement(text)` (statement parser model), the two
settings a caller applies to the parsed SELECT (`OmitTime`, `TimeAlias`: the parser leaves them at
their zero values), then `SelectStatement.ColumnNames()` (Model/Columns.lean).
-/
namespace InfluxQL

/-- `s.OmitTime = omitTime; s.TimeAlias = timeAlias` on a parsed SELECT (nothing else changes). -/
def SelectStmt.withTimeSettings (omitTime : Bool) (timeAlias : Str) : SelectStmt → SelectStmt
  | .mk f t d s c sf l o sl so r fi fv loc _ _ sn en dd =>
    .mk f t d s c sf l o sl so r fi fv loc timeAlias omitTime sn en dd

inductive ColumnsTextResult where
  | parseFail (f : Fail)        -- the parser rejects the text
  | notSelect                   -- the text is a statement of another type
  | outOfFuel                   -- the suffix loop of the model ran out of fuel (never: `columnNames_total`)
  | ok (names : List Str)

/-- `st := ParseStatement(text).(*SelectStatement); st.OmitTime, st.TimeAlias = …; st.ColumnNames()`. -/
def columnsOfText (text : Str) (params : List (Str × BoundValue)) (lowerTbl : List (Char × Char))
    (omitTime : Bool) (timeAlias : Str) : ColumnsTextResult :=
  match parseStatementText text params lowerTbl with
  | .error f => .parseFail f
  | .ok (.select s) =>
    match (s.withTimeSettings omitTime timeAlias).columnNames with
    | none => .outOfFuel
    | some names => .ok names
  | .ok _ => .notSelect

end InfluxQL

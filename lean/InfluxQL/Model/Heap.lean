/-
Heap model for C14 (clones are faithful and independent) and C17.

An AST lives in a heap of *cells*.  A cell is a struct of `ast.go` (type id + field values in
declaration order) or the backing array of a slice.  The address of a cell is its index in the
heap; allocation appends.  A field value is a plain value, a pointer to an (immutable) library
object, or a reference to another cell — nil or an address.  A slice-typed field refers to its
backing-array cell (nil and empty slices are identified: both are `ref none`).

`cloneAddr` is the generic interpreter of the per-field table regenerated from the clone routines
of ast.go (`Gen.Clone.cloneTable`): it does to every field what the table says the routine does.
Nothing in this file knows the table; the theorems in `Lemmas/Heap.lean` hold for every table that
satisfies the stated conditions and `Props/C14.lean` discharges the conditions for the generated one.

Abstractions (documented in notes/C14.md): scalars, strings, `time.Time` values and boxed
`interface{}` scalars are opaque `Int` codes; a library object is identified by a code of its
content (it has no mutable state the package can reach: this is the reviewed allow-list);
recursion over the heap graph uses fuel (`none` = out of fuel, a Go panic, or an ill-typed heap).
-/
import InfluxQL.Model.CloneTable

namespace InfluxQL.Heap
open InfluxQL.CloneTable

/-- A field value. -/
inductive FVal where
  /-- scalar / string / library value / boxed scalar, as an opaque code -/
  | val (v : Int)
  /-- pointer to a library object (`none` = nil), identified by a code of its content -/
  | lib (o : Option Nat)
  /-- pointer / interface / slice referring to a cell (`none` = nil) -/
  | ref (o : Option Nat)
  deriving DecidableEq, Repr

/-- `ty = some n`: struct number `n`; `ty = none`: backing array of a slice. -/
structure Cell where
  ty : Option Nat
  fields : List FVal
  deriving DecidableEq, Repr

/-- The heap: the address of a cell is its position. -/
abbrev Heap := List Cell

/-- Does a field value have the shape its declared kind prescribes? -/
def fits : Kind → FVal → Bool
  | .scalar, .val _ => true
  | .string, .val _ => true
  | .libValue _, .val _ => true
  | .boxed, .val _ => true
  | .ptrLib _, .lib _ => true
  | .ptrNode _, .ref _ => true
  | .ifaceNode _, .ref _ => true
  | .slice _, .ref _ => true
  | _, _ => false

/-- Kinds whose values are references to mutable cells. -/
def refKind : Kind → Bool
  | .ptrNode _ => true
  | .ifaceNode _ => true
  | .slice _ => true
  | _ => false

def isNilF : FVal → Bool
  | .lib none => true
  | .ref none => true
  | _ => false

/-- The zero value of the same shape (what a dropped field holds in the clone). -/
def zeroF : FVal → FVal
  | .val _ => .val 0
  | .lib _ => .lib none
  | .ref _ => .ref none

def findRow (t : List Row) (via ty : Nat) : Option Row :=
  t.find? fun r => r.routine == via && r.ty == ty

/-- Is field `i` of the cell at `a` nil? (the extra condition of a `needs` guard) -/
def innerNil (h : Heap) (a i : Nat) : Bool :=
  match h[a]? with
  | some c => match c.fields[i]? with
    | some f => isNilF f
    | none => false
  | none => false

/-- Result of cloning one object: new heap, address of the copy, and a flag that is set when a
`needs` guard replaced a non-nil pointer by nil (the one place where the code is not faithful). -/
abbrev CloneRec := Nat → Heap → Nat → Option (Heap × Nat × Bool)

/-- One element of a slice. -/
def cloneElem (rec : CloneRec) (ev : Option Nat) (g : Guard) (h : Heap) : FVal → Option (Heap × FVal × Bool)
  | .val v => match ev with
    | none => some (h, .val v, false)
    | some _ => none
  | .lib _ => none
  | .ref none => match ev, g with
    | some _, .nilOk => some (h, .ref none, false)
    | _, _ => none
  | .ref (some a) => match ev with
    | some via => match rec via h a with
      | some (h', a', q) => some (h', .ref (some a'), q)
      | none => none
    | none => none

def cloneElems (rec : CloneRec) (ev : Option Nat) (g : Guard) : Heap → List FVal → Option (Heap × List FVal × Bool)
  | h, [] => some (h, [], false)
  | h, v :: vs => match cloneElem rec ev g h v with
    | none => none
    | some (h1, v', q1) => match cloneElems rec ev g h1 vs with
      | none => none
      | some (h2, vs', q2) => some (h2, v' :: vs', q1 || q2)

/-- What the table says happens to one field. -/
def cloneField (rec : CloneRec) (h : Heap) (fr : FieldRow) (v : FVal) : Option (Heap × FVal × Bool) :=
  if fits fr.kind v then
    match fr.treat, v with
    | .copied, .val x => some (h, .val x, false)
    | .shared, v => some (h, v, false)
    | .dropped, v => some (h, zeroF v, false)
    | .deepLib, .lib o => some (h, .lib o, false)
    | .deep _ g, .ref none => match g with
      | .nilPanics => none
      | _ => some (h, .ref none, false)
    | .deep via g, .ref (some a) =>
      match g with
      | .needs i =>
        if innerNil h a i then some (h, .ref none, true)
        else match rec via h a with
          | some (h', a', q) => some (h', .ref (some a'), q)
          | none => none
      | _ => match rec via h a with
        | some (h', a', q) => some (h', .ref (some a'), q)
        | none => none
    | .deepSlice _ _, .ref none => some (h, .ref none, false)
    | .deepSlice ev g, .ref (some a) =>
      match h[a]? with
      | some ⟨none, elems⟩ => match cloneElems rec ev g h elems with
        | some (h1, elems', q) => some (h1 ++ [⟨none, elems'⟩], .ref (some h1.length), q)
        | none => none
      | _ => none
    | _, _ => none
  else none

def cloneFields (rec : CloneRec) : Heap → List FieldRow → List FVal → Option (Heap × List FVal × Bool)
  | h, [], [] => some (h, [], false)
  | h, fr :: frs, v :: vs => match cloneField rec h fr v with
    | none => none
    | some (h1, v', q1) => match cloneFields rec h1 frs vs with
      | none => none
      | some (h2, vs', q2) => some (h2, v' :: vs', q1 || q2)
  | _, _, _ => none

/-- `cloneAddr t fuel via h a`: run clone routine `via` of table `t` on the struct cell at `a`. -/
def cloneAddr (t : List Row) : Nat → CloneRec
  | 0, _, _, _ => none
  | fuel + 1, via, h, a =>
    match h[a]? with
    | some ⟨some ty, fs⟩ =>
      match findRow t via ty with
      | some row => match cloneFields (cloneAddr t fuel) h row.fields fs with
        | some (h1, fs', q) => some (h1 ++ [⟨some ty, fs'⟩], h1.length, q)
        | none => none
      | none => none
    | _ => none

/-! ### Address-free view: what "structurally identical" means -/

/-- The value structure below an address with all addresses forgotten. -/
inductive Tree where
  | val (v : Int)
  | lib (o : Option Nat)
  | nil
  | node (ty : Option Nat) (fs : List Tree)

def unfoldF (rec : Nat → Option Tree) : FVal → Option Tree
  | .val v => some (.val v)
  | .lib o => some (.lib o)
  | .ref none => some .nil
  | .ref (some a) => rec a

def unfoldFs (rec : Nat → Option Tree) : List FVal → Option (List Tree)
  | [] => some []
  | v :: vs => match unfoldF rec v with
    | none => none
    | some t => match unfoldFs rec vs with
      | none => none
      | some ts => some (t :: ts)

/-- Unfolding to depth `n` (`none` when deeper than `n` or dangling). -/
def unfold : Nat → Heap → Nat → Option Tree
  | 0, _, _ => none
  | n + 1, h, a =>
    match h[a]? with
    | some c => match unfoldFs (unfold n h) c.fields with
      | some ts => some (.node c.ty ts)
      | none => none
    | none => none

/-! ### Reachability, well-formedness -/

/-- `Reach h a x`: cell `x` is reachable from `a` through reference fields. -/
inductive Reach (h : Heap) : Nat → Nat → Prop where
  | refl (a : Nat) : Reach h a a
  | step {a b x : Nat} {c : Cell} : h[a]? = some c → FVal.ref (some b) ∈ c.fields → Reach h b x → Reach h a x

/-- No dangling references. -/
def WF (h : Heap) : Prop :=
  ∀ (a : Nat) (c : Cell), h[a]? = some c → ∀ r, FVal.ref (some r) ∈ c.fields → r < h.length

/-! ### Writes -/

/-- A heap mutation: overwrite field `i` of the cell at `a`, or allocate a new cell. -/
inductive Write where
  | set (a i : Nat) (v : FVal)
  | alloc (c : Cell)

def Write.apply (h : Heap) : Write → Heap
  | .set a i v => match h[a]? with
    | some c => h.set a { c with fields := c.fields.set i v }
    | none => h
  | .alloc c => h ++ [c]

def applyAll (h : Heap) (ws : List Write) : Heap := ws.foldl Write.apply h

/-- A history all of whose writes stay inside region `A`: every overwritten cell is in `A`, every
stored reference points into `A`, and cells allocated on the way join `A`. -/
def Confined : (Nat → Prop) → Heap → List Write → Prop
  | _, _, [] => True
  | A, h, .set a i v :: ws =>
    A a ∧ (∀ r, v = .ref (some r) → A r) ∧ Confined A (Write.apply h (.set a i v)) ws
  | A, h, .alloc c :: ws =>
    (∀ r, FVal.ref (some r) ∈ c.fields → A r) ∧ Confined (fun x => A x ∨ x = h.length) (h ++ [c]) ws

/-- An interleaved history of two sides (`true` = left, owning region `A`; `false` = right, owning
`B`): every write is confined to the region of the side that makes it. -/
def Confined2 : (Nat → Prop) → (Nat → Prop) → Heap → List (Bool × Write) → Prop
  | _, _, _, [] => True
  | A, B, h, (true, .set a i v) :: ws =>
    A a ∧ (∀ r, v = .ref (some r) → A r) ∧ Confined2 A B (Write.apply h (.set a i v)) ws
  | A, B, h, (true, .alloc c) :: ws =>
    (∀ r, FVal.ref (some r) ∈ c.fields → A r) ∧ Confined2 (fun x => A x ∨ x = h.length) B (h ++ [c]) ws
  | A, B, h, (false, .set a i v) :: ws =>
    B a ∧ (∀ r, v = .ref (some r) → B r) ∧ Confined2 A B (Write.apply h (.set a i v)) ws
  | A, B, h, (false, .alloc c) :: ws =>
    (∀ r, FVal.ref (some r) ∈ c.fields → B r) ∧ Confined2 A (fun x => B x ∨ x = h.length) (h ++ [c]) ws

/-- What the left side would have done alone: the right side's overwrites are dropped and its
allocations replaced by an empty placeholder cell (so that addresses stay comparable). -/
def projLeft : List (Bool × Write) → List Write
  | [] => []
  | (true, w) :: ws => w :: projLeft ws
  | (false, .set _ _ _) :: ws => projLeft ws
  | (false, .alloc _) :: ws => .alloc ⟨none, []⟩ :: projLeft ws

/-! ### Conditions on a table (all decidable; discharged by `decide` on the generated table) -/

/-- No reference to a mutable cell is copied as is. -/
def noSharedRefs (t : List Row) : Bool :=
  t.all fun r => r.fields.all fun f => !(f.treat == .shared && refKind f.kind)

/-- Nothing is dropped. -/
def noDrop (t : List Row) : Bool :=
  t.all fun r => r.fields.all fun f => !(f.treat == .dropped)

/-- No guard stronger than a nil check. -/
def noNeeds (t : List Row) : Bool :=
  t.all fun r => r.fields.all fun f =>
    match f.treat with
    | .deep _ (.needs _) => false
    | _ => true

end InfluxQL.Heap

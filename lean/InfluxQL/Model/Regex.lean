import InfluxQL.Gen.Regex
import InfluxQL.Model.Ast
/-
Regex-to-literal rewriting (`SelectStatement.RewriteRegexConditions`, `matchExactRegex`,
`matchRegex`, `isEncodableRune`, `RewriteExpr` in ast.go) — property C11.

* `Rx.Regex` mirrors the fields of Go's `regexp/syntax.Regexp` that the code reads (`Op`,
  `Flags`, `Rune`, `Sub`) as they are after `syntax.Parse(src, syntax.Perl).Simplify()`.
  Parsing and simplification are executed in Go (oracle call); the tree is what the model gets.
* `matchRegex`/`matchExactTree` are the code, case by case. On trees that break the invariants
  of `regexp/syntax` (a capture or concatenation without sub-expression, a class with an odd
  number of bounds or a bound pair `lo > hi`) the Go code panics or counts differently; the
  model is total there and `Regex.wf` names the invariants (checked on every shipped tree).
* `matchB re pre mid post` is the denotational semantics: does `re` match `mid` when `pre`
  precedes and `post` follows it in the subject string (the context is what the anchors and
  word boundaries look at). `FullMatch`, `Search` are derived; `Search` is what
  `regexp.MatchString` decides.
* `rewriteExpr`/`rewriteCondition` are `RewriteExpr` with the callback of
  `RewriteRegexConditions`, and `eval` the fragment of `ValuerEval.Eval` needed to state that
  the rewritten condition accepts the same values.
-/
namespace InfluxQL.Rx
open InfluxQL Gen

/-- `syntax.Op`, in declaration order (`OpNoMatch = 1` … `OpAlternate = 19`). -/
inductive Op where
  | noMatch | emptyMatch | literal | charClass | anyCharNotNL | anyChar | beginLine | endLine
  | beginText | endText | wordBoundary | noWordBoundary | capture | star | plus | quest | repeat_
  | concat | alternate
  deriving DecidableEq, Repr, Inhabited

def Op.toNat : Op → Nat
  | .noMatch => 1 | .emptyMatch => 2 | .literal => 3 | .charClass => 4 | .anyCharNotNL => 5
  | .anyChar => 6 | .beginLine => 7 | .endLine => 8 | .beginText => 9 | .endText => 10
  | .wordBoundary => 11 | .noWordBoundary => 12 | .capture => 13 | .star => 14 | .plus => 15
  | .quest => 16 | .repeat_ => 17 | .concat => 18 | .alternate => 19

def Op.all : List Op :=
  [.noMatch, .emptyMatch, .literal, .charClass, .anyCharNotNL, .anyChar, .beginLine, .endLine,
   .beginText, .endText, .wordBoundary, .noWordBoundary, .capture, .star, .plus, .quest, .repeat_,
   .concat, .alternate]

def Op.ofNat? (n : Nat) : Option Op := Op.all.find? (fun o => o.toNat == n)

/-- `*syntax.Regexp`: operator, flags, runes (literal text, or class bounds `lo hi lo hi …`),
sub-expressions. -/
inductive Regex where
  | mk (op : Op) (flags : Nat) (rune : List Nat) (sub : List Regex)
  deriving Repr, Inhabited

def Regex.op : Regex → Op | .mk o _ _ _ => o
def Regex.flags : Regex → Nat | .mk _ f _ _ => f
def Regex.rune : Regex → List Nat | .mk _ _ r _ => r
def Regex.sub : Regex → List Regex | .mk _ _ _ s => s

/-- `re.Flags & syntax.FoldCase != 0` (`FoldCase = 1`, regenerated as `foldGuardFlag`). -/
def hasFold (flags : Nat) : Bool := flags % (2 * foldGuardFlag) ≥ foldGuardFlag

/-! ## `isEncodableRune`, `string(rune)` -/

/-- `utf8.ValidRune(r) && r != utf8.RuneError` (runes are non-negative here). -/
def isEncodableRune (r : Nat) : Bool :=
  (r < 0xD800 || (0xDFFF < r && r ≤ 0x10FFFF)) && r != runeError

/-- `string(rune(r))`: the rune itself, U+FFFD for a value that is not a Unicode scalar. -/
def goChar (r : Nat) : Char := if r.isValidChar then Char.ofNat r else Char.ofNat 0xFFFD

/-- `string(re.Rune)`. -/
def runesToStr (rs : List Nat) : Str := rs.map goChar

/-! ## `matchRegex` -/

/-- `sz` of the `OpCharClass` case: `Σ hi - lo + 1` over the bound pairs. -/
def classSize : List Nat → Nat
  | lo :: hi :: rest => (hi + 1 - lo) + classSize rest
  | _ => 0

/-- The members `lo … hi` of one range as one-rune strings; `none` if one is not encodable. -/
def rangeStrs (lo : Nat) : Nat → Option (List Str)
  | 0 => some []
  | n + 1 =>
    if isEncodableRune lo then (rangeStrs (lo + 1) n).map ([goChar lo] :: ·) else none

/-- The enumeration loop of the `OpCharClass` case. -/
def classStrs : List Nat → Option (List Str)
  | lo :: hi :: rest =>
    match rangeStrs lo (hi + 1 - lo) with
    | none => none
    | some a => (classStrs rest).map (a ++ ·)
  | _ => some []

/-- One round of the concatenation loop: the three strategies, the limit check only in the third. -/
def concatStep (names vals : List Str) : Option (List Str) :=
  match vals with
  | [v] => some (names.map (· ++ v))
  | _ =>
    match names with
    | [n] => some (vals.map (n ++ ·))
    | _ =>
      if names.length * vals.length > maxLiterals then none
      else some (names.flatMap fun n => vals.map fun v => n ++ v)

mutual
  /-- `matchRegex`: `some L` = `(L, true)`, `none` = `(nil, false)`. -/
  def matchRegex : Regex → Option (List Str)
    | .mk op flags rune sub =>
      if hasFold flags then none else
      match op with
      | .literal => if rune.all isEncodableRune then some [runesToStr rune] else none
      | .capture => matchFirst sub
      | .concat => matchConcat sub
      | .charClass =>
        if classSize rune > maxLiterals || classSize rune == 0 then none else classStrs rune
      | .alternate =>
        match matchAlt sub with
        | none => none
        | some names => if names.length > maxLiterals then none else some names
      | _ => none
  /-- `matchRegex(re.Sub[0])` (Go panics on an empty `Sub`; never produced by `syntax.Parse`). -/
  def matchFirst : List Regex → Option (List Str)
    | [] => none
    | r :: _ => matchRegex r
  /-- The `OpConcat` case: `names` from `Sub[0]`, then the loop over `Sub[1:]`. -/
  def matchConcat : List Regex → Option (List Str)
    | [] => none
    | r :: rest =>
      match matchRegex r with
      | none => none
      | some names => concatLoop names rest
  def concatLoop (names : List Str) : List Regex → Option (List Str)
    | [] => some names
    | r :: rest =>
      match matchRegex r with
      | none => none
      | some vals =>
        match concatStep names vals with
        | none => none
        | some names' => concatLoop names' rest
  /-- The loop of the `OpAlternate` case (the limit is checked after the loop). -/
  def matchAlt : List Regex → Option (List Str)
    | [] => some []
    | r :: rest =>
      match matchRegex r with
      | none => none
      | some vals => (matchAlt rest).map (vals ++ ·)
end

/-- `matchExactRegex` after `syntax.Parse(v, syntax.Perl)` succeeded and `Simplify()` ran:
`some []` is the `/^$/` answer `(nil, true)`. -/
def matchExactTree : Regex → Option (List Str)
  | .mk op flags rune sub =>
    if op ≠ .concat then none
    else if sub.length < 2 then none
    else if (sub.head?.map Regex.op) ≠ some .beginText then none
    else if (sub.getLast?.map Regex.op) ≠ some .endText then none
    else
      let inner := (sub.drop 1).dropLast
      if inner.isEmpty then some [] else matchRegex (.mk op flags rune inner)

/-- `matchExactRegex(src)`; `parseRe` stands for `syntax.Parse(src, syntax.Perl)` + `Simplify()`
(`none` = syntax error). -/
def matchExact (parseRe : Str → Option Regex) (src : Str) : Option (List Str) :=
  match parseRe src with
  | none => none
  | some re => matchExactTree re

/-- Invariants of trees produced by `regexp/syntax` that the Go code relies on. -/
def classWf : List Nat → Bool
  | lo :: hi :: rest => decide (lo ≤ hi) && classWf rest
  | [] => true
  | [_] => false

mutual
  def Regex.wf : Regex → Bool
    | .mk op _ rune sub =>
      (match op with
       | .charClass => classWf rune && sub.isEmpty
       | .capture | .star | .plus | .quest | .repeat_ => sub.length == 1
       | .concat | .alternate => sub.length ≥ 1
       | _ => sub.isEmpty) && wfAll sub
  def wfAll : List Regex → Bool
    | [] => true
    | r :: rest => r.wf && wfAll rest
end

/-! ## Semantics -/

/-- All ways to cut a string in two. -/
def splits : Str → List (Str × Str)
  | [] => [([], [])]
  | c :: cs => ([], c :: cs) :: (splits cs).map fun p => (c :: p.1, p.2)

/-- Class membership: `Rune` is a list of inclusive bound pairs. -/
def classMem (c : Nat) : List Nat → Bool
  | lo :: hi :: rest => (decide (lo ≤ c) && decide (c ≤ hi)) || classMem c rest
  | _ => false

/-- `syntax.IsWordChar`. -/
def isWordChar (c : Char) : Bool :=
  ('A' ≤ c && c ≤ 'Z') || ('a' ≤ c && c ≤ 'z') || ('0' ≤ c && c ≤ '9') || c == '_'

def lastIsWord (pre : Str) : Bool := match pre.getLast? with | some c => isWordChar c | none => false
def headIsWord (post : Str) : Bool := match post.head? with | some c => isWordChar c | none => false

/-- Are the runes `r` (of the pattern) and `c` (of the subject) in one `unicode.SimpleFold`
orbit? Complete for `r < 0x80`: ASCII letters pair with their other case, `K k U+212A` and
`S s U+017F` form orbits of three. (Fold-case literals with other runes are outside the
validated semantics, see `supported`.) -/
def foldEq (r c : Nat) : Bool :=
  let up (x : Nat) : Nat := if 97 ≤ x ∧ x ≤ 122 then x - 32 else if x = 0x212A then 75 else if x = 0x17F then 83 else x
  (65 ≤ up r && up r ≤ 90) && up r == up c

/-- A literal against a string, rune by rune. -/
def litMatch (fold : Bool) : List Nat → Str → Bool
  | [], [] => true
  | r :: rs, c :: cs => (c.toNat == r || (fold && foldEq r c.toNat)) && litMatch fold rs cs
  | _, _ => false

/-- Kleene star of a context-aware matcher: `mid` is cut into non-empty pieces (empty iterations
add nothing), each matched in its own context. `fuel ≥ mid.length` suffices. -/
def starB (f : Str → Str → Str → Bool) : Nat → Str → Str → Str → Bool
  | 0, _, mid, _ => mid.isEmpty
  | fuel + 1, pre, mid, post =>
    mid.isEmpty || (splits mid).any fun p =>
      !p.1.isEmpty && f pre p.1 (p.2 ++ post) && starB f fuel (pre ++ p.1) p.2 post

mutual
  /-- `matchB re pre mid post`: `re` matches exactly `mid`, standing between `pre` and `post`. -/
  def matchB : Regex → Str → Str → Str → Bool
    | .mk op flags rune sub => fun pre mid post =>
      match op with
      | .noMatch => false
      | .emptyMatch => mid.isEmpty
      | .literal => litMatch (hasFold flags) rune mid
      | .charClass => match mid with | [c] => classMem c.toNat rune | _ => false
      | .anyCharNotNL => match mid with | [c] => c != '\n' | _ => false
      | .anyChar => match mid with | [_] => true | _ => false
      | .beginLine => mid.isEmpty && (pre.isEmpty || pre.getLast? == some '\n')
      | .endLine => mid.isEmpty && (post.isEmpty || post.head? == some '\n')
      | .beginText => mid.isEmpty && pre.isEmpty
      | .endText => mid.isEmpty && post.isEmpty
      | .wordBoundary => mid.isEmpty && (lastIsWord pre != headIsWord post)
      | .noWordBoundary => mid.isEmpty && (lastIsWord pre == headIsWord post)
      | .capture => matchFirstB sub pre mid post
      | .star => starB (matchFirstB sub) mid.length pre mid post
      | .plus => (splits mid).any fun p =>
          matchFirstB sub pre p.1 (p.2 ++ post) && starB (matchFirstB sub) p.2.length (pre ++ p.1) p.2 post
      | .quest => mid.isEmpty || matchFirstB sub pre mid post
      | .repeat_ => false
      | .concat => matchConcatB sub pre mid post
      | .alternate => matchAltB sub pre mid post
  def matchFirstB : List Regex → Str → Str → Str → Bool
    | [] => fun _ _ _ => false
    | r :: _ => matchB r
  def matchConcatB : List Regex → Str → Str → Str → Bool
    | [] => fun _ mid _ => mid.isEmpty
    | r :: rest => fun pre mid post =>
      (splits mid).any fun p => matchB r pre p.1 (p.2 ++ post) && matchConcatB rest (pre ++ p.1) p.2 post
  def matchAltB : List Regex → Str → Str → Str → Bool
    | [] => fun _ _ _ => false
    | r :: rest => fun pre mid post => matchB r pre mid post || matchAltB rest pre mid post
end

/-- `re` matches the whole of `s`. -/
def FullMatch (re : Regex) (s : Str) : Prop := matchB re [] s [] = true

/-- `re` matches somewhere in `s`: what `regexp.MatchString` decides. -/
def Search (re : Regex) (s : Str) : Prop :=
  ∃ pre mid post, s = pre ++ (mid ++ post) ∧ matchB re pre mid post = true

/-- Executable `Search`. -/
def searchB (re : Regex) (s : Str) : Bool :=
  (splits s).any fun p => (splits p.2).any fun q => matchB re p.1 q.1 q.2

mutual
  /-- Trees on which `matchB` is validated against Go: no `OpRepeat` (gone after `Simplify`),
  literal runes are Unicode scalars (`regexp` itself is inconsistent on surrogates), fold-case
  literals are ASCII. -/
  def supported : Regex → Bool
    | .mk op flags rune sub =>
      (match op with
       | .repeat_ => false
       | .literal => rune.all fun r => r.isValidChar && (!hasFold flags || r < 0x80)
       | _ => true) && supportedAll sub
  def supportedAll : List Regex → Bool
    | [] => true
    | r :: rest => supported r && supportedAll rest
end

/-! ## The rewrite of conditions -/

/-- The loop building `(lhs op v0) cop (lhs op v1) cop …`, left-nested. -/
def chain (op cop : Token) (lhs : Expr) : Expr → List Str → Expr
  | acc, [] => acc
  | acc, v :: vs => chain op cop lhs (.binary cop acc (.binary op lhs (.string v))) vs

/-- What replaces `lhs =~ /…/` (`op = EQ`, `cop = OR`) or `lhs !~ /…/` (`NEQ`, `AND`) for the
literal list `vals`. -/
def literalTests (op cop : Token) (lhs : Expr) : List Str → Expr
  | [] => .binary op lhs (.string [])
  | [v] => .binary op lhs (.string v)
  | v :: vs => .paren (chain op cop lhs (.binary op lhs (.string v)) vs)

/-- The callback of `RewriteRegexConditions`. (`be.RHS.(*RegexLiteral)` panics in Go when the
right operand of a regex operator is no regex literal; the parser never builds that, the model
leaves such a node alone.) -/
def rewriteNode (exact : Str → Option (List Str)) : Expr → Expr
  | .binary op lhs (.regex src) =>
    if op = .EQREGEX then
      match exact src with
      | none => .binary op lhs (.regex src)
      | some vals => literalTests .EQ .OR lhs vals
    else if op = .NEQREGEX then
      match exact src with
      | none => .binary op lhs (.regex src)
      | some vals => literalTests .NEQ .AND lhs vals
    else .binary op lhs (.regex src)
  | e => e

mutual
  /-- `RewriteExpr(expr, fn)`: children first (operands of binary expressions, the inside of
  parentheses, call arguments), then the node itself. -/
  def rewriteExpr (exact : Str → Option (List Str)) : Expr → Expr
    | .binary op l r => rewriteNode exact (.binary op (rewriteExpr exact l) (rewriteExpr exact r))
    | .paren e => .paren (rewriteExpr exact e)
    | .call name args => .call name (rewriteArgs exact args)
    | e => e
  def rewriteArgs (exact : Str → Option (List Str)) : List Expr → List Expr
    | [] => []
    | a :: rest => rewriteExpr exact a :: rewriteArgs exact rest
end

/-- "Unwrap any top level parenthesis". -/
def stripParen : Expr → Expr
  | .paren e => e
  | e => e

/-- `s.Condition` after `RewriteRegexConditions` (`none` = no WHERE clause). -/
def rewriteCondition (parseRe : Str → Option Regex) (c : Option Expr) : Option Expr :=
  c.map fun e => stripParen (rewriteExpr (matchExact parseRe) e)

/-- `SelectStatement.RewriteRegexConditions`. -/
def rewriteRegexConditions (parseRe : Str → Option Regex) : SelectStmt → SelectStmt
  | .mk f t d s c sf l o sl so raw fill fv loc ta ot sn en dd =>
    .mk f t d s (rewriteCondition parseRe c) sf l o sl so raw fill fv loc ta ot sn en dd

/-! ## Evaluation of conditions (fragment of `ValuerEval.Eval`) -/

/-- One unit of a Go string as the UTF-8 decoder cuts it: an encoded scalar or a stray byte.
Equal strings have equal unit sequences; `regexp` reads a stray byte as U+FFFD. -/
inductive GoUnit where
  | ch (c : Char)
  | bad (byte : Nat)
  deriving DecidableEq, Repr

abbrev GoStr := List GoUnit

def GoUnit.decode : GoUnit → Char
  | .ch c => c
  | .bad _ => Char.ofNat 0xFFFD

/-- The rune sequence `regexp` sees. -/
def decodeStr (x : GoStr) : Str := x.map GoUnit.decode

/-- The Go string written by a literal of the query text (always valid UTF-8). -/
def ofStr (s : Str) : GoStr := s.map GoUnit.ch

/-- Values as far as this fragment tells them apart: `nil`, a bool, a string, anything else
(numbers, times, durations, regexes). -/
inductive Val where
  | nil | bool (b : Bool) | str (s : GoStr) | other
  deriving DecidableEq, Repr

/-- `evalBinaryExpr` for `AND` (`isOr = false`) / `OR` (`isOr = true`): nil is cast to false
next to a bool; a bool on the left with a non-bool on the right gives false; any other left
operand gives nil. -/
def evalLogic (isOr : Bool) : Val → Val → Val
  | .bool a, .bool b => .bool (if isOr then a || b else a && b)
  | .nil, .bool b => .bool (if isOr then false || b else false && b)
  | .bool a, .nil => .bool (if isOr then a || false else a && false)
  | .bool _, _ => .bool false
  | _, _ => .nil

/-- `lhs = 'lit'` (`neg = false`) / `lhs != 'lit'`: string comparison for strings, `false`
for every other left operand. -/
def evalStrCmp (neg : Bool) (v : Val) (lit : Str) : Val :=
  match v with
  | .str x => .bool (if neg then x ≠ ofStr lit else x = ofStr lit)
  | _ => .bool false

/-- `lhs =~ re` / `lhs !~ re`: `MatchString` for strings, `nil` for every other left operand. -/
def evalRegexCmp (matchStr : Str → GoStr → Bool) (neg : Bool) (v : Val) (src : Str) : Val :=
  match v with
  | .str x => .bool (if neg then !matchStr src x else matchStr src x)
  | _ => .nil

/-- The fragment of `ValuerEval.Eval` that the rewrite touches. Every other node — variable
references, literals, calls, arithmetic, other comparisons — has the value `atom` gives it
(i.e. whatever the real evaluator computes for it; the theorems hold for every `atom`).
`matchStr src x` stands for `regexp.MustCompile(src).MatchString(x)`. -/
def eval (matchStr : Str → GoStr → Bool) (atom : Expr → Val) : Expr → Val
  | .binary op l r =>
    if op = .AND then evalLogic false (eval matchStr atom l) (eval matchStr atom r)
    else if op = .OR then evalLogic true (eval matchStr atom l) (eval matchStr atom r)
    else match r with
      | .string lit =>
        if op = .EQ then evalStrCmp false (eval matchStr atom l) lit
        else if op = .NEQ then evalStrCmp true (eval matchStr atom l) lit
        else atom (.binary op l r)
      | .regex src =>
        if op = .EQREGEX then evalRegexCmp matchStr false (eval matchStr atom l) src
        else if op = .NEQREGEX then evalRegexCmp matchStr true (eval matchStr atom l) src
        else atom (.binary op l r)
      | _ => atom (.binary op l r)
  | .paren e => eval matchStr atom e
  | e => atom e

/-- `EvalBool`: true exactly for the boolean `true`. -/
def truthy : Val → Bool
  | .bool true => true
  | _ => false

end InfluxQL.Rx

import InfluxQL.Model.Cond
/-
Declarative side of C10: what a WHERE condition means at a point, which conditions are in the
property's class, and what a time operand denotes. Nothing here is taken from `conditionExpr`.

A point is a timestamp `t : Int` plus an evaluation of the predicates on tags and fields.
The latter is a function `L : Expr → Bool` giving the truth value of every predicate that is not
a time comparison (for the implementation: `fun p => EvalBool(p, fields-and-tags of the point)`);
the theorems hold for every `L`, hence for every point and every evaluation function that is
compositional over `AND`, `OR` and parentheses (Go's `Eval` is, on predicates that are
comparisons: a comparison always yields a `bool`).
-/
namespace InfluxQL
open Gen
open InfluxQL.CondTime

/-- `a ⋈ b` on instants for the five comparison operators. -/
def cmpInstant (op : Token) (a b : Int) : Bool :=
  match op with
  | .EQ => a == b
  | .LT => decide (a < b)
  | .LTE => decide (a ≤ b)
  | .GT => decide (a > b)
  | .GTE => decide (a ≥ b)
  | _ => false

def isCmpOp (op : Token) : Bool :=
  op == .EQ || op == .LT || op == .LTE || op == .GT || op == .GTE

def int64OK (i : Int) : Bool := decide (minInt64 ≤ i) && decide (i ≤ maxInt64)

/-- The instant a time operand denotes: integer nanoseconds, a number (truncated to whole
nanoseconds), a duration since the epoch, a date / date-time / RFC3339 string in the session's
zone, `now()`, `now() ± duration`. -/
def instant (c : RCtx) : Expr → Option Int
  | .integer i => some i
  | .number d => some d.toInt64
  | .duration d => some d
  | .string s => if isTimeLiteral s then toTimeLiteral s c.zoneOpt else none
  | .call ['n', 'o', 'w'] [] => c.valuer.map (·.now)
  | .binary .ADD (.call ['n', 'o', 'w'] []) (.duration d) => c.valuer.map (·.now + d)
  | .binary .SUB (.call ['n', 'o', 'w'] []) (.duration d) => c.valuer.map (·.now - d)
  | _ => none

/-- The literal forms of the property (integers and durations are `int64` values, as the parser
produces them). -/
def timeOperand : Expr → Bool
  | .integer i => int64OK i
  | .number _ => true
  | .duration d => int64OK d
  | .string s => isTimeLiteral s
  | .call ['n', 'o', 'w'] [] => true
  | .binary .ADD (.call ['n', 'o', 'w'] []) (.duration d) => int64OK d
  | .binary .SUB (.call ['n', 'o', 'w'] []) (.duration d) => int64OK d && d != minInt64
  | _ => false

/-- Meaning of a condition at the point `(t, L)`: `time ⋈ x` compares the timestamp with the
instant `x` denotes (`x ⋈ time` likewise, read from left to right). -/
def holds (c : CCtx) (L : Expr → Bool) (t : Int) : Expr → Bool
  | .binary op l r =>
    if op = .AND then holds c L t l && holds c L t r
    else if op = .OR then holds c L t l || holds c L t r
    else if isTimeRef c.lowerTbl l then
      (match instant c.r r with
       | some v => cmpInstant op t v
       | none => false)
    else if isTimeRef c.lowerTbl r then
      (match instant c.r l with
       | some v => cmpInstant op v t
       | none => false)
    else L (.binary op l r)
  | .paren e => holds c L t e
  | .boolean b => b
  | e => L e

/-- Value of a (residual) condition without time comparisons: the logical skeleton over `L`. -/
def evalB (L : Expr → Bool) : Expr → Bool
  | .binary op l r =>
    if op = .AND then evalB L l && evalB L r
    else if op = .OR then evalB L l || evalB L r
    else L (.binary op l r)
  | .paren e => evalB L e
  | .boolean b => b
  | e => L e

/-- A missing residual means true. -/
def evalOpt (L : Expr → Bool) : Option Expr → Bool
  | none => true
  | some e => evalB L e

/-- No time comparison below (through `AND`, `OR`, parentheses). -/
def timeFree (tbl : List (Char × Char)) : Expr → Bool
  | .binary op l r =>
    if op = .AND ∨ op = .OR then timeFree tbl l && timeFree tbl r
    else !isTimeRef tbl l && !isTimeRef tbl r
  | .paren e => timeFree tbl e
  | _ => true

/-- A reference to a tag or field (the quoted name `"now()"` is answered by `NowValuer.Value`). -/
def isRef : Expr → Bool
  | .varRef v _ => v != ['n', 'o', 'w', '(', ')']
  | _ => false

mutual
  /-- Operands `CReduce` leaves alone under any `NowValuer`: references, literals, and calls
  (other than `now`) whose arguments are such operands. -/
  def isInert : Expr → Bool
    | .varRef v _ => v != ['n', 'o', 'w', '(', ')']
    | .string _ | .number _ | .integer _ | .unsigned _ | .boolean _ | .duration _ | .regex _ => true
    | .call name args => name != ['n', 'o', 'w'] && isInertArgs args
    | _ => false
  def isInertArgs : List Expr → Bool
    | [] => true
    | a :: rest => isInert a && isInertArgs rest
end

/-- A predicate that relates a tag or field to a reference or literal. -/
def stablePred (l r : Expr) : Bool := (isRef l && isInert r) || (isInert l && isRef r)

/-- Operators that make a predicate: their value is always a boolean (`Eval` ends every
comparison with `return false` when the operand types do not fit). -/
def isPredOp (op : Token) : Bool :=
  op == .EQ || op == .NEQ || op == .LT || op == .LTE || op == .GT || op == .GTE ||
  op == .EQREGEX || op == .NEQREGEX

def Expr.isBoolLit : Expr → Bool
  | .boolean _ => true
  | _ => false

/-- The class of the property: `AND` and parentheses anywhere; `OR` only between conditions
without time comparisons; a time comparison uses one of `= < <= > >=` with `time` on either side
and one of the listed literal forms on the other; any other predicate either compares (or matches) a
tag or field with a reference or literal, or is constant (folded to a boolean by `CReduce`). -/
def inClass (c : CCtx) : Expr → Bool
  | .binary op l r =>
    if op = .AND then inClass c l && inClass c r
    else if op = .OR then inClass c l && inClass c r && timeFree c.lowerTbl l && timeFree c.lowerTbl r
    else if isTimeRef c.lowerTbl l then isCmpOp op && timeOperand r
    else if isTimeRef c.lowerTbl r then isCmpOp op && timeOperand l
    else (isPredOp op && stablePred l r) || (creduce c.r (.binary op l r)).isBoolLit
  | .paren e => inClass c e
  | .boolean _ => true
  | _ => false

/-- `L` agrees with constant folding on the constant predicates of the condition: a predicate that
`CReduce` folds to `true` / `false` has that value (this is C09's statement for those predicates;
vacuous for conditions without constant predicates). -/
def FoldSound (c : CCtx) (L : Expr → Bool) : Expr → Prop
  | .binary op l r =>
    if op = .AND ∨ op = .OR then FoldSound c L l ∧ FoldSound c L r
    else if isTimeRef c.lowerTbl l ∨ isTimeRef c.lowerTbl r then True
    else ∀ b, creduce c.r (.binary op l r) = .boolean b → L (.binary op l r) = b
  | .paren e => FoldSound c L e
  | _ => True

/-- The shape of residual conditions: the logical skeleton over stable predicates and booleans. -/
def isRes : Expr → Bool
  | .binary op l r =>
    if op = .AND ∨ op = .OR then isRes l && isRes r else stablePred l r
  | .paren e => isRes e
  | .boolean _ => true
  | _ => false

end InfluxQL

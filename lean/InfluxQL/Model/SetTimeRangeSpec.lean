import InfluxQL.Model.SetTimeRange
import InfluxQL.Model.CondSpec
/-
Declarative side of C18: the non-time part of a condition, the class of conditions whose time
bounds are written `time ⋈ x` (`timeOnLeft`), node count, and the explicit print → parse
hypothesis under which the theorems about `setTimeRange` are stated.
-/
namespace InfluxQL
open Gen
open InfluxQL.CondTime

/-- The condition with every time comparison taken as true: what is left of it when its time
bounds are gone. `L` values the predicates on tags and fields at the point. -/
def nonTimeHolds (tbl : List (Char × Char)) (L : Expr → Bool) : Expr → Bool
  | .binary op l r =>
    if op = .AND then nonTimeHolds tbl L l && nonTimeHolds tbl L r
    else if op = .OR then nonTimeHolds tbl L l || nonTimeHolds tbl L r
    else if isTimeRef tbl l ∨ isTimeRef tbl r then true
    else L (.binary op l r)
  | .paren e => nonTimeHolds tbl L e
  | .boolean b => b
  | e => L e

/-- Conditions whose time bounds are written with `time` (this spelling, no type suffix) on the
left, joined by `AND` and parentheses to predicates that compare or match a tag or field with a
reference or literal (no function calls); `OR` only between conditions without time bounds.
The operator and the right operand of a time bound are arbitrary (`now()` included). -/
def timeOnLeft (tbl : List (Char × Char)) : Expr → Bool
  | .binary op l r =>
    if op = .AND then timeOnLeft tbl l && timeOnLeft tbl r
    else if op = .OR then timeOnLeft tbl l && timeOnLeft tbl r && timeFree tbl l && timeFree tbl r
    else if isTimeRef tbl l then l.print == timeText
    else if isTimeRef tbl r then false
    else isPredOp op && stablePred l r && l.print != timeText
  | .paren e => timeOnLeft tbl e
  | .boolean _ => true
  | _ => false

/-- Residual shape without any reference to time: what `rewriteNoTime` leaves of a `timeOnLeft`
condition, and what `creduce` keeps it as. -/
def isResTF (tbl : List (Char × Char)) : Expr → Bool
  | .binary op l r =>
    if op = .AND ∨ op = .OR then isResTF tbl l && isResTF tbl r
    else isPredOp op && stablePred l r && l.print != timeText && !isTimeRef tbl l && !isTimeRef tbl r
  | .paren e => isResTF tbl e
  | .boolean _ => true
  | _ => false

mutual
  /-- Number of nodes. -/
  def Expr.size : Expr → Nat
    | .binary _ l r => 1 + l.size + r.size
    | .paren e => 1 + e.size
    | .call _ args => 1 + sizeArgs args
    | _ => 1
  def sizeArgs : List Expr → Nat
    | [] => 0
    | a :: rest => a.size + sizeArgs rest
end

/-- The tree the parser is expected to build from the text `SetTimeRange` prints. -/
def expectedTree (c : Expr) (w : Window) : Expr :=
  .binary .AND (.binary .AND (rewriteNoTime c) (geBound w.start)) (ltBound w.stop)

/-- **Print → parse hypothesis** (what C02/C03 would provide for this fragment): the printed
rewritten condition, followed by ` AND time >= '…' AND time < '…'`, parses to the rewritten
condition conjoined with the two bounds. It fails when the rewritten condition has an
unparenthesised `OR` at the top (see `top_level_or_regroups`). -/
def RT (tbl : List (Char × Char)) (c : Expr) (w : Window) : Prop :=
  parseExprText (setTimeRangeText (some c) w) [] tbl = .ok (expectedTree c w)

/-- What `setTimeRange` computes when `RT` holds. -/
def stepSpec (fa : FloatArith) (c : Expr) (w : Window) : Expr :=
  creduce (nilRCtx fa) (expectedTree c w)

/-- `RT` along a sequence of windows. -/
def RTSeq (fa : FloatArith) (tbl : List (Char × Char)) : Expr → List Window → Prop
  | _, [] => True
  | c, w :: ws => RT tbl c w ∧ RTSeq fa tbl (stepSpec fa c w) ws

/-- **Window hypothesis**: the two printed instants read back as the instants they were printed
from (a property of `Format(RFC3339Nano)` / `ParseInLocation`, checked by `decide` for concrete
windows and by the correspondence for generated ones). -/
def WindowOK (c : CCtx) (w : Window) : Prop :=
  isTimeLiteral (formatRFC3339Nano w.start) = true ∧
  toTimeLiteral (formatRFC3339Nano w.start) c.r.zoneOpt = some w.start ∧
  isTimeLiteral (formatRFC3339Nano w.stop) = true ∧
  toTimeLiteral (formatRFC3339Nano w.stop) c.r.zoneOpt = some w.stop

def Window.contains (w : Window) (t : Int) : Bool := decide (w.start ≤ t) && decide (t < w.stop)

end InfluxQL

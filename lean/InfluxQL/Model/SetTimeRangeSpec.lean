import InfluxQL.Model.SetTimeRange
import InfluxQL.Model.CondSpec
/-
Declarative side of C18: the non-time part of a condition, the class of conditions the theorems
cover (`strClass`), node count, the window hypothesis, and — for comparison only — the text route
`SetTimeRange` took before it built its condition as a tree (`textRoute`).
-/
namespace InfluxQL
open Gen
open InfluxQL.CondTime

/-- The condition with every time comparison taken as true: what is left of it when its time
bounds are gone. `L` values the predicates on tags and fields at the point. -/
def nonTimeHolds (tbl : List (Char × Char)) (L : Expr → Bool) : Expr → Bool
  | .binary op l r =>
    if op = .AND then nonTimeHolds tbl L l && nonTimeHolds tbl L r
    else if op = .OR then nonTimeHolds tbl L l || nonTimeHolds tbl L r
    else if isTimeRef tbl l ∨ isTimeRef tbl r then true
    else L (.binary op l r)
  | .paren e => nonTimeHolds tbl L e
  | .boolean b => b
  | e => L e

/-- The class of C18: time bounds — `time` in any letter case and with any type annotation, on
either side, any operator, any other operand (`now()` included) — joined by `AND` and parentheses
to predicates that compare or match a tag or field with a reference, a literal or a function call
over such operands; `OR` only between conditions without time bounds. -/
def strClass (tbl : List (Char × Char)) : Expr → Bool
  | .binary op l r =>
    if op = .AND then strClass tbl l && strClass tbl r
    else if op = .OR then strClass tbl l && strClass tbl r && timeFree tbl l && timeFree tbl r
    else if isTimeRef tbl l ∨ isTimeRef tbl r then true
    else isPredOp op && stablePred l r
  | .paren e => strClass tbl e
  | .boolean _ => true
  | _ => false

/-- Residual shape without any reference to time: what `rewriteNoTime` leaves of a condition of
the class, and what `creduce` keeps it as. -/
def isResTF (tbl : List (Char × Char)) : Expr → Bool
  | .binary op l r =>
    if op = .AND ∨ op = .OR then isResTF tbl l && isResTF tbl r
    else isPredOp op && stablePred l r && !isTimeRef tbl l && !isTimeRef tbl r
  | .paren e => isResTF tbl e
  | .boolean _ => true
  | _ => false

mutual
  /-- Number of nodes. -/
  def Expr.size : Expr → Nat
    | .binary _ l r => 1 + l.size + r.size
    | .paren e => 1 + e.size
    | .call _ args => 1 + sizeArgs args
    | _ => 1
  def sizeArgs : List Expr → Nat
    | [] => 0
    | a :: rest => a.size + sizeArgs rest
end

/-- One more node when the parentheses are added. -/
def parenCost (tbl : List (Char × Char)) (c : Expr) : Nat :=
  if topIsOr (rewriteNoTime tbl c) then 1 else 0

/-- The condition after `SetTimeRange` on a statement with condition `c`: `Reduce(·, nil)` of the tree
`(<rewritten, grouped c> AND time >= start) AND time < end`. `setTimeRange … (some c) w = .ok` of
this, by definition, for every expression `c` whatsoever (`C18.setTimeRange_total`). -/
def stepSpec (fa : FloatArith) (tbl : List (Char × Char)) (c : Expr) (w : Window) : Expr :=
  CReduce (nilRCtx fa) (setTimeRangeTree tbl (some c) w)

mutual
  /-- No binary node anywhere in the expression (call arguments included) has a reference to time as
  an operand: nothing for `rewriteNoTime` to replace. Any expression otherwise — arithmetic with
  negated operands, time literals, … -/
  def noTimeBound (tbl : List (Char × Char)) : Expr → Bool
    | .binary _ l r => !isTimeRef tbl l && !isTimeRef tbl r && noTimeBound tbl l && noTimeBound tbl r
    | .paren e => noTimeBound tbl e
    | .call _ args => noTimeBoundArgs tbl args
    | _ => true
  def noTimeBoundArgs (tbl : List (Char × Char)) : List Expr → Bool
    | [] => true
    | a :: rest => noTimeBound tbl a && noTimeBoundArgs tbl rest
end

/-! ### The text route (the implementation before the tree-building fix; comparison only)

`SetTimeRange` used to print the rewritten condition, append ` AND time >= '…' AND time < '…'` with
`fmt.Sprintf`, and run the parser on the text. Nothing in the model of the current code uses these
definitions; they state what the old code did so that the two routes can be compared
(`C18.text_route_printed_the_tree`, `C18.text_route_agrees_when_round_trip`, and the two witnesses
where the old route changed the condition). -/

def boundsText (w : Window) : Str :=
  ['t', 'i', 'm', 'e', ' ', '>', '=', ' ', '\''] ++ formatRFC3339Nano w.start ++
  ['\'', ' ', 'A', 'N', 'D', ' ', 't', 'i', 'm', 'e', ' ', '<', ' ', '\''] ++ formatRFC3339Nano w.stop ++ ['\'']

/-- The string the old `rewriteWithoutTimeDimensions` returned: the rewritten condition printed, in
parentheses exactly when its top node is an `OR` (`"(" + n.String() + ")"`). -/
def rewrittenText (tbl : List (Char × Char)) (c : Expr) : Str :=
  let n := rewriteNoTime tbl c
  if topIsOr n then ['('] ++ n.print ++ [')'] else n.print

/-- The text the old code handed to the parser. -/
def setTimeRangeText (tbl : List (Char × Char)) (cond : Option Expr) (w : Window) : Str :=
  match cond with
  | none => boundsText w
  | some c => rewrittenText tbl c ++ [' ', 'A', 'N', 'D', ' '] ++ boundsText w

/-- The old `SetTimeRange`: parse the text, then `Reduce`; the parse error otherwise. -/
def textRoute (fa : FloatArith) (tbl : List (Char × Char)) (cond : Option Expr) (w : Window) :
    Except Fail Expr :=
  match parseExprText (setTimeRangeText tbl cond w) [] tbl with
  | .error f => .error f
  | .ok e => .ok (CReduce (nilRCtx fa) e)

/-- **Window hypothesis**: the two printed instants read back as the instants they were printed
from (a property of `Format(RFC3339Nano)` / `ParseInLocation`, checked by `decide` for concrete
windows and by the correspondence for generated ones). -/
def WindowOK (c : CCtx) (w : Window) : Prop :=
  isTimeLiteral (formatRFC3339Nano w.start) = true ∧
  toTimeLiteral (formatRFC3339Nano w.start) c.r.zoneOpt = some w.start ∧
  isTimeLiteral (formatRFC3339Nano w.stop) = true ∧
  toTimeLiteral (formatRFC3339Nano w.stop) c.r.zoneOpt = some w.stop

def Window.contains (w : Window) (t : Int) : Bool := decide (w.start ≤ t) && decide (t < w.stop)

end InfluxQL

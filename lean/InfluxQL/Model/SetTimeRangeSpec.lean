import InfluxQL.Model.SetTimeRange
import InfluxQL.Model.CondSpec
/-
Declarative side of C18: the non-time part of a condition, the class of conditions the theorems
cover (`strClass`), node count, and the explicit print → parse hypothesis under which the
theorems about `setTimeRange` are stated.
-/
namespace InfluxQL
open Gen
open InfluxQL.CondTime

/-- The condition with every time comparison taken as true: what is left of it when its time
bounds are gone. `L` values the predicates on tags and fields at the point. -/
def nonTimeHolds (tbl : List (Char × Char)) (L : Expr → Bool) : Expr → Bool
  | .binary op l r =>
    if op = .AND then nonTimeHolds tbl L l && nonTimeHolds tbl L r
    else if op = .OR then nonTimeHolds tbl L l || nonTimeHolds tbl L r
    else if isTimeRef tbl l ∨ isTimeRef tbl r then true
    else L (.binary op l r)
  | .paren e => nonTimeHolds tbl L e
  | .boolean b => b
  | e => L e

/-- The class of C18: time bounds — `time` in any letter case and with any type annotation, on
either side, any operator, any other operand (`now()` included) — joined by `AND` and parentheses
to predicates that compare or match a tag or field with a reference, a literal or a function call
over such operands; `OR` only between conditions without time bounds. -/
def strClass (tbl : List (Char × Char)) : Expr → Bool
  | .binary op l r =>
    if op = .AND then strClass tbl l && strClass tbl r
    else if op = .OR then strClass tbl l && strClass tbl r && timeFree tbl l && timeFree tbl r
    else if isTimeRef tbl l ∨ isTimeRef tbl r then true
    else isPredOp op && stablePred l r
  | .paren e => strClass tbl e
  | .boolean _ => true
  | _ => false

/-- Residual shape without any reference to time: what `rewriteNoTime` leaves of a condition of
the class, and what `creduce` keeps it as. -/
def isResTF (tbl : List (Char × Char)) : Expr → Bool
  | .binary op l r =>
    if op = .AND ∨ op = .OR then isResTF tbl l && isResTF tbl r
    else isPredOp op && stablePred l r && !isTimeRef tbl l && !isTimeRef tbl r
  | .paren e => isResTF tbl e
  | .boolean _ => true
  | _ => false

mutual
  /-- Number of nodes. -/
  def Expr.size : Expr → Nat
    | .binary _ l r => 1 + l.size + r.size
    | .paren e => 1 + e.size
    | .call _ args => 1 + sizeArgs args
    | _ => 1
  def sizeArgs : List Expr → Nat
    | [] => 0
    | a :: rest => a.size + sizeArgs rest
end

/-- The rewritten condition as it is grouped before ` AND <window>` is appended: inside a
parenthesis node exactly when its top node is an `OR`. This is the tree whose print is
`rewrittenText` (`rewrittenText_eq_print` in Lemmas/SetTimeRange.lean). Its top node is never an `OR`. -/
def groupForAnd (e : Expr) : Expr := if topIsOr e then .paren e else e

/-- One more node when the parentheses are added. -/
def parenCost (tbl : List (Char × Char)) (c : Expr) : Nat :=
  if topIsOr (rewriteNoTime tbl c) then 1 else 0

/-- The tree the text `SetTimeRange` prints was printed from: the (grouped) rewritten condition
conjoined with the two bounds. -/
def expectedTree (tbl : List (Char × Char)) (c : Expr) (w : Window) : Expr :=
  .binary .AND (.binary .AND (groupForAnd (rewriteNoTime tbl c)) (geBound w.start)) (ltBound w.stop)

/-- **Print → parse hypothesis** (what C02/C03 would provide for this fragment): the text
`<grouped rewritten condition> AND time >= '…' AND time < '…'` parses to the tree it is the print
of. Since the fix of C18-top-level-or-captures-the-window the left operand is never an
unparenthesised `OR`, so nothing about the top operator of the condition is assumed any more: the
hypothesis is the plain round trip `parse (print T) = T` on `T = expectedTree`, and it holds for a
top-level `OR` as for any other condition (`C18.top_level_or_keeps_window` checks one in the
kernel). It can only fail where printing itself loses grouping (C02/C03 finding: `n % -a`). -/
def RT (tbl : List (Char × Char)) (c : Expr) (w : Window) : Prop :=
  parseExprText (setTimeRangeText tbl (some c) w) [] tbl = .ok (expectedTree tbl c w)

/-- What `setTimeRange` computes when `RT` holds. -/
def stepSpec (fa : FloatArith) (tbl : List (Char × Char)) (c : Expr) (w : Window) : Expr :=
  creduce (nilRCtx fa) (expectedTree tbl c w)

/-- `RT` along a sequence of windows. -/
def RTSeq (fa : FloatArith) (tbl : List (Char × Char)) : Expr → List Window → Prop
  | _, [] => True
  | c, w :: ws => RT tbl c w ∧ RTSeq fa tbl (stepSpec fa tbl c w) ws

/-- **Window hypothesis**: the two printed instants read back as the instants they were printed
from (a property of `Format(RFC3339Nano)` / `ParseInLocation`, checked by `decide` for concrete
windows and by the correspondence for generated ones). -/
def WindowOK (c : CCtx) (w : Window) : Prop :=
  isTimeLiteral (formatRFC3339Nano w.start) = true ∧
  toTimeLiteral (formatRFC3339Nano w.start) c.r.zoneOpt = some w.start ∧
  isTimeLiteral (formatRFC3339Nano w.stop) = true ∧
  toTimeLiteral (formatRFC3339Nano w.stop) c.r.zoneOpt = some w.stop

def Window.contains (w : Window) (t : Int) : Bool := decide (w.start ≤ t) && decide (t < w.stop)

end InfluxQL

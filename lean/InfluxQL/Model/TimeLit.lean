import InfluxQL.Model.Eval
import InfluxQL.Model.Time
/-
`StringLiteral.IsTimeLiteral` / `ToTimeLiteral(loc)` (ast.go), `isDateString`,
`isDateTimeString` (parser.go) and the part of Go's `time.ParseInLocation` that the three layouts
`DateTimeFormat = "2006-01-02 15:04:05.999999"`, `time.RFC3339Nano` and `DateFormat = "2006-01-02"`
exercise (go1.23 `time/format.go`):

* both regular expressions demand `dddd-dd-dd` first, so year, month and day are fixed-width;
  month must be 1..12, the day is validated against the month (leap years) at the end;
* a space in a layout matches one or more spaces; the hour (`15`) may have one or two digits,
  minute and second exactly two; ranges 0..23, 0..59, 0..59;
* after the seconds an optional fraction `.` or `,` followed by digits, any number of them, the
  first nine are used;
* RFC 3339: `T`, then `Z` or `±hh:mm` with `hh ≤ 24`, `mm ≤ 60` (the generic parser that runs
  when the strict fast path `parseRFC3339` declines accepts a superset of the fast path and
  agrees with it there);
* nothing may follow.
A location is a fixed offset in seconds east of UTC (`time.UTC` = 0); named zones with
transitions are outside the model.
Everything is structural recursion on `List Char`, so the kernel can evaluate it.
-/
namespace InfluxQL

def isDigitC (c : Char) : Bool := decide ('0' ≤ c ∧ c ≤ '9')

/-- `^\d{4}-\d{2}-\d{2}` : the rest after the ten runes, or `none`. -/
def datePrefix : Str → Option (Nat × Nat × Nat × Str)
  | y1 :: y2 :: y3 :: y4 :: '-' :: m1 :: m2 :: '-' :: d1 :: d2 :: rest =>
    if isDigitC y1 && isDigitC y2 && isDigitC y3 && isDigitC y4 && isDigitC m1 && isDigitC m2 &&
       isDigitC d1 && isDigitC d2 then
      some (digitsVal [y1, y2, y3, y4], digitsVal [m1, m2], digitsVal [d1, d2], rest)
    else none
  | _ => none

/-- `isDateString`: `^\d{4}-\d{2}-\d{2}$`. -/
def isDateString (s : Str) : Bool :=
  match datePrefix s with
  | some (_, _, _, []) => true
  | _ => false

/-- `isDateTimeString`: `^\d{4}-\d{2}-\d{2}.+` (`.` is any rune but newline). -/
def isDateTimeString (s : Str) : Bool :=
  match datePrefix s with
  | some (_, _, _, c :: _) => c != '\n'
  | _ => false

/-- `IsTimeLiteral`. -/
def isTimeLiteral (s : Str) : Bool := isDateTimeString s || isDateString s

def isLeapYear (y : Nat) : Bool := y % 4 == 0 && (y % 100 != 0 || y % 400 == 0)

/-- `daysIn(month, year)`. -/
def daysIn (m y : Nat) : Nat :=
  if m == 2 then (if isLeapYear y then 29 else 28)
  else if m == 4 || m == 6 || m == 9 || m == 11 then 30 else 31

/-- `getnum(s, fixed)`: one or two digits (`fixed`: exactly two). -/
def getnum (fixed : Bool) : Str → Option (Nat × Str)
  | c1 :: c2 :: rest =>
    if isDigitC c1 then
      if isDigitC c2 then some (digitVal c1 * 10 + digitVal c2, rest)
      else if fixed then none else some (digitVal c1, c2 :: rest)
    else none
  | [c1] => if isDigitC c1 && !fixed then some (digitVal c1, []) else none
  | [] => none

def takeDigits : Str → Str × Str
  | [] => ([], [])
  | c :: rest => if isDigitC c then let (d, r) := takeDigits rest; (c :: d, r) else ([], c :: rest)

/-- The optional fractional second: `[.,]d+` → nanoseconds (first nine digits, right-padded). -/
def parseFrac (s : Str) : Nat × Str :=
  match s with
  | c :: d :: rest =>
    if (c == '.' || c == ',') && isDigitC d then
      let (ds, r) := takeDigits (d :: rest)
      let ds9 := ds.take 9
      (digitsVal ds9 * 10 ^ (9 - ds9.length), r)
    else (0, s)
  | _ => (0, s)

def cutSpace : Str → Str
  | ' ' :: rest => cutSpace rest
  | s => s

/-- `15:04:05` plus optional fraction: (seconds of the day, nanoseconds, rest). -/
def parseClock (s : Str) : Option (Nat × Nat × Str) :=
  match getnum false s with
  | none => none
  | some (h, s1) =>
    if h ≥ 24 then none else
    match s1 with
    | ':' :: s2 =>
      match getnum true s2 with
      | none => none
      | some (mi, s3) =>
        if mi ≥ 60 then none else
        match s3 with
        | ':' :: s4 =>
          match getnum true s4 with
          | none => none
          | some (sec, s5) =>
            if sec ≥ 60 then none else
            let (ns, s6) := parseFrac s5
            some (h * 3600 + mi * 60 + sec, ns, s6)
        | _ => none
    | _ => none

/-- `Z07:00`: offset in seconds east, and the rest. -/
def parseZone (s : Str) : Option (Int × Str) :=
  match s with
  | 'Z' :: rest => some (0, rest)
  | sg :: h1 :: h2 :: ':' :: m1 :: m2 :: rest =>
    if isDigitC h1 && isDigitC h2 && isDigitC m1 && isDigitC m2 && (sg == '+' || sg == '-') then
      let hr := digitVal h1 * 10 + digitVal h2
      let mm := digitVal m1 * 10 + digitVal m2
      if hr > 24 || mm > 60 then none
      else
        let off : Int := ((hr * 60 + mm) * 60 : Nat)
        some (if sg == '-' then -off else off, rest)
    else none
  | _ => none

/-- `Date(y, m, d, 0, 0, sod, ns, zone at offset off)` as nanoseconds since the epoch. -/
def instantOf (y m d sod ns : Nat) (off : Int) : Int :=
  ((daysFromCivil y m d) * 86400 + sod - off) * 1000000000 + ns

def validDate (y m d : Nat) : Bool := 1 ≤ m && m ≤ 12 && 1 ≤ d && d ≤ daysIn m y

/-- `ToTimeLiteral(loc)` with `loc` a fixed offset. -/
def toTimeLiteral (loc : Int) (s : Str) : Option Int :=
  match datePrefix s with
  | none => none
  | some (y, m, d, rest) =>
    match rest with
    | [] => if validDate y m d then some (instantOf y m d 0 0 loc) else none   -- DateFormat
    | c :: after =>
      if c == '\n' then none
      else if !validDate y m d then none
      else
        -- DateTimeFormat, then RFC3339Nano
        let a : Option Int :=
          if c == ' ' then
            match parseClock (cutSpace after) with
            | some (sod, ns, []) => some (instantOf y m d sod ns loc)
            | _ => none
          else none
        match a with
        | some t => some t
        | none =>
          if c == 'T' then
            match parseClock after with
            | some (sod, ns, z) =>
              match parseZone z with
              | some (off, []) => some (instantOf y m d sod ns off)
              | _ => none
            | none => none
          else none

/-- The executable `StrAlg`; compiled regular expressions are not modelled (`reMatch` is a
placeholder, cases that reach it are not compared). -/
def goStrAlg : StrAlg :=
  { isTimeLit := isTimeLiteral, toTime := toTimeLiteral, reMatch := fun _ _ => false }

end InfluxQL

/-
Clone-before-modify operations as heap programs (C14, second sentence).

`SelectStatement.Reduce` and `SelectStatement.RewriteFields` have the same skeleton in ast.go:

    other := s.Clone()
    … stores into objects reached from `other` (or made on the way) …
    return other

This file gives that skeleton an executable meaning on the heap model of `Model/Heap.lean`:

* the clone is made by the generic interpreter `cloneAddr` on a clone table (instantiated with the
  regenerated `Gen.cloneTable`, routine `SelectStatement.Clone`, in `Props/C14.lean`);
* the body is a `Prog`: a term of a small language whose only way to name the object it writes to is
  to start at `other` and follow fields (`field`, `each`, `visit`), or to copy such an object with a
  clone routine and work on the copy (`onCopy`).  There is no construct that mentions the receiver.
  Every Go store of the body is one `store` / `recStore` node carrying the inventory entry
  (`CloneTable.Store`: function, normalised text, base) it transcribes, so that `Prog.stores` can be
  compared with the regenerated store inventory by `decide`;
* running a `Prog` yields a *history of writes* (`List Write`); the heap after the call is
  `applyAll` of that history on the heap after the clone;
* the values written are not computed: an `Oracle` supplies them (`Reduce(expr, valuer)`, the slices
  `rwFields` / `rwDimensions`, `EvalType(…)`, …) as a list of new cells plus a result value.  The one
  assumption about them is `Oracle.Adm`: every pointer in such a value leads to a cell allocated
  after the call began (a new node, or a node of the clone).  For `reduce` this is what the code does
  on every path: a new node, `CloneExpr` of a leaf, or — `case *NilLiteral: return expr` — its
  argument, which is a node of the clone because `Reduce` is only applied to `stmt.…`.
* a nested call on a subquery (`source.Statement = source.Statement.Reduce(valuer)`) is the same
  operation run on the object in that field (`recStore`), to any nesting depth (`runOp` recurses on a
  depth bound); its clone and its history become part of the caller's history.

`none` is a Go panic (nil dereference), an ill-typed heap, or exhausted fuel / depth.
-/
import InfluxQL.Model.Heap

namespace InfluxQL.Heap
open InfluxQL.CloneTable

deriving instance DecidableEq for Write

/-- The reference held in field `f` of the cell at `a` (`some none`: nil). -/
def readRef (h : Heap) (a f : Nat) : Option (Option Nat) :=
  match h[a]? with
  | some c => match c.fields[f]? with
    | some (.ref o) => some o
    | _ => none
  | none => none

/-- Follow a path of field numbers (through structs and backing arrays) from `a`. -/
def follow (h : Heap) : Nat → List Nat → Option Nat
  | a, [] => some a
  | a, f :: p => match readRef h a f with
    | some (some b) => follow h b p
    | _ => none

/-- A value made during the call: cells to allocate (in this order) and the value that refers to them. -/
structure Fresh where
  cells : List Cell
  result : FVal

/-- `x.f = <value>`: allocate the value's cells, then overwrite field `f` of `x`. -/
def Fresh.writes (v : Fresh) (a f : Nat) : List Write :=
  v.cells.map Write.alloc ++ [Write.set a f v.result]

/-- **The assumption on computed values**: every pointer inside a value made during the call leads
to a cell at or above `lo` (the allocation pointer when the call began: so a node of the clone or a
new node, never a node that existed before the call) and below the allocation pointer after the
value's own cells. -/
def Fresh.Adm (lo : Nat) (h : Heap) (v : Fresh) : Prop :=
  (∀ c, c ∈ v.cells → ∀ r, FVal.ref (some r) ∈ c.fields → lo ≤ r ∧ r < h.length + v.cells.length) ∧
  (∀ r, v.result = .ref (some r) → lo ≤ r ∧ r < h.length + v.cells.length)

/-- Everything the model does not compute. All components may inspect the whole current heap. -/
structure Oracle where
  /-- the value stored by the store at (base address, field number) -/
  build : Heap → Nat → Nat → Fresh
  /-- the index `i` of a store `x[i] = …` -/
  index : Heap → Nat → Nat
  /-- which objects a walk / search / conditional visits, as field paths from the current object
      (with repetitions; `[]` = not at all; `[[]]` = the current object once) -/
  visit : Heap → Nat → Nat → List (List Nat)
  /-- does the function return an error at this site? -/
  fails : Heap → Nat → Bool

def Oracle.Adm (O : Oracle) (lo : Nat) : Prop :=
  ∀ h a f, lo ≤ h.length → (O.build h a f).Adm lo h

/-- Bodies of clone-before-modify (and in-place) functions. The *current object* starts as `other`. -/
inductive Prog where
  | skip
  | seq (p q : Prog)
  /-- `x.f = v` (`f = none`: `x[i] = v`, index from the oracle); `s` is the inventory entry -/
  | store (s : Store) (f : Option Nat)
  /-- a store of the inventory that does not write to a cell of the heap model (a Go map) -/
  | note (s : Store)
  /-- `if err != nil { return nil, err }` -/
  | fail (site : Nat)
  /-- `y := x.f; body(y)`; nil: skip or panic -/
  | field (f : Nat) (nilSkips : Bool) (body : Prog)
  /-- `switch x := x.(type) { case *T: body }` -/
  | ifTy (ty : Nat) (body : Prog)
  /-- `for _, y := range x.f { body(y) }`; a nil element is skipped or panics -/
  | each (f : Nat) (nilElemSkips : Bool) (body : Prog)
  /-- `body` on objects the oracle picks below `x` (WalkFunc with a closure, a search loop, an `if`) -/
  | visit (site : Nat) (body : Prog)
  /-- `x.f = x.f.<this operation>(…)`: the whole operation on the object in `f`; on error return -/
  | recStore (s : Store) (f : Nat)
  /-- `y := <clone routine>(x); body(y)` -/
  | onCopy (via : Nat) (body : Prog)

/-- The inventory entries a program transcribes, in source order. -/
def Prog.stores : Prog → List Store
  | .skip => []
  | .seq p q => p.stores ++ q.stores
  | .store s _ => [s]
  | .note s => [s]
  | .fail _ => []
  | .field _ _ b => b.stores
  | .ifTy _ b => b.stores
  | .each _ _ b => b.stores
  | .visit _ b => b.stores
  | .recStore s _ => [s]
  | .onCopy _ b => b.stores

/-- History of a piece of code and whether it is still running (`false`: returned an error). -/
abbrev Out := Option (List Write × Bool)

/-- Result of the whole operation on a statement: heap after the clone, address of the clone,
history of the body, `true` = returned the clone (`false` = returned an error). -/
abbrev OpRec := Heap → Nat → Option (Heap × Nat × List Write × Bool)

/-- Addresses held by a backing array. -/
def elemAddrs (nilSkips : Bool) : List FVal → Option (List Nat)
  | [] => some []
  | .ref (some a) :: vs => match elemAddrs nilSkips vs with
    | some as => some (a :: as)
    | none => none
  | .ref none :: vs => if nilSkips then elemAddrs nilSkips vs else none
  | _ :: _ => none

/-- Run `f` on a sequence of objects, each located in the heap as it is when its turn comes. -/
def iter (f : Heap → Nat → Out) : Heap → List (Heap → Option Nat) → Out
  | _, [] => some ([], true)
  | h, g :: gs =>
    match g h with
    | none => none
    | some a =>
      match f h a with
      | none => none
      | some (w, false) => some (w, false)
      | some (w, true) =>
        match iter f (applyAll h w) gs with
        | none => none
        | some (w', b) => some (w ++ w', b)

/-- The cells a clone call appended, as allocations of the history. -/
def allocsSince (h h1 : Heap) : List Write := (h1.drop h.length).map Write.alloc

/-- `exec t fuel O self p h x`: history of body `p` with current object `x` in heap `h`. -/
def exec (t : List Row) (fuel : Nat) (O : Oracle) (self : OpRec) : Prog → Heap → Nat → Out
  | .skip, _, _ => some ([], true)
  | .seq p q, h, x =>
    match exec t fuel O self p h x with
    | none => none
    | some (w1, false) => some (w1, false)
    | some (w1, true) =>
      match exec t fuel O self q (applyAll h w1) x with
      | none => none
      | some (w2, b) => some (w1 ++ w2, b)
  | .store _ f, h, x =>
    let i := f.getD (O.index h x)
    some ((O.build h x i).writes x i, true)
  | .note _, _, _ => some ([], true)
  | .fail site, h, _ => some ([], !O.fails h site)
  | .field f nilSkips body, h, x =>
    match readRef h x f with
    | some (some a) => exec t fuel O self body h a
    | some none => if nilSkips then some ([], true) else none
    | none => none
  | .ifTy ty body, h, x =>
    match h[x]? with
    | some c => if c.ty = some ty then exec t fuel O self body h x else some ([], true)
    | none => none
  | .each f nilElemSkips body, h, x =>
    match readRef h x f with
    | some none => some ([], true)
    | some (some arr) =>
      match h[arr]? with
      | some ⟨none, elems⟩ =>
        match elemAddrs nilElemSkips elems with
        | some as => iter (exec t fuel O self body) h (as.map fun a _ => some a)
        | none => none
      | _ => none
    | none => none
  | .visit site body, h, x =>
    iter (exec t fuel O self body) h ((O.visit h x site).map fun p h' => follow h' x p)
  | .recStore _ f, h, x =>
    match readRef h x f with
    | some (some a) =>
      match self h a with
      | none => none
      | some (h1, ret, ws, ok) =>
        if ok then some (allocsSince h h1 ++ ws ++ [Write.set x f (.ref (some ret))], true)
        else some (allocsSince h h1 ++ ws, false)
    | _ => none
  | .onCopy via body, h, x =>
    match cloneAddr t fuel via h x with
    | none => none
    | some (h1, y, _) =>
      match exec t fuel O self body h1 y with
      | none => none
      | some (ws, b) => some (allocsSince h h1 ++ ws, b)

/-- The operation: `other := clone(s)` by routine `via`, then the body on `other`; nested calls
(`recStore`) to depth `depth`. -/
def runOp (t : List Row) (fuel : Nat) (O : Oracle) (via : Nat) (body : Prog) : Nat → OpRec
  | 0, _, _ => none
  | depth + 1, h, s =>
    match cloneAddr t fuel via h s with
    | none => none
    | some (h1, other, _) =>
      match exec t fuel O (runOp t fuel O via body depth) body h1 other with
      | none => none
      | some (ws, ok) => some (h1, other, ws, ok)

/-- An in-place function applied to an object: no clone, the body on the object itself. -/
def runInPlace (t : List Row) (fuel : Nat) (O : Oracle) (body : Prog) (h : Heap) (x : Nat) : Out :=
  exec t fuel O (fun _ _ => none) body h x

/-! ### Field and type numbers used by the transcriptions (filled in from the generated table) -/

structure Ix where
  /-- struct ids -/
  tySubQuery : Nat
  tyVarRef : Nat
  tyCall : Nat
  tyBinaryExpr : Nat
  tyParenExpr : Nat
  tyField : Nat
  /-- routine ids -/
  cloneExpr : Nat
  /-- `SelectStatement` -/
  fields : Nat
  dimensions : Nat
  sources : Nat
  condition : Nat
  isRawQuery : Nat
  timeAlias : Nat
  /-- `Dimension.Expr`, `Field.Expr`, `SubQuery.Statement`, `VarRef.Type`, `Call.Args` -/
  dimExpr : Nat
  fieldExpr : Nat
  subStatement : Nat
  varRefType : Nat
  callArgs : Nat
  /-- `BinaryExpr.Op/LHS/RHS`, `ParenExpr.Expr` -/
  binOp : Nat
  binLHS : Nat
  binRHS : Nat
  parenExpr : Nat

def mkStore (fn text : String) (b : Base) : Store := ⟨fn.toList, text.toList, b⟩

/-! ### `SelectStatement.Reduce` (ast.go)

    stmt := s.Clone()
    stmt.Condition = Reduce(stmt.Condition, valuer)
    for _, d := range stmt.Dimensions {
        d.Expr = Reduce(d.Expr, valuer)
    }
    for _, source := range stmt.Sources {
        switch source := source.(type) {
        case *SubQuery:
            source.Statement = source.Statement.Reduce(valuer)
        }
    }
    return stmt
-/
def reduceBody (ix : Ix) : Prog :=
  .seq (.store (mkStore "SelectStatement.Reduce" "stmt.Condition = Reduce(stmt.Condition, valuer)" .clone) (some ix.condition))
  (.seq (.each ix.dimensions false
          (.store (mkStore "SelectStatement.Reduce" "d.Expr = Reduce(d.Expr, valuer)" .clone) (some ix.dimExpr)))
        (.each ix.sources true
          (.ifTy ix.tySubQuery
            (.recStore (mkStore "SelectStatement.Reduce" "source.Statement = source.Statement.Reduce(valuer)" .clone)
              ix.subStatement))))

/-! ### Skeleton of `SelectStatement.RewriteFields` (ast.go)

    other := s.Clone()
    for _, src := range other.Sources {                                  -- each sources
        switch src := src.(type) { case *SubQuery:                       -- ifTy SubQuery
            stmt, err := src.Statement.RewriteFields(m)
            if err != nil { return nil, err }
            src.Statement = stmt }}                                      -- recStore
    rewrite := func(n Node) { ref, ok := n.(*VarRef); …; ref.Type = typ }
    WalkFunc(other.Fields, rewrite); WalkFunc(other.Condition, rewrite)  -- visit 0 (ifTy VarRef (store))
    if !hasFieldWildcard && !hasDimensionWildcard { return other, nil }  -- visit 1 (the rest, or not)
    fieldSet, dimensionSet, err := FieldDimensions(other.Sources, m); if err != nil { return nil, err }   -- fail 0
    … delete(dimensionSet, expr.Val) …                                   -- note (a map made by FieldDimensions)
    if hasFieldWildcard {                                                -- visit 2
        rwFields := make(Fields, 0, …)
        for _, f := range other.Fields {                                 -- each fields
            switch expr := f.Expr.(type) { …                             -- field Field.Expr
            case *Call:                                                  -- ifTy Call
                template := CloneExpr(expr).(*Call)                      -- onCopy CloneExpr
                call := template; for … { call = call.Args[0].(*Call) }
                … return nil, fmt.Errorf("unable to use tag wildcard …") -- fail 1
                for _, ref := range fields { …                           -- visit 3: the path to `call`, once per `ref`
                    call.Args[0] = &VarRef{Val: ref.Val, Type: ref.Type} -- field Call.Args (store 0)
                    rwFields = append(rwFields, &Field{Expr: CloneExpr(template), …}) }
            case *BinaryExpr: … return nil, fmt.Errorf(…)                -- fail 2
            … }}
        other.Fields = rwFields }                                        -- store
    if hasDimensionWildcard { …; other.Dimensions = rwDimensions }       -- visit 4 (store)
    return other, nil

`rwFields` / `rwDimensions` hold elements of `other.Fields` / `other.Dimensions` and new `&Field{…}` /
`&Dimension{…}`: an oracle value. -/
def rewriteFieldsBody (ix : Ix) : Prog :=
  let fn := "SelectStatement.RewriteFields"
  .seq (.each ix.sources true
         (.ifTy ix.tySubQuery (.recStore (mkStore fn "src.Statement = stmt" .clone) ix.subStatement)))
  (.seq (.visit 0 (.ifTy ix.tyVarRef (.store (mkStore fn "ref.Type = typ" .closureParam) (some ix.varRefType))))
  (.visit 1
    (.seq (.fail 0)
    (.seq (.note (mkStore fn "delete(dimensionSet, expr.Val)" .call))
    (.seq (.visit 2
            (.seq (.each ix.fields false
                    (.field ix.fieldExpr true
                      (.seq (.ifTy ix.tyCall
                              (.onCopy ix.cloneExpr
                                (.seq (.fail 1)
                                  (.visit 3
                                    (.field ix.callArgs true
                                      (.store (mkStore fn "call.Args[0] = &VarRef{Val: ref.Val, Type: ref.Type}" .clone)
                                        (some 0)))))))
                            (.ifTy ix.tyBinaryExpr (.fail 2)))))
                  (.store (mkStore fn "other.Fields = rwFields" .clone) (some ix.fields))))
          (.visit 4 (.store (mkStore fn "other.Dimensions = rwDimensions" .clone) (some ix.dimensions))))))))

/-! ### The in-place rewrites, as bodies run on the object itself (`runInPlace`)

Their control flow is not transcribed: each body is an event loop (`visit`) in which the oracle
decides, round by round, which of the function's stores happen, on which object below the root, and
how often — a superset of the orders the Go code can produce.  What is transcribed is the set of
stores (compared with the regenerated inventory) and, for each, how its base is found: by following
fields from the root.

`RewriteExpr(expr, fn)` (post-order; `e.LHS = RewriteExpr(e.LHS, fn)`, `e.RHS = …`, `e.Expr = …`,
`e.Args[i] = …`, then `fn(e)`): stores into nodes below the expression it is given. -/
def rewriteExprBody (ix : Ix) : Prog :=
  .visit 10
    (.seq (.ifTy ix.tyBinaryExpr
            (.seq (.visit 11 (.store (mkStore "RewriteExpr" "e.LHS = RewriteExpr(e.LHS, fn)" .param) (some ix.binLHS)))
                  (.visit 12 (.store (mkStore "RewriteExpr" "e.RHS = RewriteExpr(e.RHS, fn)" .param) (some ix.binRHS)))))
    (.seq (.ifTy ix.tyParenExpr
            (.store (mkStore "RewriteExpr" "e.Expr = RewriteExpr(e.Expr, fn)" .param) (some ix.parenExpr)))
          (.ifTy ix.tyCall
            (.field ix.callArgs true
              (.store (mkStore "RewriteExpr" "e.Args[i] = RewriteExpr(expr, fn)" .param) none)))))

/-- `RewriteRegexConditions`: `s.Condition = RewriteExpr(s.Condition, func(e Expr) Expr { … be.Op = EQ …
be.RHS = &StringLiteral{…} … })`, then `s.Condition = cond.Expr` (unwrap a top-level parenthesis). The
closure runs on nodes below `s.Condition`. -/
def rewriteRegexConditionsBody (ix : Ix) : Prog :=
  let fn := "SelectStatement.RewriteRegexConditions"
  .visit 20
    (.seq (.visit 21 (.store (mkStore fn "s.Condition = RewriteExpr(s.Condition, func(e Expr) Expr { be, ok := e.(…" .receiver)
            (some ix.condition)))
    (.seq (.visit 22
            (.ifTy ix.tyBinaryExpr
              (.seq (.visit 23 (.store (mkStore fn "be.Op = EQ" .closureParam) (some ix.binOp)))
              (.seq (.visit 24 (.store (mkStore fn "be.Op = NEQ" .closureParam) (some ix.binOp)))
              (.seq (.visit 25 (.store (mkStore fn "be.RHS = &StringLiteral{}" .closureParam) (some ix.binRHS)))
                    (.visit 26 (.store (mkStore fn "be.RHS = &StringLiteral{Val: vals[0]}" .closureParam) (some ix.binRHS))))))))
    (.seq (.visit 27 (.store (mkStore fn "s.Condition = cond.Expr" .receiver) (some ix.condition)))
          (rewriteExprBody ix))))

/-- `RewriteDistinct`: `WalkFunc(s.Fields, func(n Node) { case *Field: n.Expr = expr.NewCall();
s.IsRawQuery = false; case *Call: n.Args[i] = arg.NewCall() })`. -/
def rewriteDistinctBody (ix : Ix) : Prog :=
  let fn := "SelectStatement.RewriteDistinct"
  .visit 30
    (.seq (.visit 31 (.ifTy ix.tyField (.store (mkStore fn "n.Expr = expr.NewCall()" .closureParam) (some ix.fieldExpr))))
    (.seq (.visit 32 (.store (mkStore fn "s.IsRawQuery = false" .receiver) (some ix.isRawQuery)))
          (.visit 33 (.ifTy ix.tyCall
            (.field ix.callArgs true
              (.store (mkStore fn "n.Args[i] = arg.NewCall()" .closureParam) none))))))

/-- `RewriteTimeFields`: `s.TimeAlias = s.Fields[i].Alias; s.Fields = append(s.Fields[:i], s.Fields[i+1:]...)`.
Abstraction: the re-sliced `Fields` (same backing array, elements shifted, one shorter) is an oracle
value stored into `s.Fields`; the heap model identifies a slice with its backing-array cell. -/
def rewriteTimeFieldsBody (ix : Ix) : Prog :=
  let fn := "SelectStatement.RewriteTimeFields"
  .visit 40
    (.seq (.store (mkStore fn "s.TimeAlias = s.Fields[i].Alias" .receiver) (some ix.timeAlias))
          (.store (mkStore fn "s.Fields = append(s.Fields[:i], s.Fields[i+1:]...)" .receiver) (some ix.fields)))

/-- `SetTimeRange`: `s.Condition = Reduce(expr, nil)` where `expr` is made of new nodes around
`s.rewriteWithoutTimeDimensions()`. -/
def setTimeRangeBody (ix : Ix) : Prog :=
  .store (mkStore "SelectStatement.SetTimeRange" "s.Condition = Reduce(expr, nil)" .receiver) (some ix.condition)

end InfluxQL.Heap

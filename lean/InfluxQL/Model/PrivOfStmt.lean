import InfluxQL.Model.ParserStmt
import InfluxQL.Model.Priv
import InfluxQL.Lemmas.Priv
/-
C19 end to end from the statement text: `ParseStatement(text)` (the statement parser model of
Model/ParserStmt.lean, all handlers) followed by `Statement.RequiredPrivileges()` (the interpreter
of the regenerated privilege table, Model/Priv.lean).

`requiredPrivileges` consumes the model `Statement` as the parser builds it: no reduced record and
no adapter in between — `Statement.kind`, `.databaseField`, `.exact`, `.sources`, `.selectStmt?`
read the constructor arguments the parser filled in.
-/
namespace InfluxQL

/-- Outcome of `ParseStatement(text)` followed by `RequiredPrivileges()`. -/
inductive PrivTextResult where
  | parseFail (f : Fail)            -- the parser rejects the text (or panics / runs out of fuel)
  | privFail (f : PrivFail)         -- the statement parses and `RequiredPrivileges` fails
  | ok (l : List ExecPriv)

/-- `st, err := ParseStatement(text); if err == nil { st.RequiredPrivileges() }`. -/
def privOfText (text : Str) (params : List (Str × BoundValue)) (lowerTbl : List (Char × Char)) : PrivTextResult :=
  match parseStatementText text params lowerTbl with
  | .error f => .parseFail f
  | .ok st =>
    match requiredPrivileges st with
    | .error f => .privFail f
    | .ok l => .ok l

/-- The parser's guarantees `RequiredPrivileges` relies on, as a decidable test (the Boolean form of
`C19.WellFormed`, see `C19.wellFormed_of_test`): every SELECT at any depth has at least one source
(also the subqueries inside the `Sources` of SHOW / DROP / DELETE statements) and the SELECT of
CREATE CONTINUOUS QUERY has an INTO target. The oracle evaluates it on every parsed statement of the
stream `priv.text` and reports a statement that fails it. -/
def Statement.privWellFormed (st : Statement) : Bool :=
  sourcesWF st.sources &&
  (match st.selectStmt? with
   | none => true
   | some sel =>
     selectWF sel &&
     (match st with
      | .createContinuousQuery .. => sel.target.isSome
      | _ => true))

end InfluxQL

import InfluxQL.Model.Basic
/-
Civil time for `time.Time` values restricted to what the library prints and parses:
instants are `Int` nanoseconds since the Unix epoch (UTC).
`civilFromDays` / `daysFromCivil` are the standard proleptic-Gregorian conversions.
-/
namespace InfluxQL

/-- Days since 1970-01-01 → (year, month, day). -/
def civilFromDays (z0 : Int) : Int × Int × Int :=
  let z := z0 + 719468
  let era := (if z ≥ 0 then z else z - 146096) / 146097
  let doe := z - era * 146097
  let yoe := (doe - doe / 1460 + doe / 36524 - doe / 146096) / 365
  let y := yoe + era * 400
  let doy := doe - (365 * yoe + yoe / 4 - yoe / 100)
  let mp := (5 * doy + 2) / 153
  let d := doy - (153 * mp + 2) / 5 + 1
  let m := if mp < 10 then mp + 3 else mp - 9
  (if m ≤ 2 then y + 1 else y, m, d)

/-- (year, month, day) → days since 1970-01-01. -/
def daysFromCivil (y0 m d : Int) : Int :=
  let y := if m ≤ 2 then y0 - 1 else y0
  let era := (if y ≥ 0 then y else y - 399) / 400
  let yoe := y - era * 400
  let doy := (153 * (if m > 2 then m - 3 else m + 9) + 2) / 5 + d - 1
  let doe := yoe * 365 + yoe / 4 - yoe / 100 + doy
  era * 146097 + doe - 719468

def pad (width : Nat) (n : Nat) : List Char :=
  let ds := natDigits n
  List.replicate (width - ds.length) '0' ++ ds

def dropTrailingZeros (l : List Char) : List Char :=
  (l.reverse.dropWhile (· == '0')).reverse

/-- `t.UTC().Format(time.RFC3339Nano)` for an instant given in nanoseconds (years 0..9999). -/
def formatRFC3339Nano (ns : Int) : List Char :=
  let secs := ns / 1000000000          -- floor
  let frac := (ns % 1000000000).toNat
  let days := secs / 86400
  let sod := (secs % 86400).toNat
  let (y, m, d) := civilFromDays days
  let fracStr := dropTrailingZeros (pad 9 frac)
  pad 4 y.toNat ++ ['-'] ++ pad 2 m.toNat ++ ['-'] ++ pad 2 d.toNat ++ ['T'] ++
    pad 2 (sod / 3600) ++ [':'] ++ pad 2 (sod / 60 % 60) ++ [':'] ++ pad 2 (sod % 60) ++
    (if fracStr = [] then [] else '.' :: fracStr) ++ ['Z']

end InfluxQL

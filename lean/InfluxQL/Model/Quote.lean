import InfluxQL.Gen.Quote
import InfluxQL.Model.Scanner
/-
Model of `QuoteString`, `QuoteIdent`, `IdentNeedsQuotes` (parser.go).
`strings.NewReplacer` with single-character patterns replaces each character by the
replacement of the first pair that matches it (argument order), all others unchanged.
-/
namespace InfluxQL
open Gen

/-- Replacement of one character under a replacer table whose patterns are single characters. -/
def replaceChar (tbl : List (List Char × List Char)) (c : Char) : List Char :=
  match tbl with
  | [] => [c]
  | (old, new) :: rest => if old = [c] then new else replaceChar rest c

/-- `replacer.Replace(s)`. -/
def replaceAll (tbl : List (List Char × List Char)) (s : List Char) : List Char :=
  s.flatMap (replaceChar tbl)

/-- `QuoteString(s)`. -/
def quoteString (s : List Char) : List Char := '\'' :: (replaceAll qsReplacer s ++ ['\''])

/-- The character test of `IdentNeedsQuotes`'s loop, from the second character on. -/
def identTailOK : List Char → Bool
  | [] => true
  | c :: t => isIdentChar c && identTailOK t

/-- `IdentNeedsQuotes(ident)`. -/
def identNeedsQuotes (ident : List Char) : Bool :=
  if lookup ident ≠ .IDENT then true
  else
    match ident with
    | [] => false
    | c :: t => !(isIdentFirstChar c) || !(identTailOK t)

/-- `QuoteIdent(segments...)`, segment `i` of `n`. -/
def quoteIdentSeg (i n : Nat) (seg : List Char) : List Char :=
  let needQuote := identNeedsQuotes seg || (i + 1 < n && seg != []) || ((i == 0 || i + 1 == n) && seg == [])
  let body := replaceAll qiReplacer seg
  let q := if needQuote then ['"'] ++ body ++ ['"'] else body
  if i + 1 < n then q ++ ['.'] else q

def quoteIdentAux (n : Nat) : Nat → List (List Char) → List Char
  | _, [] => []
  | i, seg :: rest => quoteIdentSeg i n seg ++ quoteIdentAux n (i + 1) rest

def quoteIdent (segments : List (List Char)) : List Char := quoteIdentAux segments.length 0 segments

end InfluxQL

/-
Abstract model of concurrent use for C17: operations as sequences of atomic steps with read /
write footprints over abstract locations; a schedule is any interleaving.

This is a model of *footprints*, not of Go executions: there is no Go memory model here (steps
are atomic and sequentially consistent by construction), no scheduler, no synchronisation. The
theorems say: if the footprints of the operations are as extracted from the source (nobody writes
what somebody else can access), then no interleaving of their steps has two conflicting accesses
and every operation computes what it computes alone. Whether the compiled program's accesses are
the extracted ones is checked dynamically (race detector), not proved.
-/
namespace InfluxQL.Sched

/-- Abstract locations, by owner. -/
inductive Loc where
  /-- package-level variables and what they refer to (keyword map, token table, replacers, compiled
      regular expressions, the `Language` parse tree) -/
  | global (n : Nat)
  /-- cells of the one shared AST, and the library objects hanging off it -/
  | shared (n : Nat)
  /-- whatever goroutine `g` allocates itself: parser and scanner state, builders, clones, results -/
  | priv (g n : Nat)
  deriving DecidableEq, Repr

abbrev Mem := Loc → Int

/-- One atomic step of an operation: its footprint and what it computes. -/
structure Step (σ : Type) where
  reads : List Loc
  writes : List Loc
  act : σ → Mem → σ × Mem

/-- Executing a step: it sees only its read footprint and changes only its write footprint. -/
def Step.exec {σ : Type} (st : Step σ) (s : σ) (m : Mem) : σ × Mem :=
  let r := st.act s (fun l => if l ∈ st.reads then m l else 0)
  (r.1, fun l => if l ∈ st.writes then r.2 l else m l)

/-- An operation as run by one goroutine: local state and the steps to take. -/
structure Prog (σ : Type) where
  init : σ
  steps : List (Step σ)

/-- The first `k` steps of the operation run alone on memory `m0`. -/
def Prog.alone {σ : Type} (p : Prog σ) (m0 : Mem) : Nat → σ × Mem
  | 0 => (p.init, m0)
  | k + 1 =>
    match p.steps[k]? with
    | some st => st.exec (p.alone m0 k).1 (p.alone m0 k).2
    | none => p.alone m0 k

/-- The result of the same call made alone. -/
def Prog.result {σ : Type} (p : Prog σ) (m0 : Mem) : σ := (p.alone m0 p.steps.length).1

/-- Shared memory plus, per goroutine, its local state and program counter. -/
structure Config (σ : Type) where
  mem : Mem
  locals : List (σ × Nat)

def initial {σ : Type} (ps : List (Prog σ)) (m0 : Mem) : Config σ :=
  { mem := m0, locals := ps.map fun p => (p.init, 0) }

/-- The step goroutine `g` would take next. -/
def nextStep {σ : Type} (ps : List (Prog σ)) (c : Config σ) (g : Nat) : Option (Step σ) :=
  match ps[g]?, c.locals[g]? with
  | some p, some (_, pc) => p.steps[pc]?
  | _, _ => none

/-- Goroutine `g` takes its next step (nothing happens if it has finished or does not exist). -/
def step {σ : Type} (ps : List (Prog σ)) (c : Config σ) (g : Nat) : Config σ :=
  match nextStep ps c g, c.locals[g]? with
  | some st, some (s, pc) =>
    let r := st.exec s c.mem
    { mem := r.2, locals := c.locals.set g (r.1, pc + 1) }
  | _, _ => c

/-- A schedule is any list of goroutine numbers. -/
def run {σ : Type} (ps : List (Prog σ)) (c : Config σ) (sch : List Nat) : Config σ :=
  sch.foldl (step ps) c

/-- The steps actually executed, in order, with the goroutine that executed them. -/
def trace {σ : Type} (ps : List (Prog σ)) : Config σ → List Nat → List (Nat × Step σ)
  | _, [] => []
  | c, g :: sch =>
    match nextStep ps c g with
    | some st => (g, st) :: trace ps (step ps c g) sch
    | none => trace ps (step ps c g) sch

/-- Two steps conflict: one location, at least one of the accesses a write. -/
def Conflict {σ : Type} (s t : Step σ) : Prop :=
  ∃ l, (l ∈ s.writes ∧ (l ∈ t.reads ∨ l ∈ t.writes)) ∨ (l ∈ t.writes ∧ (l ∈ s.reads ∨ l ∈ s.writes))

/-- A data race in an executed trace: two conflicting steps of different goroutines. (The model
has no synchronisation, so steps of different goroutines are never ordered by happens-before.) -/
def Race {σ : Type} (tr : List (Nat × Step σ)) : Prop :=
  ∃ (g : Nat) (s : Step σ) (g' : Nat) (t : Step σ), (g, s) ∈ tr ∧ (g', t) ∈ tr ∧ g ≠ g' ∧ Conflict s t

/-- No operation writes a location another operation can access. -/
def NoSharedWrites {σ : Type} (ps : List (Prog σ)) : Prop :=
  ∀ (g g' : Nat) (p p' : Prog σ), g ≠ g' → ps[g]? = some p → ps[g']? = some p' →
    ∀ s : Step σ, s ∈ p.steps → ∀ t : Step σ, t ∈ p'.steps →
      ∀ l : Loc, l ∈ s.writes → l ∉ t.reads ∧ l ∉ t.writes

/-- The location is accessed by some step of the operation. -/
def Accesses {σ : Type} (p : Prog σ) (l : Loc) : Prop :=
  ∃ s : Step σ, s ∈ p.steps ∧ (l ∈ s.reads ∨ l ∈ s.writes)

/-! ### The ownership discipline the extracted facts describe -/

def Loc.ownedBy (g : Nat) : Loc → Bool
  | .priv g' _ => g' == g
  | _ => false

def Loc.visibleTo (g : Nat) : Loc → Bool
  | .priv g' _ => g' == g
  | _ => true

/-- Goroutine `g` writes only what it allocated itself and reads only that, the shared AST and the
package-level data. -/
def ConfinedProg {σ : Type} (g : Nat) (p : Prog σ) : Prop :=
  ∀ s : Step σ, s ∈ p.steps →
    (∀ l : Loc, l ∈ s.writes → l.ownedBy g = true) ∧ (∀ l : Loc, l ∈ s.reads → l.visibleTo g = true)

end InfluxQL.Sched

import InfluxQL.Model.CondReduce
import InfluxQL.Model.ParserCore
/-
`ConditionExpr`, `conditionExpr`, `getTimeRange`, `TimeRange` (ast.go).

`TimeRange{Min, Max time.Time}` uses the zero `time.Time` for "no bound"; the model keeps that
representation (`zeroTime` as the sentinel) so that the question "can a real bound collide with
the sentinel" is a lemma and not a modelling decision. Instants are exact `Int` nanoseconds;
only the `…Nano` accessors go through `UnixNano()` and wrap.
-/
namespace InfluxQL
open Gen
open InfluxQL.CondTime

/-- `MinTime` / `MaxTime` (ast.go constants): `math.MinInt64 + 2`, `math.MaxInt64 - 1`. -/
def minTimeC : Int := minInt64 + 2
def maxTimeC : Int := maxInt64 - 1

structure TimeRange where
  min : Int := zeroTime
  max : Int := zeroTime
  deriving Repr, DecidableEq, Inhabited

namespace TimeRange

/-- `TimeRange.Intersect`. -/
def intersect (t other : TimeRange) : TimeRange :=
  let mn := if other.min ≠ zeroTime ∧ (t.min = zeroTime ∨ other.min > t.min) then other.min else t.min
  let mx := if other.max ≠ zeroTime ∧ (t.max = zeroTime ∨ other.max < t.max) then other.max else t.max
  ⟨mn, mx⟩

/-- `TimeRange.IsZero`. -/
def isZero (t : TimeRange) : Bool := t.min == zeroTime && t.max == zeroTime

/-- `TimeRange.MinTime()` / `MaxTime()`: the bound, or the smallest / largest timestamp. -/
def minTime (t : TimeRange) : Int := if t.min = zeroTime then minTimeC else t.min
def maxTime (t : TimeRange) : Int := if t.max = zeroTime then maxTimeC else t.max

/-- `TimeRange.MinTimeNano()` / `MaxTimeNano()`: `UnixNano()` is computed in `int64` and wraps. -/
def minTimeNano (t : TimeRange) : Int := if t.min = zeroTime then minTimeC else wrap64 t.min
def maxTimeNano (t : TimeRange) : Int := if t.max = zeroTime then maxTimeC else wrap64 t.max

/-- The timestamp lies in the inclusive range (an unset bound does not constrain). -/
def contains (tr : TimeRange) (t : Int) : Bool :=
  (tr.min == zeroTime || decide (tr.min ≤ t)) && (tr.max == zeroTime || decide (t ≤ tr.max))

end TimeRange

inductive CondErr where
  | invalidCond (printed : Str)       -- "invalid condition expression: %s"
  | invalidTime                       -- ErrInvalidTime
  | overflow (t : Int)                -- "time %s overflows time literal"
  | underflow (t : Int)               -- "time %s underflows time literal"
  | incompatible (typeName : Str)     -- "invalid operation: time and %T are not compatible"
  | badOp (op : Str)                  -- "invalid time comparison operator: %s"
  deriving Repr, DecidableEq

/-- `%T` of an expression node. -/
def Expr.goType : Expr → Str
  | .binary .. => "*influxql.BinaryExpr".toList
  | .paren _ => "*influxql.ParenExpr".toList
  | .call .. => "*influxql.Call".toList
  | .varRef .. => "*influxql.VarRef".toList
  | .distinct _ => "*influxql.Distinct".toList
  | .wildcard _ => "*influxql.Wildcard".toList
  | .regex _ => "*influxql.RegexLiteral".toList
  | .string _ => "*influxql.StringLiteral".toList
  | .number _ => "*influxql.NumberLiteral".toList
  | .integer _ => "*influxql.IntegerLiteral".toList
  | .unsigned _ => "*influxql.UnsignedLiteral".toList
  | .boolean _ => "*influxql.BooleanLiteral".toList
  | .duration _ => "*influxql.DurationLiteral".toList
  | .time _ => "*influxql.TimeLiteral".toList
  | .nil => "*influxql.NilLiteral".toList
  | .list _ => "*influxql.ListLiteral".toList
  | .boundParam _ => "*influxql.BoundParameter".toList

/-- The error text, except that the two range errors carry the instant instead of its rendering
in the literal's own zone. -/
def CondErr.render : CondErr → Str
  | .invalidCond p => "invalid condition expression: ".toList ++ p
  | .invalidTime => "invalid timestamp string".toList
  | .overflow _ => "time overflows time literal".toList
  | .underflow _ => "time underflows time literal".toList
  | .incompatible ty => "invalid operation: time and ".toList ++ ty ++ " are not compatible".toList
  | .badOp op => "invalid time comparison operator: ".toList ++ op

structure CCtx where
  r : RCtx
  lowerTbl : List (Char × Char) := []

/-- The context of `creduce(…, nil)`. -/
def CCtx.nilR (c : CCtx) : RCtx := { valuer := none, fa := c.r.fa }

/-- `valuer.(ZoneValuer).Zone()`: may be nil. -/
def RCtx.zoneOpt (c : RCtx) : Option Int := c.valuer.bind (·.loc)

/-- `e.(*VarRef)` with `strings.ToLower(Val) == "time"`. -/
def isTimeRef (tbl : List (Char × Char)) : Expr → Bool
  | .varRef v _ => lowerStr tbl v == ['t', 'i', 'm', 'e']
  | _ => false

/-- The bound a comparison operator puts on `time`. -/
def rangeOf (op : Token) (value : Int) : Option TimeRange :=
  match op with
  | .GT => some { min := value + 1 }
  | .GTE => some { min := value }
  | .LT => some { max := value - 1 }
  | .LTE => some { max := value }
  | .EQ => some { min := value, max := value }
  | _ => none

/-- The instant a reduced right-hand side stands for (`getTimeRange`, the type switch). -/
def timeValue (rhs : Expr) : Except CondErr Int :=
  match rhs with
  | .time t =>
    if t > maxTimeC then .error (.overflow t)
    else if t < minTimeC + 1 then .error (.underflow t)
    else .ok t
  | .duration d => .ok d
  | .number n => .ok n.toInt64
  | .integer i => .ok i
  | other => .error (.incompatible other.goType)

/-- `getTimeRange(op, rhs, valuer)`. -/
def getTimeRange (c : RCtx) (op : Token) (rhs : Expr) : Except CondErr TimeRange := do
  let rhs1 ← (match rhs with
    | .string s =>
      if isTimeLiteral s then
        match toTimeLiteral s c.zoneOpt with
        | some t => .ok (.time t)
        | none => .error .invalidTime
      else .ok rhs
    | _ => .ok rhs : Except CondErr Expr)
  let value ← timeValue (CReduce c rhs1)
  match rangeOf op value with
  | some tr => .ok tr
  | none => .error (.badOp op.str)

/-- The operator seen from the other side (`literal ⋈ time`). -/
def swapOp : Token → Token
  | .GT => .LT
  | .LT => .GT
  | .GTE => .LTE
  | .LTE => .GTE
  | op => op

/-- `conditionExpr(cond, valuer)` for a non-nil condition. -/
def conditionExpr (c : CCtx) : Expr → Except CondErr (Option Expr × TimeRange)
  | .binary op l r =>
    if op = .AND ∨ op = .OR then
      match conditionExpr c l with
      | .error e => .error e
      | .ok (le, lt) =>
        match conditionExpr c r with
        | .error e => .error e
        | .ok (re, rt) =>
          let tr := lt.intersect rt
          match le, re with
          | _, none => .ok (le, tr)
          | none, some r' => .ok (some r', tr)
          | some l', some r' => .ok (some (creduce c.nilR (.binary op l' r')), tr)
    else if isTimeRef c.lowerTbl l then
      match getTimeRange c.r op r with
      | .ok tr => .ok (none, tr)
      | .error e => .error e
    else if isTimeRef c.lowerTbl r then
      match getTimeRange c.r (swapOp op) l with
      | .ok tr => .ok (none, tr)
      | .error e => .error e
    else .ok (some (creduce c.r (.binary op l r)), {})
  | .paren e =>
    match conditionExpr c e with
    | .error err => .error err
    | .ok (none, tr) => .ok (none, tr)
    | .ok (some e', tr) => .ok (some (creduce c.nilR (.paren e')), tr)
  | .boolean b => .ok (some (.boolean b), {})
  | e => .error (.invalidCond e.print)

/-- "Remove top level parentheses". -/
def stripTopParen : Option Expr → Option Expr
  | some (.paren inner) => some inner
  | r => r

/-- "If the condition is true, return nil instead to indicate there is no condition." -/
def dropTrue : Option Expr → Option Expr
  | some (.boolean true) => none
  | r => r

/-- `ConditionExpr(cond, valuer)`; `cond = none` is the nil condition. -/
def ConditionExpr (c : CCtx) (cond : Option Expr) : Except CondErr (Option Expr × TimeRange) :=
  match cond with
  | none => .ok (none, {})
  | some e =>
    match conditionExpr c e with
    | .error err => .error err
    | .ok (res, tr) => .ok (dropTrue (stripTopParen res), tr)

end InfluxQL

import InfluxQL.Model.Ast
import InfluxQL.Model.Quote
import InfluxQL.Model.Duration
import InfluxQL.Model.Time
/-
`String()` of expressions and of the small AST nodes (ast.go).
-/
namespace InfluxQL
open Gen

def joinWith (sep : Str) : List Str → Str
  | [] => []
  | [x] => x
  | x :: rest => x ++ sep ++ joinWith sep rest

/-- Digits of `n` left-padded with zeros to `width`. -/
def padDigits (width : Nat) (n : Nat) : Str :=
  let ds := natDigits n
  List.replicate (width - ds.length) '0' ++ ds

/-- `NumberLiteral.String()`: `strconv.FormatFloat(v, 'f', -1, 64)`, with `.0` appended when
there is no decimal point. For a literal that was written with at most 15 significant digits
this is the written value in canonical form. -/
def Dec.print (d : Dec) : Str :=
  let neg := d.neg
  let m := d.mant
  let p := 10 ^ d.scale
  let ip := m / p
  let fp := m % p
  let fracDigits := dropTrailingZeros (padDigits d.scale fp)
  (if neg then ['-'] else []) ++ natDigits ip ++ ['.'] ++ (if fracDigits = [] then ['0'] else fracDigits)

/-- `strings.Replace(s, "/", "\/", -1)`. -/
def escapeSlashes (s : Str) : Str := s.flatMap (fun c => if c = '/' then ['\\', '/'] else [c])

mutual
  /-- `Expr.String()`. -/
  def Expr.print : Expr → Str
    | .binary op l r => l.print ++ [' '] ++ op.str ++ [' '] ++ r.print
    | .paren e => ['('] ++ e.print ++ [')']
    | .call name args => name ++ ['('] ++ joinWith [',', ' '] (printArgs args) ++ [')']
    | .varRef v t => quoteIdent [v] ++ (if t = .Unknown then [] else [':', ':'] ++ t.str)
    | .distinct v => "DISTINCT ".toList ++ quoteIdent [v]
    | .wildcard t => if t = .FIELD then "*::field".toList else if t = .TAG then "*::tag".toList else ['*']
    | .regex src => ['/'] ++ escapeSlashes src ++ ['/']
    | .string v => quoteString v
    | .number v => v.print
    | .integer v => intDigits v
    | .unsigned v => natDigits v
    | .boolean b => if b then "true".toList else "false".toList
    | .duration ns => formatDuration ns
    | .time ns => ['\''] ++ formatRFC3339Nano ns ++ ['\'']
    | .nil => "nil".toList
    | .list vals => ['('] ++ joinWith [',', ' '] (vals.map (fun k => quoteIdent [k])) ++ [')']
    | .boundParam name => ['$'] ++ quoteIdent [name]
  def printArgs : List Expr → List Str
    | [] => []
    | a :: rest => a.print :: printArgs rest
end

/-- `Measurement.String()`. -/
def Measurement.print (m : Measurement) : Str :=
  (if m.database ≠ [] then quoteIdent [m.database] ++ ['.'] else []) ++
  (if m.retentionPolicy ≠ [] then quoteIdent [m.retentionPolicy] else []) ++
  (if m.database ≠ [] ∨ m.retentionPolicy ≠ [] then ['.'] else []) ++
  (if m.name ≠ [] ∧ m.systemIterator = [] then quoteIdent [m.name]
   else if m.systemIterator ≠ [] then quoteIdent [m.systemIterator]
   else match m.regex with
     | some src => ['/'] ++ escapeSlashes src ++ ['/']
     | none => [])

/-- `SortField.String()`. -/
def SortField.print (f : SortField) : Str :=
  (if f.name ≠ [] then f.name ++ [' '] else []) ++ (if f.ascending then "ASC".toList else "DESC".toList)

/-- `Field.String()`. -/
def Field.print (f : Field) : Str :=
  if f.alias = [] then f.expr.print else f.expr.print ++ " AS ".toList ++ quoteIdent [f.alias]

end InfluxQL

import InfluxQL.Gen.Clone
import InfluxQL.Model.GroupBy
import InfluxQL.Model.Columns
import InfluxQL.Model.Fields
import InfluxQL.Model.Reduce
import InfluxQL.Model.Regex
/-
Checked models of the operations of ast.go / utils.go that contain inventoried panic sites
(`Gen/SitesAst.lean`) — property C13.

Every place where the Go runtime can panic for a reason visible in the syntax is an explicit
*checked* primitive that returns `OpRes.panic` when Go would panic:

  x[i]            `idx`        x[i] = v       `setIdx`
  x[i:]           `sliceFrom`  x[:j]          `sliceTo`       x[i:j]   `slice`
  x.(*T)          `assertT`    (unchecked type assertion; the argument is the result of the
                               comma-ok form)
  a / b, a % b    `divI64`, `remI64`, `divU64`, `remU64`
  panic("…")      `goPanic`

Index arithmetic is done in `Int` (Go `int`), so `len(x)-1` on an empty slice is `-1`, not `0`.
Each primitive takes the `Site` (function, kind, expression text) it stands for; the sites are the
entries of `modelledSites`, which Props/C13.lean compares with the regenerated inventory.

Where a total model of the same function already exists (C09 `Reduce`/`Eval`, C11 regex rewrite,
C20 `ColumnNames`, C12 `FieldExprByName`), Props/C13.lean proves the checked model equal to
`.ok` of that model, which ties the checked model to the differential streams of those properties.
-/
namespace InfluxQL.Checked
open InfluxQL Gen

/-- (function, kind, expression) exactly as the extractor prints it. -/
abbrev Site := String × String × String

def Site.str (s : Site) : Str := (s.1 ++ ": " ++ s.2.2).toList

/-! ## The monad -/

def bind {α β} (x : OpRes α) (f : α → OpRes β) : OpRes β :=
  match x with
  | .ok a => f a
  | .err m => .err m
  | .panic s => .panic s

instance : Monad OpRes where
  pure := .ok
  bind := bind

/-! ## Checked primitives -/

section prims
variable {α : Type}

/-- `xs[i]`. -/
def idx (site : Site) (xs : List α) (i : Int) : OpRes α :=
  if 0 ≤ i then
    match xs[i.toNat]? with
    | some x => .ok x
    | none => .panic site.str
  else .panic site.str

/-- `xs[i] = v`. -/
def setIdx (site : Site) (xs : List α) (i : Int) (v : α) : OpRes (List α) :=
  if 0 ≤ i ∧ i < xs.length then .ok (xs.set i.toNat v) else .panic site.str

/-- `xs[i:]`. -/
def sliceFrom (site : Site) (xs : List α) (i : Int) : OpRes (List α) :=
  if 0 ≤ i ∧ i ≤ xs.length then .ok (xs.drop i.toNat) else .panic site.str

/-- `xs[:j]`. -/
def sliceTo (site : Site) (xs : List α) (j : Int) : OpRes (List α) :=
  if 0 ≤ j ∧ j ≤ xs.length then .ok (xs.take j.toNat) else .panic site.str

/-- `xs[i:j]`. -/
def slice (site : Site) (xs : List α) (i j : Int) : OpRes (List α) :=
  if 0 ≤ i ∧ i ≤ j ∧ j ≤ xs.length then .ok ((xs.take j.toNat).drop i.toNat) else .panic site.str

/-- `x.(*T)` without comma-ok; the argument is what `x.(*T)` with comma-ok yields. -/
def assertT (site : Site) (x : Option α) : OpRes α :=
  match x with
  | some a => .ok a
  | none => .panic site.str

/-- An explicit `panic(…)` statement. -/
def goPanic (site : Site) : OpRes α := .panic site.str

end prims

/-- `a / b` on `int64` (`MinInt64 / -1` wraps, it does not panic). -/
def divI64 (site : Site) (a b : Int) : OpRes Int :=
  if b = 0 then .panic site.str else .ok (wrap64 (a.tdiv b))

/-- `a % b` on `int64`. -/
def remI64 (site : Site) (a b : Int) : OpRes Int :=
  if b = 0 then .panic site.str else .ok (a.tmod b)

/-- `a / b` on `uint64`. -/
def divU64 (site : Site) (a b : Nat) : OpRes Nat :=
  if b = 0 then .panic site.str else .ok (a / b)

/-- `a % b` on `uint64`. -/
def remU64 (site : Site) (a b : Nat) : OpRes Nat :=
  if b = 0 then .panic site.str else .ok (a % b)

/-! ## The idiom `out := make([]T, len(xs)); for i, x := range xs { out[i] = f(x) }`

(`CloneExpr`, `ValuerEval.Eval`, `evalCallExprType`, `reduceCall` twice, `VarRefs.Strings`). -/

/-- The loop: `i` is the loop index, `out` the slice made before the loop. -/
def fillLoop {α β} (site : Site) (f : α → OpRes β) : List α → Int → List β → OpRes (List β)
  | [], _, out => .ok out
  | x :: rest, i, out => do
    let y ← f x
    let out' ← setIdx site out i y
    fillLoop site f rest (i + 1) out'

/-- `make` + loop; `zero` is the zero value `make` fills the slice with. -/
def makeAndFill {α β} (site : Site) (zero : β) (f : α → OpRes β) (xs : List α) : OpRes (List β) :=
  fillLoop site f xs 0 (List.replicate xs.length zero)

/-! ## Sites -/

def sTimeAscending : Site := ("SelectStatement.TimeAscending", "index", "s.SortFields[0]")
def sConj0 : Site := ("ExprsToConjunction", "index", "exprs[0]")
def sConjTail : Site := ("ExprsToConjunction", "slice", "exprs[1:]")
def sColArgs : Site := ("SelectStatement.ColumnNames", "slice", "f.Args[1:]")
def sColTime : Site := ("SelectStatement.ColumnNames", "index", "columnNames[0]")
def sColSlot : Site := ("SelectStatement.ColumnNames", "index", "columnNames[i+offset]")
def sFieldExprArgs : Site := ("SelectStatement.FieldExprByName", "slice", "call.Args[1 : len(call.Args)-1]")
def sTimeFieldsIdx : Site := ("SelectStatement.RewriteTimeFields", "index", "s.Fields[i]")
def sTimeFieldsPre : Site := ("SelectStatement.RewriteTimeFields", "slice", "s.Fields[:i]")
def sTimeFieldsPost : Site := ("SelectStatement.RewriteTimeFields", "slice", "s.Fields[i+1:]")
def sFieldsLessI : Site := ("Fields.Less", "index", "a[i]")
def sFieldsLessJ : Site := ("Fields.Less", "index", "a[j]")
def sFieldsSwapI : Site := ("Fields.Swap", "index", "a[i]")
def sFieldsSwapJ : Site := ("Fields.Swap", "index", "a[j]")
def sVarRefsLessI : Site := ("VarRefs.Less", "index", "a[i]")
def sVarRefsLessJ : Site := ("VarRefs.Less", "index", "a[j]")
def sVarRefsSwapI : Site := ("VarRefs.Swap", "index", "a[i]")
def sVarRefsSwapJ : Site := ("VarRefs.Swap", "index", "a[j]")
def sVarRefsStrings : Site := ("VarRefs.Strings", "index", "s[i]")
def sCloneArgs : Site := ("CloneExpr", "index", "args[i]")
def sCloneUnreachable : Site := ("CloneExpr", "panic", "panic(\"unreachable\")")
def sCloneSourceUnreachable : Site := ("cloneSource", "panic", "panic(\"unreachable\")")
def sEvalArgs : Site := ("ValuerEval.Eval", "index", "args[i]")
def sEvalTypeArgs : Site := ("TypeValuerEval.evalCallExprType", "index", "args[i]")
def sReduceCallArgs : Site := ("reduceCall", "index", "args[i]")
def sReduceCallVals : Site := ("reduceCall", "index", "argVals[i]")
def sRegexVals0 : Site := ("SelectStatement.RewriteRegexConditions", "index", "vals[0]")
def sRegexValsI : Site := ("SelectStatement.RewriteRegexConditions", "index", "vals[i]")
def sReduceDurDiv : Site := ("reduceBinaryExprDurationLHS", "divide", "lhs.Val / time.Duration(rhs.Val)")
def sReduceIntMod : Site := ("reduceBinaryExprIntegerLHS", "divide", "lhs.Val % rhs.Val")
def sReduceUintDiv : Site := ("reduceBinaryExprUnsignedLHS", "divide", "lhs.Val / rhs.Val")
def sReduceUintMod : Site := ("reduceBinaryExprUnsignedLHS", "divide", "lhs.Val % rhs.Val")
def sEvalDiv : Site := ("ValuerEval.evalBinaryExpr", "divide", "lhs / rhs")
def sEvalMod : Site := ("ValuerEval.evalBinaryExpr", "divide", "lhs % rhs")
def sEvalIUDiv : Site := ("ValuerEval.evalBinaryExpr", "divide", "uint64(lhs) / rhs")
def sEvalIUMod : Site := ("ValuerEval.evalBinaryExpr", "divide", "uint64(lhs) % rhs")
def sEvalUIDiv : Site := ("ValuerEval.evalBinaryExpr", "divide", "lhs / uint64(rhs)")
def sEvalUIMod : Site := ("ValuerEval.evalBinaryExpr", "divide", "lhs % uint64(rhs)")

/-! ## `SelectStatement.TimeAscending`, `ExprsToConjunction` -/

/-- `len(s.SortFields) == 0 || s.SortFields[0].Ascending`. -/
def timeAscending (sortFields : List SortField) : OpRes Bool :=
  if sortFields.length = 0 then .ok true
  else do
    let f ← idx sTimeAscending sortFields 0
    pure f.ascending

/-- `ExprsToConjunction(exprs...)`; `none` is the nil expression. -/
def exprsToConjunction (exprs : List Expr) : OpRes (Option Expr) :=
  if exprs.length = 0 then .ok none
  else do
    let expr ← idx sConj0 exprs 0
    let rest ← sliceFrom sConjTail exprs 1
    pure (some (rest.foldl (fun acc e => .binary .AND acc e) expr))

/-! ## `SelectStatement.ColumnNames` -/

/-- The body of the first loop for one field: the tag arguments of `top` / `bottom`. -/
def extraColumns (hasTarget : Bool) (f : Field) : OpRes (List Field) :=
  match f.expr with
  | .call name args =>
    if !hasTarget && (name = topLit || name = bottomLit) && decide (args.length > 1) then do
      let tl ← sliceFrom sColArgs args 1
      pure (tl.filterMap refColumn)
    else .ok []
  | _ => .ok []

/-- First loop: `columnFields`. -/
def columnFields (hasTarget : Bool) : List Field → OpRes (List Field)
  | [] => .ok []
  | f :: fs => do
    let extra ← extraColumns hasTarget f
    let rest ← columnFields hasTarget fs
    pure (f :: (extra ++ rest))

/-- "Resolve aliases first": `for i, col := range columnFields { if col.Alias != "" {
columnNames[i+offset] = col.Alias; names[col.Alias] = 1 } }`. -/
def aliasLoop (offset : Int) : List Field → Int → List Str → NameMap → OpRes (List Str × NameMap)
  | [], _, out, names => .ok (out, names)
  | c :: cs, i, out, names =>
    if c.alias ≠ [] then do
      let out' ← setIdx sColSlot out (i + offset) c.alias
      aliasLoop offset cs (i + 1) out' (names.set c.alias 1)
    else aliasLoop offset cs (i + 1) out names

/-- The error that stands for "the suffix loop never ends" (fuel exhausted); `C20` shows it is
never produced. -/
def errSuffixLoop : Str := "ColumnNames: suffix loop does not terminate".toList

/-- "Resolve any generated names and resolve conflicts". -/
def nameLoop (offset : Int) : List Field → Int → List Str → NameMap → OpRes (List Str)
  | [], _, out, _ => .ok out
  | c :: cs, i, out, names => do
    let cur ← idx sColSlot out (i + offset)
    if cur ≠ [] then nameLoop offset cs (i + 1) out names
    else
      match resolveName names c.name with
      | none => .err errSuffixLoop
      | some (names', n) => do
        let out' ← setIdx sColSlot out (i + offset) n
        nameLoop offset cs (i + 1) out' names'

/-- `ColumnNames` on the parts of the statement it reads. -/
def columnNamesOf (fields : List Field) (hasTarget omitTime : Bool) (timeAlias : Str) : OpRes (List Str) := do
  let cols ← columnFields hasTarget fields
  let offset : Int := if omitTime then 0 else 1
  let out0 : List Str := List.replicate (cols.length + offset).toNat []
  let out1 ← if !omitTime then setIdx sColTime out0 0 (timeFieldName timeAlias) else pure out0
  let (out2, names) ← aliasLoop offset cols 0 out1 []
  nameLoop offset cols 0 out2 names

/-- `SelectStatement.ColumnNames()`. -/
def columnNames (s : SelectStmt) : OpRes (List Str) :=
  columnNamesOf s.fields s.target.isSome s.omitTime s.timeAlias

/-! ## `SelectStatement.FieldExprByName` -/

/-- The loop of `FieldExprByName`; `(-1, none)` is "not found". -/
def fieldExprByNameLoop (name : Str) : List Field → Int → OpRes (Int × Option Expr)
  | [], _ => .ok (-1, none)
  | f :: rest, i =>
    if f.name = name then .ok (i, some f.expr)
    else
      match f.expr with
      | .call cn args =>
        if (cn = topLit ∨ cn = bottomLit) ∧ args.length > 2 then do
          let mid ← slice sFieldExprArgs args 1 ((args.length : Int) - 1)
          match findRefArg name mid with
          | some a => pure (i, some a)
          | none => fieldExprByNameLoop name rest (i + 1)
        else fieldExprByNameLoop name rest (i + 1)
      | _ => fieldExprByNameLoop name rest (i + 1)

def fieldExprByName (name : Str) (fields : List Field) : OpRes (Int × Option Expr) :=
  fieldExprByNameLoop name fields 0

/-! ## `SelectStatement.RewriteTimeFields` -/

/-- `for i := 0; i < len(s.Fields); i++ { … }`; the slice shrinks while the index advances (so the
field after a removed one is skipped — as in the code). `fuel` bounds the number of iterations;
`.err` = fuel exhausted (never, see `rewriteTimeFields_ok`). -/
def timeFieldsLoop : Nat → Int → List Field → Str → OpRes (List Field × Str)
  | 0, _, _, _ => .err "RewriteTimeFields: out of fuel".toList
  | fuel + 1, i, fields, timeAlias =>
    if i < fields.length then do
      let f ← idx sTimeFieldsIdx fields i
      match f.expr with
      | .varRef v _ =>
        if v = timeLit then do
          let f' ← idx sTimeFieldsIdx fields i
          let pre ← sliceTo sTimeFieldsPre fields i
          let post ← sliceFrom sTimeFieldsPost fields (i + 1)
          timeFieldsLoop fuel (i + 1) (pre ++ post) f'.alias
        else timeFieldsLoop fuel (i + 1) fields timeAlias
      | _ => timeFieldsLoop fuel (i + 1) fields timeAlias
    else .ok (fields, timeAlias)

/-- `RewriteTimeFields`: the new `Fields` and `TimeAlias`. -/
def rewriteTimeFields (fields : List Field) (timeAlias : Str) : OpRes (List Field × Str) :=
  timeFieldsLoop (fields.length + 2) 0 fields timeAlias

/-! ## `sort.Interface` of `Fields` and `VarRefs`, `VarRefs.Strings` -/

/-- `Fields.Less(i, j)`. -/
def fieldsLess (a : List Field) (i j : Int) : OpRes Bool := do
  let x ← idx sFieldsLessI a i
  let y ← idx sFieldsLessJ a j
  pure (strLt x.name y.name)

/-- `Fields.Swap(i, j)`: `a[i], a[j] = a[j], a[i]` (both reads, then both writes). -/
def fieldsSwap (a : List Field) (i j : Int) : OpRes (List Field) := do
  let y ← idx sFieldsSwapJ a j
  let x ← idx sFieldsSwapI a i
  let a' ← setIdx sFieldsSwapI a i y
  setIdx sFieldsSwapJ a' j x

/-- `VarRefs.Less(i, j)`. -/
def varRefsLess (a : List ColRef) (i j : Int) : OpRes Bool := do
  let x ← idx sVarRefsLessI a i
  let y ← idx sVarRefsLessJ a j
  pure (x.less y)

/-- `VarRefs.Swap(i, j)`. -/
def varRefsSwap (a : List ColRef) (i j : Int) : OpRes (List ColRef) := do
  let y ← idx sVarRefsSwapJ a j
  let x ← idx sVarRefsSwapI a i
  let a' ← setIdx sVarRefsSwapI a i y
  setIdx sVarRefsSwapJ a' j x

/-- `VarRefs.Strings()`. -/
def varRefsStrings (a : List ColRef) : OpRes (List Str) :=
  makeAndFill sVarRefsStrings [] (fun r => .ok r.name) a

/-! ## `CloneExpr`, `cloneSource`, `Measurement.Clone`, `SelectStatement.Clone`

The `panic("unreachable")` after the type switches is reached when the dynamic type of the value
has no `case`. The cases are read off the *regenerated* clone table (`Gen.cloneTable`: one row per
(routine, struct type) the routine has a case for), so the theorems depend on the switch as it is
in /repo today. -/

def nBinaryExpr : Str := ['B', 'i', 'n', 'a', 'r', 'y', 'E', 'x', 'p', 'r']
def nParenExpr : Str := ['P', 'a', 'r', 'e', 'n', 'E', 'x', 'p', 'r']
def nCall : Str := ['C', 'a', 'l', 'l']
def nVarRef : Str := ['V', 'a', 'r', 'R', 'e', 'f']
def nDistinct : Str := ['D', 'i', 's', 't', 'i', 'n', 'c', 't']
def nWildcard : Str := ['W', 'i', 'l', 'd', 'c', 'a', 'r', 'd']
def nRegexLiteral : Str := ['R', 'e', 'g', 'e', 'x', 'L', 'i', 't', 'e', 'r', 'a', 'l']
def nStringLiteral : Str := ['S', 't', 'r', 'i', 'n', 'g', 'L', 'i', 't', 'e', 'r', 'a', 'l']
def nNumberLiteral : Str := ['N', 'u', 'm', 'b', 'e', 'r', 'L', 'i', 't', 'e', 'r', 'a', 'l']
def nIntegerLiteral : Str := ['I', 'n', 't', 'e', 'g', 'e', 'r', 'L', 'i', 't', 'e', 'r', 'a', 'l']
def nUnsignedLiteral : Str := ['U', 'n', 's', 'i', 'g', 'n', 'e', 'd', 'L', 'i', 't', 'e', 'r', 'a', 'l']
def nBooleanLiteral : Str := ['B', 'o', 'o', 'l', 'e', 'a', 'n', 'L', 'i', 't', 'e', 'r', 'a', 'l']
def nDurationLiteral : Str := ['D', 'u', 'r', 'a', 't', 'i', 'o', 'n', 'L', 'i', 't', 'e', 'r', 'a', 'l']
def nTimeLiteral : Str := ['T', 'i', 'm', 'e', 'L', 'i', 't', 'e', 'r', 'a', 'l']
def nNilLiteral : Str := ['N', 'i', 'l', 'L', 'i', 't', 'e', 'r', 'a', 'l']
def nListLiteral : Str := ['L', 'i', 's', 't', 'L', 'i', 't', 'e', 'r', 'a', 'l']
def nBoundParameter : Str := ['B', 'o', 'u', 'n', 'd', 'P', 'a', 'r', 'a', 'm', 'e', 't', 'e', 'r']
def nMeasurement : Str := ['M', 'e', 'a', 's', 'u', 'r', 'e', 'm', 'e', 'n', 't']
def nSubQuery : Str := ['S', 'u', 'b', 'Q', 'u', 'e', 'r', 'y']
def nCloneExpr : Str := ['C', 'l', 'o', 'n', 'e', 'E', 'x', 'p', 'r']
def nCloneSource : Str := ['c', 'l', 'o', 'n', 'e', 'S', 'o', 'u', 'r', 'c', 'e']

/-- The Go struct type behind each constructor of the model's `Expr`. -/
def exprGoType : Expr → Str
  | .binary .. => nBinaryExpr | .paren _ => nParenExpr | .call .. => nCall | .varRef .. => nVarRef
  | .distinct _ => nDistinct | .wildcard _ => nWildcard | .regex _ => nRegexLiteral
  | .string _ => nStringLiteral | .number _ => nNumberLiteral | .integer _ => nIntegerLiteral
  | .unsigned _ => nUnsignedLiteral | .boolean _ => nBooleanLiteral | .duration _ => nDurationLiteral
  | .time _ => nTimeLiteral | .nil => nNilLiteral | .list _ => nListLiteral
  | .boundParam _ => nBoundParameter

/-- The Go struct types of the model's `Expr` constructors (one per constructor). -/
def modelExprTypes : List Str :=
  [nBinaryExpr, nParenExpr, nCall, nVarRef, nDistinct, nWildcard, nRegexLiteral, nStringLiteral,
   nNumberLiteral, nIntegerLiteral, nUnsignedLiteral, nBooleanLiteral, nDurationLiteral, nTimeLiteral,
   nNilLiteral, nListLiteral, nBoundParameter]

/-- The Go struct types of the model's `Source` constructors. -/
def modelSourceTypes : List Str := [nMeasurement, nSubQuery]

/-- Does the type switch of clone routine `routine` have a `case *ty`? (from the regenerated table) -/
def switchHasCase (routine ty : Str) : Bool :=
  Gen.cloneTable.any fun r => Gen.routineNames[r.routine]? == some routine && Gen.structNames[r.ty]? == some ty

/-- One `case *ty:` of a type switch that ends in `panic("unreachable")`. -/
def caseOrPanic {α} (site : Site) (routine ty : Str) (body : OpRes α) : OpRes α :=
  if switchHasCase routine ty then body else goPanic site

mutual
  /-- `CloneExpr` on a non-nil expression. -/
  def cloneExpr : Expr → OpRes Expr
    | .binary op l r => caseOrPanic sCloneUnreachable nCloneExpr nBinaryExpr do
        let l' ← cloneExpr l
        let r' ← cloneExpr r
        pure (.binary op l' r')
    | .boolean v => caseOrPanic sCloneUnreachable nCloneExpr nBooleanLiteral (pure (.boolean v))
    | .call name args => caseOrPanic sCloneUnreachable nCloneExpr nCall do
        let out ← cloneArgsLoop args 0 (List.replicate args.length default)
        pure (.call name out)
    | .distinct v => caseOrPanic sCloneUnreachable nCloneExpr nDistinct (pure (.distinct v))
    | .duration v => caseOrPanic sCloneUnreachable nCloneExpr nDurationLiteral (pure (.duration v))
    | .integer v => caseOrPanic sCloneUnreachable nCloneExpr nIntegerLiteral (pure (.integer v))
    | .unsigned v => caseOrPanic sCloneUnreachable nCloneExpr nUnsignedLiteral (pure (.unsigned v))
    | .number v => caseOrPanic sCloneUnreachable nCloneExpr nNumberLiteral (pure (.number v))
    | .paren e => caseOrPanic sCloneUnreachable nCloneExpr nParenExpr do
        let e' ← cloneExpr e
        pure (.paren e')
    | .regex v => caseOrPanic sCloneUnreachable nCloneExpr nRegexLiteral (pure (.regex v))
    | .string v => caseOrPanic sCloneUnreachable nCloneExpr nStringLiteral (pure (.string v))
    | .time v => caseOrPanic sCloneUnreachable nCloneExpr nTimeLiteral (pure (.time v))
    | .varRef v t => caseOrPanic sCloneUnreachable nCloneExpr nVarRef (pure (.varRef v t))
    | .wildcard t => caseOrPanic sCloneUnreachable nCloneExpr nWildcard (pure (.wildcard t))
    | .nil => caseOrPanic sCloneUnreachable nCloneExpr nNilLiteral (pure .nil)
    | .boundParam n => caseOrPanic sCloneUnreachable nCloneExpr nBoundParameter (pure (.boundParam n))
    | .list vals => caseOrPanic sCloneUnreachable nCloneExpr nListLiteral (pure (.list ([] ++ vals)))
  /-- `args := make([]Expr, len(expr.Args)); for i, arg := range expr.Args { args[i] = CloneExpr(arg) }`. -/
  def cloneArgsLoop : List Expr → Int → List Expr → OpRes (List Expr)
    | [], _, out => .ok out
    | a :: rest, i, out => do
      let a' ← cloneExpr a
      let out' ← setIdx sCloneArgs out i a'
      cloneArgsLoop rest (i + 1) out'
end

/-- `CloneExpr(expr)` where `expr` may be the nil interface. -/
def cloneExprOpt : Option Expr → OpRes (Option Expr)
  | none => .ok none
  | some e => do
    let e' ← cloneExpr e
    pure (some e')

/-- `Measurement.Clone` (and the composite literal for `Target.Measurement` in
`SelectStatement.Clone`): every field copied, the regex recompiled from its source. -/
def cloneMeasurement (m : Measurement) : Measurement :=
  { database := m.database, retentionPolicy := m.retentionPolicy, name := m.name, regex := m.regex,
    isTarget := m.isTarget, systemIterator := m.systemIterator }

/-- `for _, f := range s.Fields { clone.Fields = append(…, &Field{Expr: CloneExpr(f.Expr), Alias: f.Alias}) }`. -/
def cloneFields : List Field → OpRes (List Field)
  | [] => .ok []
  | f :: fs => do
    let e ← cloneExpr f.expr
    let rest ← cloneFields fs
    pure ({ expr := e, alias := f.alias } :: rest)

/-- `for _, d := range s.Dimensions { … &Dimension{Expr: CloneExpr(d.Expr)} }`. -/
def cloneDims : List Expr → OpRes (List Expr)
  | [] => .ok []
  | d :: ds => do
    let e ← cloneExpr d
    let rest ← cloneDims ds
    pure (e :: rest)

mutual
  /-- `SelectStatement.Clone`. -/
  def cloneSelect : SelectStmt → OpRes SelectStmt
    | .mk fields target dims sources cond sortFields l o sl so raw fill fv loc ta ot sn en dd => do
      let sources' ← cloneSources sources
      let cond' ← cloneExprOpt cond
      let target' := target.map cloneMeasurement
      let fields' ← cloneFields fields
      let dims' ← cloneDims dims
      let sortFields' := sortFields.map fun f => ({ name := f.name, ascending := f.ascending } : SortField)
      pure (.mk fields' target' dims' sources' cond' sortFields' l o sl so raw fill fv loc ta ot sn en dd)
  /-- `cloneSources`. -/
  def cloneSources : List Source → OpRes (List Source)
    | [] => .ok []
    | s :: rest => do
      let s' ← cloneSource s
      let rest' ← cloneSources rest
      pure (s' :: rest')
  /-- `cloneSource` on a non-nil source. -/
  def cloneSource : Source → OpRes Source
    | .measurement m =>
      caseOrPanic sCloneSourceUnreachable nCloneSource nMeasurement (pure (.measurement (cloneMeasurement m)))
    | .subquery s => caseOrPanic sCloneSourceUnreachable nCloneSource nSubQuery do
        let s' ← cloneSelect s
        pure (.subquery s')
end

/-! ## `SelectStatement.RewriteRegexConditions` (with `RewriteExpr`) -/

/-- `for i := 1; i < len(vals); i++ { expr = &BinaryExpr{Op: concatOp, LHS: expr, RHS: … vals[i] … } }`;
`.err` = fuel exhausted (never). -/
def regexChainLoop (op cop : Token) (lhs : Expr) (vals : List Str) : Nat → Int → Expr → OpRes Expr
  | 0, _, _ => .err "RewriteRegexConditions: out of fuel".toList
  | fuel + 1, i, acc =>
    if i < vals.length then do
      let v ← idx sRegexValsI vals i
      regexChainLoop op cop lhs vals fuel (i + 1) (.binary cop acc (.binary op lhs (.string v)))
    else .ok acc

/-- The `switch` on `len(vals)` at the end of the callback. -/
def regexLiteralTests (op cop : Token) (lhs : Expr) (vals : List Str) : OpRes Expr :=
  if vals.length = 0 then .ok (.binary op lhs (.string []))
  else if vals.length = 1 then do
    let v ← idx sRegexVals0 vals 0
    pure (.binary op lhs (.string v))
  else do
    let v ← idx sRegexVals0 vals 0
    let e ← regexChainLoop op cop lhs vals (vals.length + 1) 1 (.binary op lhs (.string v))
    pure (.paren e)

/-- The callback of `RewriteRegexConditions`; `exact` is `matchExactRegex`. The assertion
`be.RHS.(*RegexLiteral)` is of the comma-ok form since 811d75b: no site. -/
def rewriteRegexNode (exact : Str → Option (List Str)) : Expr → OpRes Expr
  | .binary op lhs rhs =>
    if op ≠ .EQREGEX ∧ op ≠ .NEQREGEX then .ok (.binary op lhs rhs)
    else
      match rhs with
      | .regex src =>
        match exact src with
        | none => .ok (.binary op lhs rhs)
        | some vals =>
          if op = .EQREGEX then regexLiteralTests .EQ .OR lhs vals
          else regexLiteralTests .NEQ .AND lhs vals
      | _ => .ok (.binary op lhs rhs)
  | e => .ok e

mutual
  /-- `RewriteExpr(expr, fn)` with the callback above (which never returns nil). -/
  def rewriteRegexExpr (exact : Str → Option (List Str)) : Expr → OpRes Expr
    | .binary op l r => do
      let l' ← rewriteRegexExpr exact l
      let r' ← rewriteRegexExpr exact r
      rewriteRegexNode exact (.binary op l' r')
    | .paren e => do
      let e' ← rewriteRegexExpr exact e
      rewriteRegexNode exact (.paren e')
    | .call name args => do
      let args' ← rewriteRegexArgs exact args
      rewriteRegexNode exact (.call name args')
    | e => rewriteRegexNode exact e
  /-- `for i, expr := range e.Args { e.Args[i] = RewriteExpr(expr, fn) }` (range index: no site). -/
  def rewriteRegexArgs (exact : Str → Option (List Str)) : List Expr → OpRes (List Expr)
    | [] => .ok []
    | a :: rest => do
      let a' ← rewriteRegexExpr exact a
      let rest' ← rewriteRegexArgs exact rest
      pure (a' :: rest')
end

/-- `s.Condition` after `RewriteRegexConditions`. -/
def rewriteRegexCondition (exact : Str → Option (List Str)) : Option Expr → OpRes (Option Expr)
  | none => .ok none
  | some e => do
    let e' ← rewriteRegexExpr exact e
    pure (some (Rx.stripParen e'))

/-! ## `Reduce` and `ValuerEval.Eval`: the integer division sites and the `make` loops

Branches of the Go functions that contain no inventoried site are taken over from the total
models of `Model/Reduce.lean` / `Model/Eval.lean`; the branches with a site are spelled out with
the guard of the code and the checked division. -/

section
variable {F : Type} (A : FloatAlg F) (S : StrAlg)

/-- `case int64:` of `evalBinaryExpr`. -/
def evalIntLHS (ifd : Bool) (op : BinOp) (l : Int) (rhs : Value F) : OpRes (Value F) :=
  match rhs with
  | .int r =>
    match op with
    | .div =>
      if ifd then .ok (InfluxQL.evalIntLHS A ifd op l rhs)
      else if r == 0 then .ok (.int 0)
      else do
        let q ← divI64 sEvalDiv l r
        pure (.int q)
    | .mod =>
      if r == 0 then .ok (.int 0)
      else do
        let q ← remI64 sEvalMod l r
        pure (.int q)
    | _ => .ok (InfluxQL.evalIntLHS A ifd op l rhs)
  | .uint r =>
    match op with
    | .div =>
      if r == 0 then .ok (.uint 0)
      else do
        let q ← divU64 sEvalIUDiv (toU64 l) r
        pure (.uint q)
    | .mod =>
      if r == 0 then .ok (.uint 0)
      else do
        let q ← remU64 sEvalIUMod (toU64 l) r
        pure (.uint q)
    | _ => .ok (InfluxQL.evalIntLHS A ifd op l rhs)
  | _ => .ok (InfluxQL.evalIntLHS A ifd op l rhs)

/-- `case uint64:` of `evalBinaryExpr`. -/
def evalUintLHS (op : BinOp) (l : Nat) (rhs : Value F) : OpRes (Value F) :=
  match rhs with
  | .int r =>
    match op with
    | .div =>
      if r == 0 then .ok (.uint 0)
      else do
        let q ← divU64 sEvalUIDiv l (toU64 r)
        pure (.uint q)
    | .mod =>
      if r == 0 then .ok (.uint 0)
      else do
        let q ← remU64 sEvalUIMod l (toU64 r)
        pure (.uint q)
    | _ => .ok (InfluxQL.evalUintLHS A op l rhs)
  | .uint r =>
    match op with
    | .div =>
      if r == 0 then .ok (.uint 0)
      else do
        let q ← divU64 sEvalDiv l r
        pure (.uint q)
    | .mod =>
      if r == 0 then .ok (.uint 0)
      else do
        let q ← remU64 sEvalMod l r
        pure (.uint q)
    | _ => .ok (InfluxQL.evalUintLHS A op l rhs)
  | _ => .ok (InfluxQL.evalUintLHS A op l rhs)

/-- `evalBinaryExpr` on the two operand values. -/
def evalBin (ifd : Bool) (op : BinOp) (lhs rhs : Value F) : OpRes (Value F) :=
  match nilCast lhs rhs with
  | (.int l, r) => evalIntLHS A ifd op l r
  | (.uint l, r) => evalUintLHS A op l r
  | _ => .ok (InfluxQL.evalBin A S ifd op lhs rhs)

mutual
  /-- `(*ValuerEval).Eval`. -/
  def eval (ifd : Bool) (V : Valuer F) : RExpr F → OpRes (Value F)
    | .binary op l r => do
      let a ← eval ifd V l
      let b ← eval ifd V r
      evalBin A S ifd (BinOp.ofToken op) a b
    | .paren e => eval ifd V e
    | .call name args =>
      match V.call with
      | some f => do
        let vals ← (if args.length > 0 then evalArgsLoop ifd V args 0 (List.replicate args.length .nil) else pure [])
        pure ((f name vals).getD .nil)
      | none => .ok .nil
    | .bool b => .ok (.bool b)
    | .int v => .ok (.int v)
    | .num v => .ok (.float v)
    | .uint v => .ok (.uint v)
    | .regex src => .ok (.regex src)
    | .str s => .ok (.str s)
    | .varRef val _ => .ok ((V.value val).getD .nil)
    | _ => .ok .nil
  /-- `args = make([]interface{}, len(expr.Args)); for i := range expr.Args { args[i] = v.Eval(expr.Args[i]) }`. -/
  def evalArgsLoop (ifd : Bool) (V : Valuer F) : List (RExpr F) → Int → List (Value F) → OpRes (List (Value F))
    | [], _, out => .ok out
    | a :: rest, i, out => do
      let v ← eval ifd V a
      let out' ← setIdx sEvalArgs out i v
      evalArgsLoop ifd V rest (i + 1) out'
end

/-- `reduceBinaryExprDurationLHS` for every right operand but a string. -/
def reduceDurLHS₀ (tok : Token) (l : Int) (rhs : RExpr F) : OpRes (RExpr F) :=
  match rhs with
  | .num r =>
    match BinOp.ofToken tok with
    | .div =>
      if A.toInt64 r == 0 then .ok (.dur 0)
      else do
        let q ← divI64 sReduceDurDiv l (A.toInt64 r)
        pure (.dur q)
    | _ => .ok (InfluxQL.reduceDurLHS₀ A tok l rhs)
  | .int r =>
    match BinOp.ofToken tok with
    | .div =>
      if r == 0 then .ok (.dur 0)
      else do
        let q ← divI64 sReduceDurDiv l r
        pure (.dur q)
    | _ => .ok (InfluxQL.reduceDurLHS₀ A tok l rhs)
  | _ => .ok (InfluxQL.reduceDurLHS₀ A tok l rhs)

/-- `reduceBinaryExprDurationLHS`. -/
def reduceDurLHS (loc : Int) (tok : Token) (l : Int) (rhs : RExpr F) : OpRes (RExpr F) :=
  match rhs with
  | .str s =>
    match S.toTime loc s with
    | none => .ok (.binary tok (.dur l) rhs)
    | some t => do
      let e ← reduceDurLHS₀ A tok l (.time t)
      pure (if e.isBinary then .binary tok (.dur l) rhs else e)
  | _ => reduceDurLHS₀ A tok l rhs

/-- `reduceBinaryExprUnsignedLHS` with an unsigned on the right. -/
def reduceUintUint (tok : Token) (l r : Nat) : OpRes (RExpr F) :=
  match BinOp.ofToken tok with
  | .div =>
    if r == 0 then .ok (.uint 0)
    else do
      let q ← divU64 sReduceUintDiv l r
      pure (.uint q)
  | .mod =>
    if r == 0 then .ok (.uint 0)
    else do
      let q ← remU64 sReduceUintMod l r
      pure (.uint q)
  | _ => .ok (InfluxQL.reduceUintUint tok l r)

/-- `reduceBinaryExprUnsignedLHS`. -/
def reduceUintLHS (tok : Token) (l : Nat) (rhs : RExpr F) : OpRes (RExpr F) :=
  match rhs with
  | .int r =>
    if r < 0 ∧ (BinOp.ofToken tok = .lt ∨ BinOp.ofToken tok = .lte) then .ok (.bool false)
    else if r < 0 ∧ (BinOp.ofToken tok = .gt ∨ BinOp.ofToken tok = .gte) then .ok (.bool true)
    else reduceUintUint tok l (toU64 r)
  | .uint r => reduceUintUint tok l r
  | _ => .ok (InfluxQL.reduceUintLHS A tok l rhs)

/-- `reduceBinaryExprIntegerLHS`. -/
def reduceIntLHS (loc : Int) (tok : Token) (l : Int) (rhs : RExpr F) : OpRes (RExpr F) :=
  match rhs with
  | .int r =>
    match BinOp.ofToken tok with
    | .mod =>
      if r == 0 then .ok (.int 0)
      else do
        let q ← remI64 sReduceIntMod l r
        pure (.int q)
    | _ => .ok (InfluxQL.reduceIntLHS A S loc tok l rhs)
  | .uint r =>
    if l < 0 ∧ (BinOp.ofToken tok = .lt ∨ BinOp.ofToken tok = .lte) then .ok (.bool true)
    else if l < 0 ∧ (BinOp.ofToken tok = .gt ∨ BinOp.ofToken tok = .gte) then .ok (.bool false)
    else reduceUintLHS A tok (toU64 l) (.uint r)
  | .time r => do
    let e ← reduceDurLHS A S loc tok l (.time r)
    pure (if e.isBinary then .binary tok (.int l) rhs else e)
  | .str s =>
    match S.toTime loc s with
    | none => .ok (.binary tok (.int l) rhs)
    | some t => do
      let e ← reduceDurLHS A S loc tok l (.time t)
      pure (if e.isBinary then .binary tok (.int l) rhs else e)
  | _ => .ok (InfluxQL.reduceIntLHS A S loc tok l rhs)

/-- The type switch at the end of `reduceBinaryExpr`. -/
def reduceDispatch (loc : Int) (tok : Token) (lhs rhs : RExpr F) : OpRes (RExpr F) :=
  match lhs with
  | .dur l => reduceDurLHS A S loc tok l rhs
  | .int l => reduceIntLHS A S loc tok l rhs
  | .uint l => reduceUintLHS A tok l rhs
  | _ => .ok (InfluxQL.reduceDispatch A S loc tok lhs rhs)

/-- `reduceBinaryExpr` after both sides have been reduced. -/
def reduceBinary (loc : Int) (tok : Token) (lhs rhs : RExpr F) : OpRes (RExpr F) :=
  match BinOp.ofToken tok with
  | .and =>
    if lhs.isFalseLiteral || rhs.isFalseLiteral then .ok (.bool false)
    else if lhs.isTrueLiteral then .ok rhs
    else if rhs.isTrueLiteral then .ok lhs
    else reduceDispatch A S loc tok lhs rhs
  | .or =>
    if lhs.isTrueLiteral || rhs.isTrueLiteral then .ok (.bool true)
    else if lhs.isFalseLiteral then .ok rhs
    else if rhs.isFalseLiteral then .ok lhs
    else reduceDispatch A S loc tok lhs rhs
  | _ => reduceDispatch A S loc tok lhs rhs

/-- `argVals := make([]interface{}, len(args)); for i := range args { argVals[i] = Eval(args[i], nil) }`. -/
def reduceCallVals (args : List (RExpr F)) : OpRes (List (Value F)) :=
  makeAndFill sReduceCallVals Value.nil (fun a => eval A S false Valuer.empty a) args

mutual
  /-- `reduce`. -/
  def reduce (V : Valuer F) : RExpr F → OpRes (RExpr F)
    | .binary tok l r => do
      let l' ← reduce V l
      let r' ← reduce V r
      reduceBinary A S (V.zone.getD 0) tok l' r'
    | .call name args => do
      let args' ← (if args.length > 0 then reduceArgsLoop V args 0 (List.replicate args.length .nil) else pure [])
      if args'.all RExpr.isLiteral then
        match V.call with
        | some f => do
          let argVals ← reduceCallVals A S args'
          match f name argVals with
          | some v => pure (asLiteral v)
          | none => pure (.call name args')
        | none => pure (.call name args')
      else pure (.call name args')
    | .paren e => do
      let sub ← reduce V e
      pure (if sub.isBinary then .paren sub else sub)
    | .varRef val ty =>
      match V.value val with
      | some v => .ok (asLiteral v)
      | none => .ok (.varRef val ty)
    | e => .ok e
  /-- `args = make([]Expr, len(expr.Args)); for i, arg := range expr.Args { args[i] = reduce(arg, valuer) … }`. -/
  def reduceArgsLoop (V : Valuer F) : List (RExpr F) → Int → List (RExpr F) → OpRes (List (RExpr F))
    | [], _, out => .ok out
    | a :: rest, i, out => do
      let a' ← reduce V a
      let out' ← setIdx sReduceCallArgs out i a'
      reduceArgsLoop V rest (i + 1) out'
end

/-- `Reduce`. -/
def Reduce (V : Valuer F) (e : RExpr F) : OpRes (RExpr F) := do
  let x ← reduce A S V e
  match x with
  | .paren y => pure y
  | y => pure y

end

/-! ## `evalCallExprType`: `args := make([]DataType, len(expr.Args)); for i, arg := … { args[i] = typ }` -/

/-- The argument loop of `evalCallExprType`; `evalType` is `v.EvalType` (`.err` = its error). -/
def evalCallArgTypes (evalType : Expr → OpRes DataType) (args : List Expr) : OpRes (List DataType) :=
  makeAndFill sEvalTypeArgs DataType.Unknown evalType args

/-! ## Representation invariant of `int64`

The model writes Go's `int64` as `Int`. The guard `rhs == 0` in front of `lhs / uint64(rhs)` is a
guard for the divisor only because `rhs` is an `int64`; the theorems about `Eval` therefore ask that
the integers of the expression and the integers the valuer hands out are `int64` values. -/

/-- An `int64` value lies in the `int64` range. -/
def int64Ok {F : Type} : Value F → Prop
  | .int i => minInt64 ≤ i ∧ i ≤ maxInt64
  | _ => True

mutual
  /-- Every integer literal of the expression is an `int64`. -/
  def intsOk {F : Type} : RExpr F → Bool
    | .binary _ l r => intsOk l && intsOk r
    | .paren e => intsOk e
    | .call _ args => argsIntsOk args
    | .int v => decide (minInt64 ≤ v ∧ v ≤ maxInt64)
    | _ => true
  def argsIntsOk {F : Type} : List (RExpr F) → Bool
    | [] => true
    | a :: rest => intsOk a && argsIntsOk rest
end

/-- Every integer the valuer returns (for a variable or a call) is an `int64`. -/
def valuerIntsOk {F : Type} (V : Valuer F) : Prop :=
  (∀ key v, V.value key = some v → int64Ok v) ∧
  (∀ f, V.call = some f → ∀ name args v, f name args = some v → int64Ok v)

/-! ## `matchExactRegex`, `matchRegex` on the tree `syntax.Parse(v, syntax.Perl).Simplify()` returns

`re.Sub[0]` followed by `re.Sub[1:]` is the pattern match `r :: rest`, whose `[]` branch is the
index panic (a recursive call on `idx … 0` would not be structural). -/

def sMRSub0 : Site := ("matchRegex", "index", "re.Sub[0]")
def sMRSubTail : Site := ("matchRegex", "slice", "re.Sub[1:]")
def sMRNames0 : Site := ("matchRegex", "index", "names[0]")
def sMRVals0 : Site := ("matchRegex", "index", "vals[0]")
def sMRConcat : Site := ("matchRegex", "index", "concat[i*len(vals)+j]")
def sMRRuneI : Site := ("matchRegex", "index", "re.Rune[i]")
def sMRRuneI1 : Site := ("matchRegex", "index", "re.Rune[i+1]")
def sMESub0 : Site := ("matchExactRegex", "index", "re.Sub[0]")
def sMESubLast : Site := ("matchExactRegex", "index", "re.Sub[len(re.Sub)-1]")
def sMESubMid : Site := ("matchExactRegex", "slice", "re.Sub[1 : len(re.Sub)-1]")

/-- `for i := range names { names[i] += vals[0] }`. -/
def appendLoop (vals : List Str) : List Str → OpRes (List Str)
  | [] => .ok []
  | n :: rest => do
    let v ← idx sMRVals0 vals 0
    let rest' ← appendLoop vals rest
    pure ((n ++ v) :: rest')

/-- `for i := range vals { vals[i] = names[0] + vals[i] }`. -/
def prependLoop (names : List Str) : List Str → OpRes (List Str)
  | [] => .ok []
  | v :: rest => do
    let n ← idx sMRNames0 names 0
    let rest' ← prependLoop names rest
    pure ((n ++ v) :: rest')

/-- `for j := range vals { concat[i*len(vals)+j] = names[i] + vals[j] }`. -/
def cartInner (lv : Int) (n : Str) (i : Int) : List Str → Int → List Str → OpRes (List Str)
  | [], _, out => .ok out
  | v :: rest, j, out => do
    let out' ← setIdx sMRConcat out (i * lv + j) (n ++ v)
    cartInner lv n i rest (j + 1) out'

/-- `for i := range names { … }`. -/
def cartOuter (vals : List Str) : List Str → Int → List Str → OpRes (List Str)
  | [], _, out => .ok out
  | n :: rest, i, out => do
    let out' ← cartInner vals.length n i vals 0 out
    cartOuter vals rest (i + 1) out'

/-- One round of the concatenation loop of the `OpConcat` case. -/
def concatStep (names vals : List Str) : OpRes (Option (List Str)) :=
  if vals.length = 1 then do
    let r ← appendLoop vals names
    pure (some r)
  else if names.length = 1 then do
    let r ← prependLoop names vals
    pure (some r)
  else if names.length * vals.length > maxLiterals then .ok none
  else do
    let out ← cartOuter vals names 0 (List.replicate (names.length * vals.length) [])
    pure (some out)

/-- `for i := 0; i < len(re.Rune); i += 2 { sz += int(re.Rune[i+1]) - int(re.Rune[i]) + 1 }`. -/
def classSizeLoop (rune : List Nat) : Nat → Int → Int → OpRes Int
  | 0, _, _ => .err "matchRegex: out of fuel".toList
  | fuel + 1, i, sz =>
    if i < rune.length then do
      let hi ← idx sMRRuneI1 rune (i + 1)
      let lo ← idx sMRRuneI rune i
      classSizeLoop rune fuel (i + 2) (sz + ((hi : Int) - (lo : Int) + 1))
    else .ok sz

/-- `for i := 0; i < len(re.Rune); i += 2 { for r := int(re.Rune[i]); r <= int(re.Rune[i+1]); r++ { … } }`. -/
def classEnumLoop (rune : List Nat) : Nat → Int → List Str → OpRes (Option (List Str))
  | 0, _, _ => .err "matchRegex: out of fuel".toList
  | fuel + 1, i, names =>
    if i < rune.length then do
      let lo ← idx sMRRuneI rune i
      let hi ← idx sMRRuneI1 rune (i + 1)
      match Rx.rangeStrs lo (hi + 1 - lo) with
      | none => pure none
      | some a => classEnumLoop rune fuel (i + 2) (names ++ a)
    else .ok (some names)

/-- The `OpCharClass` case. -/
def matchClass (rune : List Nat) : OpRes (Option (List Str)) := do
  let sz ← classSizeLoop rune (rune.length + 1) 0 0
  if sz > (maxLiterals : Int) ∨ sz = 0 then pure none
  else classEnumLoop rune (rune.length + 1) 0 []

mutual
  /-- `matchRegex`: `some L` = `(L, true)`, `none` = `(nil, false)`. -/
  def matchRegex : Rx.Regex → OpRes (Option (List Str))
    | .mk op flags rune sub =>
      if Rx.hasFold flags then .ok none else
      match op with
      | .literal => .ok (if rune.all Rx.isEncodableRune then some [Rx.runesToStr rune] else none)
      | .capture => matchSub0 sub
      | .concat => matchConcat sub
      | .charClass => matchClass rune
      | .alternate => do
        let r ← matchAlt sub
        match r with
        | none => pure none
        | some names => pure (if names.length > maxLiterals then none else some names)
      | _ => .ok none
  /-- `matchRegex(re.Sub[0])`. -/
  def matchSub0 : List Rx.Regex → OpRes (Option (List Str))
    | [] => goPanic sMRSub0
    | r :: _ => matchRegex r
  /-- The `OpConcat` case. -/
  def matchConcat : List Rx.Regex → OpRes (Option (List Str))
    | [] => goPanic sMRSub0
    | r :: rest => do
      let r0 ← matchRegex r
      match r0 with
      | none => pure none
      | some names => concatLoop names rest
  /-- `for _, sub := range re.Sub[1:] { … }`. -/
  def concatLoop (names : List Str) : List Rx.Regex → OpRes (Option (List Str))
    | [] => .ok (some names)
    | r :: rest => do
      let rv ← matchRegex r
      match rv with
      | none => pure none
      | some vals => do
        let step ← concatStep names vals
        match step with
        | none => pure none
        | some names' => concatLoop names' rest
  /-- The loop of the `OpAlternate` case. -/
  def matchAlt : List Rx.Regex → OpRes (Option (List Str))
    | [] => .ok (some [])
    | r :: rest => do
      let rv ← matchRegex r
      match rv with
      | none => pure none
      | some vals => do
        let rr ← matchAlt rest
        match rr with
        | none => pure none
        | some more => pure (some (vals ++ more))
end

/-- `matchExactRegex` after `syntax.Parse` succeeded and `Simplify()` ran. -/
def matchExactTree : Rx.Regex → OpRes (Option (List Str))
  | .mk op flags rune sub =>
    if op ≠ .concat then .ok none
    else if sub.length < 2 then .ok none
    else do
      let start ← idx sMESub0 sub 0
      if start.op ≠ .beginText then pure none
      else do
        let end_ ← idx sMESubLast sub ((sub.length : Int) - 1)
        if end_.op ≠ .endText then pure none
        else do
          let inner ← slice sMESubMid sub 1 ((sub.length : Int) - 1)
          if inner.length = 0 then pure (some [])
          else matchRegex (.mk op flags rune inner)

/-! ## `RewriteFields`: the prologue of `case *Call:` in the wildcard expansion

`template := CloneExpr(expr).(*Call)`, the descent `for len(call.Args) > 0 { arg, ok :=
call.Args[0].(*Call); if !ok { break }; call = arg }`, the test `len(call.Args) == 0` and the
`switch expr := call.Args[0].(type)`. (The rest of `RewriteFields` has no inventoried site; its
total model is `Model/Fields.lean`, C12.) -/

def sRFAssert : Site := ("SelectStatement.RewriteFields", "assert", "CloneExpr(expr).(*Call)")
def sRFArgs0 : Site := ("SelectStatement.RewriteFields", "index", "call.Args[0]")

/-- `x.(*Call)` with comma-ok. -/
def asCall : Expr → Option (Str × List Expr)
  | .call n a => some (n, a)
  | _ => none

/-- The descent to the innermost call; `.err` = fuel exhausted (the tree is finite: any fuel above
its depth suffices). -/
def innerCallLoop : Nat → Str → List Expr → OpRes (Str × List Expr)
  | 0, _, _ => .err "RewriteFields: out of fuel".toList
  | fuel + 1, name, args =>
    if args.length > 0 then do
      let a0 ← idx sRFArgs0 args 0
      match asCall a0 with
      | some (n', a') => innerCallLoop fuel n' a'
      | none => pure (name, args)
    else pure (name, args)

/-- The prologue on a field expression that is a `*Call`: `none` = "this field value is not a
wildcard" (`len(call.Args) == 0`), `some (name, arg)` = innermost call name and its first argument. -/
def rewriteFieldsCallHead (fuel : Nat) (e : Expr) : OpRes (Option (Str × Expr)) := do
  let c ← cloneExpr e
  let (name, args) ← assertT sRFAssert (asCall c)
  let (cn, cargs) ← innerCallLoop fuel name args
  if cargs.length = 0 then pure none
  else do
    let a ← idx sRFArgs0 cargs 0
    pure (some (cn, a))

end InfluxQL.Checked

import InfluxQL.Gen.Token
import InfluxQL.Model.Reader
/-
Model of `Scanner` (scanner.go) over the pure `Cursor`.
Every function mirrors the Go function of the same name; `read`/`unread`
look-ahead becomes `peek` or "continue from the earlier cursor".
Quirks kept: NUL is the `eof` sentinel (swallowed by the loops that `break`
on it without `unread`), `scanString` reports the position of the *previous*
rune, `1.` consumes the dot, `abc"def"` yields IDENT `def`, …
-/
namespace InfluxQL
open Gen

/-- ASCII lower-casing (`strings.ToLower` restricted to what `Lookup` can be decided by, see DESIGN §3). -/
def lowerAscii (c : Char) : Char :=
  if 65 ≤ c.toNat ∧ c.toNat ≤ 90 then Char.ofNat (c.toNat + 32) else c

def lookupKw (s : List Char) : List (List Char × Token) → Token
  | [] => .IDENT
  | (k, t) :: rest => if k = s then t else lookupKw s rest

/-- `Lookup(ident)`. -/
def lookup (ident : List Char) : Token := lookupKw (ident.map lowerAscii) keywords

structure Lexeme where
  tok : Token
  pos : Pos
  lit : List Char
  deriving Repr, DecidableEq

inductive StrErr where
  | badString | badEscape
  deriving Repr, DecidableEq

/-- Body loop of `ScanString` after the opening quote. Structural on the stream.
Returns the text, the error (if any), the remaining stream, the last delivered rune and offset. -/
def scanStringLoop (ending : Char) (fin : Pos) :
    List (Char × Pos) → List Char → Char × Pos → Nat →
      List Char × Option StrErr × List (Char × Pos) × (Char × Pos) × Nat
  | [], acc, _, n => (acc, some .badString, [], (eofRune, fin), n + 1)       -- read past the end: eof
  | (c, q) :: t, acc, _, n =>
    if c = ending then (acc, none, t, (c, q), n + 1)
    else if c = eofRune ∨ c = '\n' then (acc, some .badString, t, (c, q), n + 1)
    else if c = '\\' then
      match t with
      | [] => (['\\', eofRune], some .badEscape, [], (eofRune, fin), n + 2)
      | (c1, q1) :: t1 =>
        if c1 = 'n' then scanStringLoop ending fin t1 (acc ++ ['\n']) (c1, q1) (n + 2)
        else if c1 = '\\' then scanStringLoop ending fin t1 (acc ++ ['\\']) (c1, q1) (n + 2)
        else if c1 = '"' then scanStringLoop ending fin t1 (acc ++ ['"']) (c1, q1) (n + 2)
        else if c1 = '\'' then scanStringLoop ending fin t1 (acc ++ ['\'']) (c1, q1) (n + 2)
        else (['\\', c1], some .badEscape, t1, (c1, q1), n + 2)
    else scanStringLoop ending fin t (acc ++ [c]) (c, q) (n + 1)

/-- `ScanString(r)`: reads the opening quote, then the body. -/
def scanStringRaw (r : Cursor) : List Char × Option StrErr × Cursor :=
  let ((ending, _), r1) := r.read
  if ending = eofRune then ([], some .badString, r1)
  else
    let (s, e, rest, pv, n) := scanStringLoop ending r1.fin r1.rest [] r1.prev r1.off
    (s, e, { r1 with rest := rest, prev := pv, off := n })

/-- `Scanner.scanString()`; `r` is the cursor *before* the opening quote (after the `unread`). -/
def scanString (r : Cursor) : Lexeme × Cursor :=
  let pos := r.prev.2
  match scanStringRaw r with
  | (lit, some .badString, r') => (⟨.BADSTRING, pos, lit⟩, r')
  | (lit, some .badEscape, r') => (⟨.BADESCAPE, r'.prev.2, lit⟩, r')
  | (lit, none, r') => (⟨.STRING, pos, lit⟩, r')

/-- `ScanBareIdent(r)`. -/
def scanBareIdent (r : Cursor) : List Char × Cursor :=
  let (cs, r1) := r.readWhile isIdentChar
  (cs, r1.eatEof)

/-- The `for` loop of `scanIdent`. `fuel` bounds the iterations (each consumes a rune or stops). -/
def scanIdentLoop (pos : Pos) : Nat → Cursor → List Char → (Option (Lexeme) × List Char) × Cursor
  | 0, r, buf => ((none, buf), r)
  | fuel + 1, r, buf =>
    let c := r.peek
    if c = eofRune then ((none, buf), r.read.2)
    else if c = '"' then
      let (lx, r') := scanString r
      if lx.tok = .BADSTRING ∨ lx.tok = .BADESCAPE then ((some lx, buf), r')
      else ((some ⟨.IDENT, pos, lx.lit⟩, buf), r')
    else if isIdentChar c then
      let (cs, r') := scanBareIdent r
      scanIdentLoop pos fuel r' (buf ++ cs)
    else ((none, buf), r)

/-- `Scanner.scanIdent(lookup)`; `r` is the cursor before the first rune. -/
def scanIdent (lookupKw? : Bool) (r : Cursor) : Lexeme × Cursor :=
  let pos := (r.read.1).2
  match scanIdentLoop pos (r.rest.length + 2) r [] with
  | ((some lx, _), r') => (lx, r')
  | ((none, lit), r') =>
    if lookupKw? ∧ lookup lit ≠ .IDENT then (⟨lookup lit, pos, []⟩, r')
    else (⟨.IDENT, pos, lit⟩, r')

/-- `scanDigits`. -/
def scanDigits (r : Cursor) : List Char × Cursor := r.readWhile isDigit

def isDurChar (c : Char) : Bool := isLetter c || c.toNat == 0xb5
def isDurTailChar (c : Char) : Bool := isLetter c || c.toNat == 0xb5 || isDigit c

/-- First half of `scanNumber`: digits, then "if next code points are a full stop and digit
then consume them" (a full stop not followed by a digit stays consumed). -/
def scanNumberPrefix (r0 : Cursor) : List Char × Bool × Cursor :=
  let (ds, r1) := scanDigits r0
  if r1.peek = '.' then
    let r1' := r1.read.2
    if isDigit r1'.peek then
      let (ds2, r2) := scanDigits r1'.read.2
      (ds ++ ['.', r1'.peek] ++ ds2, true, r2)
    else (ds, true, r1')
  else (ds, false, r1)

/-- `Scanner.scanNumber()`. `r0` is the cursor before the first rune of the number
(a digit, or the `.` of `.5`), `pos` the position of that rune. -/
def scanNumber (r0 : Cursor) (pos : Pos) : Lexeme × Cursor :=
  let (buf, isDecimal, r2) := scanNumberPrefix r0
  if !isDecimal then
    if isDurChar r2.peek then
      let (l1, r4) := r2.read.2.readWhile isDurChar
      let (l2, r5) := r4.readWhile isDurTailChar
      (⟨.DURATIONVAL, pos, buf ++ [r2.peek] ++ l1 ++ l2⟩, r5)
    else (⟨.INTEGER, pos, buf⟩, r2)
  else (⟨.NUMBER, pos, buf⟩, r2)

/-- `skipUntilNewline`. -/
def skipUntilNewline (r : Cursor) : Cursor :=
  ((r.readWhile (fun c => c != '\n')).2).read.2

/-- `skipUntilEndComment`: `true` = terminated by `*/`, `false` = hit eof. -/
def skipCommentLoop (fin : Pos) : List (Char × Pos) → Bool → Char × Pos → Nat →
    Bool × List (Char × Pos) × (Char × Pos) × Nat
  | [], _, _, n => (false, [], (eofRune, fin), n + 1)
  | (c, q) :: t, star, _, n =>
    if c = eofRune then (false, t, (c, q), n + 1)
    else if star ∧ c = '/' then (true, t, (c, q), n + 1)
    else skipCommentLoop fin t (c = '*') (c, q) (n + 1)

def skipUntilEndComment (r : Cursor) : Bool × Cursor :=
  let (ok, rest, pv, n) := skipCommentLoop r.fin r.rest false r.prev r.off
  (ok, { r with rest := rest, prev := pv, off := n })

/-- `Scanner.scanWhitespace()`; `ch0` already read at `pos`, cursor after it. -/
def scanWhitespace (ch0 : Char) (pos : Pos) (r1 : Cursor) : Lexeme × Cursor :=
  let (cs, r2) := r1.readWhile isWhitespace
  (⟨.WS, pos, ch0 :: cs⟩, r2.eatEof)

/-- `switch ch0`, last group: brackets, separators, default. -/
def scanFrom4 (ch0 : Char) (pos : Pos) (r1 : Cursor) : Lexeme × Cursor :=
  if ch0 = '(' then (⟨.LPAREN, pos, []⟩, r1)
  else if ch0 = ')' then (⟨.RPAREN, pos, []⟩, r1)
  else if ch0 = ',' then (⟨.COMMA, pos, []⟩, r1)
  else if ch0 = ';' then (⟨.SEMICOLON, pos, []⟩, r1)
  else if ch0 = ':' then
    if r1.peek = ':' then (⟨.DOUBLECOLON, pos, []⟩, r1.read.2) else (⟨.COLON, pos, []⟩, r1)
  else (⟨.ILLEGAL, pos, [ch0]⟩, r1)

/-- `switch ch0`, comparison group. -/
def scanFrom3 (ch0 : Char) (pos : Pos) (r1 : Cursor) : Lexeme × Cursor :=
  if ch0 = '=' then
    if r1.peek = '~' then (⟨.EQREGEX, pos, []⟩, r1.read.2) else (⟨.EQ, pos, []⟩, r1)
  else if ch0 = '!' then
    if r1.peek = '=' then (⟨.NEQ, pos, []⟩, r1.read.2)
    else if r1.peek = '~' then (⟨.NEQREGEX, pos, []⟩, r1.read.2)
    else (⟨.ILLEGAL, pos, ['!']⟩, r1)
  else if ch0 = '>' then
    if r1.peek = '=' then (⟨.GTE, pos, []⟩, r1.read.2) else (⟨.GT, pos, []⟩, r1)
  else if ch0 = '<' then
    if r1.peek = '=' then (⟨.LTE, pos, []⟩, r1.read.2)
    else if r1.peek = '>' then (⟨.NEQ, pos, []⟩, r1.read.2)
    else (⟨.LT, pos, []⟩, r1)
  else scanFrom4 ch0 pos r1

/-- `switch ch0`, arithmetic group (with the two comment forms). -/
def scanFrom2 (ch0 : Char) (pos : Pos) (r1 : Cursor) : Lexeme × Cursor :=
  if ch0 = '+' then (⟨.ADD, pos, []⟩, r1)
  else if ch0 = '-' then
    if r1.peek = '-' then (⟨.COMMENT, pos, []⟩, skipUntilNewline r1.read.2)
    else (⟨.SUB, pos, []⟩, r1)
  else if ch0 = '*' then (⟨.MUL, pos, []⟩, r1)
  else if ch0 = '/' then
    if r1.peek = '*' then
      if (skipUntilEndComment r1.read.2).1 then (⟨.COMMENT, pos, []⟩, (skipUntilEndComment r1.read.2).2)
      else (⟨.ILLEGAL, pos, []⟩, (skipUntilEndComment r1.read.2).2)
    else (⟨.DIV, pos, []⟩, r1)
  else if ch0 = '%' then (⟨.MOD, pos, []⟩, r1)
  else if ch0 = '&' then (⟨.BITWISE_AND, pos, []⟩, r1)
  else if ch0 = '|' then (⟨.BITWISE_OR, pos, []⟩, r1)
  else if ch0 = '^' then (⟨.BITWISE_XOR, pos, []⟩, r1)
  else scanFrom3 ch0 pos r1

/-- Body of `Scanner.Scan()` after `ch0, pos := s.r.read()`:
`r` is the cursor before `ch0`, `r1` the cursor after it. -/
def scanFrom (ch0 : Char) (pos : Pos) (r r1 : Cursor) : Lexeme × Cursor :=
  if isWhitespace ch0 then scanWhitespace ch0 pos r1
  else if isLetter ch0 || ch0 == '_' then scanIdent true r
  else if isDigit ch0 then scanNumber r pos
  else if ch0 = eofRune then (⟨.EOF, pos, []⟩, r1)
  else if ch0 = '"' then scanIdent true r
  else if ch0 = '\'' then scanString r
  else if ch0 = '.' then
    if isDigit r1.peek then scanNumber r pos else (⟨.DOT, pos, []⟩, r1)
  else if ch0 = '$' then
    if (scanIdent false r1).1.tok ≠ .IDENT then
      (⟨(scanIdent false r1).1.tok, pos, '$' :: (scanIdent false r1).1.lit⟩, (scanIdent false r1).2)
    else (⟨.BOUNDPARAM, pos, '$' :: (scanIdent false r1).1.lit⟩, (scanIdent false r1).2)
  else scanFrom2 ch0 pos r1

/-- `Scanner.Scan()`. -/
def scan (r : Cursor) : Lexeme × Cursor :=
  scanFrom r.read.1.1 r.read.1.2 r r.read.2

/-- Body loop of `ScanDelimited(r, '/', '/', {'/': '/'}, true)` after the opening delimiter,
as a one-rune-at-a-time machine: `esc` = the previous rune was a `\` whose successor is
being looked at (`\/` writes `/`; any other successor is *re-read* as an ordinary rune after
writing the `\` — the pass-through). `none` = an error return (`BADREGEX`). -/
def scanRegexLoop (fin : Pos) : List (Char × Pos) → List Char → Bool → Char × Pos → Nat →
    Option (List Char) × List (Char × Pos) × (Char × Pos) × Nat
  | [], _, _, _, n => (none, [], (eofRune, fin), n + 1)
  | (c, q) :: t, acc, esc, _, n =>
    if esc ∧ c = eofRune then (none, t, (c, q), n + 1)
    else if esc ∧ c = '/' then scanRegexLoop fin t (acc ++ ['/']) false (c, q) (n + 1)
    else
      let acc := if esc then acc ++ ['\\'] else acc
      if c = '/' then (some acc, t, (c, q), n + 1)
      else if c = eofRune then (none, t, (c, q), n + 1)
      else if c = '\n' then (none, t, (c, q), n + 1)
      else if c = '\\' then scanRegexLoop fin t acc true (c, q) (n + 1)
      else scanRegexLoop fin t (acc ++ [c]) false (c, q) (n + 1)

/-- `Scanner.ScanRegex()`. -/
def scanRegex (r : Cursor) : Lexeme × Cursor :=
  let pos := r.prev.2
  let ((ch, _), r1) := r.read
  if ch ≠ '/' then (⟨.BADREGEX, pos, []⟩, r1)   -- eof or a different start rune (both consumed)
  else
    let (res, rest, pv, n) := scanRegexLoop r1.fin r1.rest [] false r1.prev r1.off
    let r2 := { r1 with rest := rest, prev := pv, off := n }
    match res with
    | none => (⟨.BADREGEX, pos, []⟩, r2)
    | some b => (⟨.REGEX, pos, b⟩, r2)

end InfluxQL

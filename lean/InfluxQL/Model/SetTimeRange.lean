import InfluxQL.Model.Cond
/-
`SelectStatement.SetTimeRange`, `rewriteWithoutTimeDimensions` (ast.go), `Rewrite` / `RewriteFunc`
restricted to expressions.

    cond := "time >= '<start>' AND time < '<end>'"            (RFC3339Nano, UTC)
    if s.Condition != nil { cond = rewriteWithoutTimeDimensions() + " AND " + cond }
    expr := ParseExpr(cond);  s.Condition = CReduce(expr, nil)

The rewrite is bottom-up: children first, then the node. A binary node whose (already rewritten)
left operand *prints* as `time` becomes `true`; every call becomes `true`; the result is printed
and parsed again.
-/
namespace InfluxQL
open Gen
open InfluxQL.CondTime

/-- A window `[start, stop)` in exact nanoseconds (`stop` is Go's `end`). -/
structure Window where
  start : Int
  stop : Int
  deriving Repr, DecidableEq

/-- The text `time`. -/
def timeText : Str := ['t', 'i', 'm', 'e']

/-- The function passed to `RewriteFunc`, applied bottom-up as `Rewrite` does. The arguments of a
call are rewritten too, but the call is then replaced as a whole. -/
def rewriteNoTime : Expr → Expr
  | .binary op l r =>
    let l' := rewriteNoTime l
    let r' := rewriteNoTime r
    if l'.print = timeText then .boolean true else .binary op l' r'
  | .paren e => .paren (rewriteNoTime e)
  | .call _ _ => .boolean true
  | e => e

def timeVar : Expr := .varRef timeText .Unknown

/-- `time >= '<start>'` and `time < '<end>'` as they come out of the parser. -/
def geBound (s : Int) : Expr := .binary .GTE timeVar (.string (formatRFC3339Nano s))
def ltBound (e : Int) : Expr := .binary .LT timeVar (.string (formatRFC3339Nano e))

def boundsText (w : Window) : Str :=
  ['t', 'i', 'm', 'e', ' ', '>', '=', ' ', '\''] ++ formatRFC3339Nano w.start ++
  ['\'', ' ', 'A', 'N', 'D', ' ', 't', 'i', 'm', 'e', ' ', '<', ' ', '\''] ++ formatRFC3339Nano w.stop ++ ['\'']

/-- The text handed to the parser. -/
def setTimeRangeText (cond : Option Expr) (w : Window) : Str :=
  match cond with
  | none => boundsText w
  | some c => (rewriteNoTime c).print ++ [' ', 'A', 'N', 'D', ' '] ++ boundsText w

def nilRCtx (fa : FloatArith) : RCtx := { valuer := none, fa := fa }

/-- `SetTimeRange(start, end)`: the new condition, or the parse error (condition unchanged). -/
def setTimeRange (fa : FloatArith) (tbl : List (Char × Char)) (cond : Option Expr) (w : Window) :
    Except Fail Expr :=
  match parseExprText (setTimeRangeText cond w) [] tbl with
  | .error f => .error f
  | .ok e => .ok (CReduce (nilRCtx fa) e)

/-- Successive calls, as a continuous query makes them; stops at the first error. Returns the
condition after each call. -/
def setTimeRangeSeq (fa : FloatArith) (tbl : List (Char × Char)) : Option Expr → List Window →
    List (Except Fail Expr)
  | _, [] => []
  | cond, w :: ws =>
    match setTimeRange fa tbl cond w with
    | .error f => [.error f]
    | .ok c' => .ok c' :: setTimeRangeSeq fa tbl (some c') ws

end InfluxQL

import InfluxQL.Model.Cond
/-
`SelectStatement.SetTimeRange`, `rewriteWithoutTimeDimensions` (ast.go), `RewriteExpr` (on
expressions without nil children, where it is `Rewrite` / `RewriteFunc` restricted to expressions).

    cond := time >= '<start>'                                  (BinaryExpr{GTE, VarRef{time}, StringLiteral{RFC3339Nano, UTC}})
    if s.Condition != nil { cond = BinaryExpr{AND, rewriteWithoutTimeDimensions(), cond} }
    cond = BinaryExpr{AND, cond, time < '<end>'}
    s.Condition = Reduce(cond, nil)

The new condition is built as a tree; nothing is printed and nothing is parsed. The rewrite is
bottom-up: children first, then the node. A binary node one of whose (already rewritten) operands
is a reference to time — `isTimeRef`: a `*VarRef` with `strings.ToLower(Val) == "time"`, whatever
its type annotation, the test `conditionExpr` uses — becomes `true`; everything else, calls
included, is kept (the arguments of a call are visited); the result is wrapped in a `ParenExpr`
when its top node is an `OR`, the one operator that binds looser than the `AND` it becomes the left
operand of (so that the new condition prints as text that parses back with the same grouping).
(Before the fixes 51161c4 / 86fc254 of /repo the test was "the left operand prints as `time`", and
every call became `true`; before d61fb53 an `OR` at the top was not grouped; until the fix of
C18-condition-does-not-reparse / C18-folded-time-literal-comes-back-as-string the condition was
built as text — `fmt.Sprintf("%s AND %s", …)` — and parsed again, which is not the identity on every
tree. That old route is kept, as a specification-side definition only, in
`Model/SetTimeRangeSpec.lean`: `textRoute`.)
-/
namespace InfluxQL
open Gen
open InfluxQL.CondTime

/-- A window `[start, stop)` in exact nanoseconds (`stop` is Go's `end`). -/
structure Window where
  start : Int
  stop : Int
  deriving Repr, DecidableEq

/-- The text `time`. -/
def timeText : Str := ['t', 'i', 'm', 'e']

mutual
  /-- The function passed to `RewriteExpr`, applied bottom-up as `RewriteExpr` does (it descends
  into binary nodes, parentheses and call arguments, children first; the function never returns nil,
  so no node is dropped). Before the tree-building fix the same function was passed to `RewriteFunc`,
  which visits the same nodes in the same order. -/
  def rewriteNoTime (tbl : List (Char × Char)) : Expr → Expr
    | .binary op l r =>
      let l' := rewriteNoTime tbl l
      let r' := rewriteNoTime tbl r
      if isTimeRef tbl l' ∨ isTimeRef tbl r' then .boolean true else .binary op l' r'
    | .paren e => .paren (rewriteNoTime tbl e)
    | .call name args => .call name (rewriteArgs tbl args)
    | e => e
  def rewriteArgs (tbl : List (Char × Char)) : List Expr → List Expr
    | [] => []
    | a :: rest => rewriteNoTime tbl a :: rewriteArgs tbl rest
end

def timeVar : Expr := .varRef timeText .Unknown

/-- `time >= '<start>'` and `time < '<end>'` as they come out of the parser. -/
def geBound (s : Int) : Expr := .binary .GTE timeVar (.string (formatRFC3339Nano s))
def ltBound (e : Int) : Expr := .binary .LT timeVar (.string (formatRFC3339Nano e))

/-- The top node is an `OR`: `b, ok := n.(*BinaryExpr); ok && b.Op == OR`. `OR` is the only operator
whose precedence is below that of `AND` (`Token.Precedence`; `C18.gen_only_or_binds_looser_than_and`
checks it on the generated table). -/
def topIsOr : Expr → Bool
  | .binary op _ _ => decide (op = .OR)
  | _ => false

/-- The end of `rewriteWithoutTimeDimensions`: `&ParenExpr{Expr: n}` exactly when the top node of
`n` is an `OR`, else `n`. -/
def groupForAnd (e : Expr) : Expr := if topIsOr e then .paren e else e

/-- The tree `SetTimeRange` hands to `Reduce`: `time >= start AND time < end` when the statement has
no condition, `(<rewritten, grouped condition> AND time >= start) AND time < end` otherwise. -/
def setTimeRangeTree (tbl : List (Char × Char)) (cond : Option Expr) (w : Window) : Expr :=
  match cond with
  | none => .binary .AND (geBound w.start) (ltBound w.stop)
  | some c => .binary .AND (.binary .AND (groupForAnd (rewriteNoTime tbl c)) (geBound w.start)) (ltBound w.stop)

def nilRCtx (fa : FloatArith) : RCtx := { valuer := none, fa := fa }

/-- `SetTimeRange(start, end)`: the new condition. The Go function still has an `error` result, which
is always `nil`; the model keeps the `Except` type for the same reason, and always returns `.ok`. -/
def setTimeRange (fa : FloatArith) (tbl : List (Char × Char)) (cond : Option Expr) (w : Window) :
    Except Fail Expr :=
  .ok (CReduce (nilRCtx fa) (setTimeRangeTree tbl cond w))

/-- Successive calls, as a continuous query makes them (a caller stops at the first error; there is
none any more). Returns the condition after each call. -/
def setTimeRangeSeq (fa : FloatArith) (tbl : List (Char × Char)) : Option Expr → List Window →
    List (Except Fail Expr)
  | _, [] => []
  | cond, w :: ws =>
    match setTimeRange fa tbl cond w with
    | .error f => [.error f]
    | .ok c' => .ok c' :: setTimeRangeSeq fa tbl (some c') ws

end InfluxQL

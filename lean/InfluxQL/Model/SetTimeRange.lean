import InfluxQL.Model.Cond
/-
`SelectStatement.SetTimeRange`, `rewriteWithoutTimeDimensions` (ast.go), `Rewrite` / `RewriteFunc`
restricted to expressions.

    cond := "time >= '<start>' AND time < '<end>'"            (RFC3339Nano, UTC)
    if s.Condition != nil { cond = rewriteWithoutTimeDimensions() + " AND " + cond }
    expr := ParseExpr(cond);  s.Condition = CReduce(expr, nil)

The rewrite is bottom-up: children first, then the node. A binary node one of whose (already
rewritten) operands is a reference to time — `isTimeRef`: a `*VarRef` with
`strings.ToLower(Val) == "time"`, whatever its type annotation, the test `conditionExpr` uses —
becomes `true`; everything else, calls included, is kept (the arguments of a call are visited);
the result is printed — in parentheses when its top node is an `OR`, the one operator that binds
looser than the `AND` the caller appends — and parsed again.
(Before the fixes 51161c4 / 86fc254 of /repo the test was "the left operand prints as `time`",
and every call became `true`; before the fix of the finding C18-top-level-or-captures-the-window
the text was never parenthesised, so `a OR b AND <window>` re-parsed as `a OR (b AND <window>)`.)
-/
namespace InfluxQL
open Gen
open InfluxQL.CondTime

/-- A window `[start, stop)` in exact nanoseconds (`stop` is Go's `end`). -/
structure Window where
  start : Int
  stop : Int
  deriving Repr, DecidableEq

/-- The text `time`. -/
def timeText : Str := ['t', 'i', 'm', 'e']

mutual
  /-- The function passed to `RewriteFunc`, applied bottom-up as `Rewrite` does (`Rewrite` descends
  into binary nodes, parentheses and call arguments). -/
  def rewriteNoTime (tbl : List (Char × Char)) : Expr → Expr
    | .binary op l r =>
      let l' := rewriteNoTime tbl l
      let r' := rewriteNoTime tbl r
      if isTimeRef tbl l' ∨ isTimeRef tbl r' then .boolean true else .binary op l' r'
    | .paren e => .paren (rewriteNoTime tbl e)
    | .call name args => .call name (rewriteArgs tbl args)
    | e => e
  def rewriteArgs (tbl : List (Char × Char)) : List Expr → List Expr
    | [] => []
    | a :: rest => rewriteNoTime tbl a :: rewriteArgs tbl rest
end

def timeVar : Expr := .varRef timeText .Unknown

/-- `time >= '<start>'` and `time < '<end>'` as they come out of the parser. -/
def geBound (s : Int) : Expr := .binary .GTE timeVar (.string (formatRFC3339Nano s))
def ltBound (e : Int) : Expr := .binary .LT timeVar (.string (formatRFC3339Nano e))

def boundsText (w : Window) : Str :=
  ['t', 'i', 'm', 'e', ' ', '>', '=', ' ', '\''] ++ formatRFC3339Nano w.start ++
  ['\'', ' ', 'A', 'N', 'D', ' ', 't', 'i', 'm', 'e', ' ', '<', ' ', '\''] ++ formatRFC3339Nano w.stop ++ ['\'']

/-- The top node is an `OR`: `b, ok := n.(*BinaryExpr); ok && b.Op == OR`. `OR` is the only operator
whose precedence is below that of `AND` (`Token.Precedence`; `C18.gen_only_or_binds_looser_than_and`
checks it on the generated table). -/
def topIsOr : Expr → Bool
  | .binary op _ _ => decide (op = .OR)
  | _ => false

/-- The string `rewriteWithoutTimeDimensions` returns: the rewritten condition printed, in
parentheses exactly when its top node is an `OR` (`"(" + n.String() + ")"`). -/
def rewrittenText (tbl : List (Char × Char)) (c : Expr) : Str :=
  let n := rewriteNoTime tbl c
  if topIsOr n then ['('] ++ n.print ++ [')'] else n.print

/-- The text handed to the parser. -/
def setTimeRangeText (tbl : List (Char × Char)) (cond : Option Expr) (w : Window) : Str :=
  match cond with
  | none => boundsText w
  | some c => rewrittenText tbl c ++ [' ', 'A', 'N', 'D', ' '] ++ boundsText w

def nilRCtx (fa : FloatArith) : RCtx := { valuer := none, fa := fa }

/-- `SetTimeRange(start, end)`: the new condition, or the parse error (condition unchanged). -/
def setTimeRange (fa : FloatArith) (tbl : List (Char × Char)) (cond : Option Expr) (w : Window) :
    Except Fail Expr :=
  match parseExprText (setTimeRangeText tbl cond w) [] tbl with
  | .error f => .error f
  | .ok e => .ok (CReduce (nilRCtx fa) e)

/-- Successive calls, as a continuous query makes them; stops at the first error. Returns the
condition after each call. -/
def setTimeRangeSeq (fa : FloatArith) (tbl : List (Char × Char)) : Option Expr → List Window →
    List (Except Fail Expr)
  | _, [] => []
  | cond, w :: ws =>
    match setTimeRange fa tbl cond w with
    | .error f => [.error f]
    | .ok c' => .ok c' :: setTimeRangeSeq fa tbl (some c') ws

end InfluxQL

import InfluxQL.Gen.Dispatch
import InfluxQL.Model.ParserCore
/-
The statement parser (parser.go) and the dispatch of parse_tree.go.

Every function mirrors the Go function named in its docstring: the same scans (raw `Scan`
versus `ScanIgnoreWhitespace`), the same push-backs, the same error values.  The only mutual
recursion of the Go code that involves statements is `parseSelectStatement` ↔ `parseSource`
(subqueries); it is cut by passing "how to parse a subquery" as an argument, so that
`parseSelect` is plain structural recursion on its fuel.

Conventions
* `Sources == nil` in Go is `[]` here (the parser never builds an empty non-nil slice);
* `int` is 64 bit;
* `time.LoadLocation` is assumed to succeed (oracle call, DESIGN §3): the location is its name,
  with `""` naming `UTC`;
* `regexp.Compile` is assumed to succeed.
-/
namespace InfluxQL
open Gen

/-! ## small helpers -/

/-- Iterations that suffice for any loop whose every round consumes a buffered token or a rune. -/
def loopFuel : P Nat := do
  let s ← get
  pure (s.n + s.r.rest.length + 2)

/-- `if tok, pos, lit := p.ScanIgnoreWhitespace(); tok != t { return newParseError(..., expected, pos) }` -/
def expectTok (t : Token) (expected : List String) : P Unit := do
  let lx ← scanIW
  if lx.tok ≠ t then failFound lx expected

/-- `if tok, _, _ := p.ScanIgnoreWhitespace(); tok == t { … } else { p.Unscan() }` -/
def optTok (t : Token) : P Bool := do
  let lx ← scanIW
  if lx.tok = t then pure true
  else
    unscan
    pure false

/-- `strconv.Quote` on the texts an INTEGER token can carry (digits with an optional sign:
nothing to escape). -/
def goQuote (s : Str) : Str := '"' :: (s ++ ['"'])

/-- `(*strconv.NumError).Error()`. -/
def numError (fn : String) (lit : Str) (what : String) : Str :=
  "strconv.".toList ++ fn.toList ++ ": parsing ".toList ++ goQuote lit ++ ": ".toList ++ what.toList

/-- `Parser.parseString()`. -/
def parseString : P Str := do
  let lx ← scanIW
  if lx.tok ≠ .STRING then failFound lx ["string"]
  pure lx.lit

def stringListLoop : Nat → List Str → P (List Str)
  | 0, _ => throw .fuel
  | it + 1, acc => do
    let lx ← scanIW
    if lx.tok ≠ .COMMA then
      unscan
      pure acc
    else
      let s ← parseString
      stringListLoop it (acc ++ [s])

/-- `Parser.parseStringList()`. -/
def parseStringList : P (List Str) := do
  let s ← parseString
  stringListLoop (← loopFuel) [s]

def identListLoop : Nat → List Str → P (List Str)
  | 0, _ => throw .fuel
  | it + 1, acc => do
    let lx ← scanIW
    if lx.tok ≠ .COMMA then
      unscan
      pure acc
    else
      let s ← parseIdent
      identListLoop it (acc ++ [s])

/-- `Parser.ParseIdentList()`. -/
def parseIdentList : P (List Str) := do
  let s ← parseIdent
  identListLoop (← loopFuel) [s]

/-- `Parser.ParseInt(min, max)`: `strconv.Atoi`, then the range test. -/
def parseIntRange (min max : Int) : P Int := do
  let lx ← scanIW
  if lx.tok ≠ .INTEGER then failFound lx ["integer"]
  let (neg, ds) := splitSign lx.lit
  if !allDigits ds then failAt (numError "Atoi" lx.lit "invalid syntax") lx.pos
  let v : Int := if neg then -(digitsVal ds : Int) else digitsVal ds
  if v < minInt64 ∨ v > maxInt64 then failAt (numError "Atoi" lx.lit "value out of range") lx.pos
  if min > v ∨ v > max then
    failAt ("invalid value ".toList ++ intDigits v ++ ": must be ".toList ++ intDigits min ++
      " <= n <= ".toList ++ intDigits max) lx.pos
  pure v

def maxInt32 : Int := 2147483647

/-- `Parser.ParseUInt64()`. -/
def parseUInt64 : P Nat := do
  let lx ← scanIW
  if lx.tok ≠ .INTEGER then failFound lx ["integer"]
  if !allDigits lx.lit then failAt (numError "ParseUint" lx.lit "invalid syntax") lx.pos
  let v := digitsVal lx.lit
  if (v : Int) > maxUInt64 then failAt (numError "ParseUint" lx.lit "value out of range") lx.pos
  pure v

/-- `Parser.ParseDuration()`. -/
def parseDurationTok : P Int := do
  let lx ← scanIW
  if lx.tok ≠ .DURATIONVAL ∧ lx.tok ≠ .INF then failFound lx ["duration"]
  if lx.tok = .INF then pure 0
  else
    match parseDuration lx.lit with
    | .ok v => pure v
    | .error e => failAt (durErrText e) lx.pos

/-- `strconv.ParseInt(lit, 10, 64)` with the error dropped: 0 on a syntax error, the nearest
bound on a range error. -/
def parseInt64Clamped (lit : Str) : Int :=
  let (neg, ds) := splitSign lit
  if !allDigits ds then 0
  else
    let v : Int := if neg then -(digitsVal ds : Int) else digitsVal ds
    if v > maxInt64 then maxInt64 else if v < minInt64 then minInt64 else v

/-- `Parser.ParseOptionalTokenAndInt(t)`. -/
def parseOptTokInt (t : Token) : P Int := do
  let lx ← scanIW
  if lx.tok ≠ t then
    unscan
    pure 0
  else
    let n ← scanIW
    if n.tok ≠ .INTEGER then failFound n ["integer"]
    let v := parseInt64Clamped n.lit
    if v < 0 then failAt (t.str ++ " must be >= 0".toList) n.pos
    pure v

/-- `Parser.parseWriteLimit()`. -/
def parseWriteLimit : P Int := do
  let lx ← scanIW
  if lx.tok = .LIMIT then parseDurationTok
  else failFound lx ["LIMIT"]

/-- The `EVERY`/`FOR` operand of `parseResample`. -/
def parseResampleDur : P Int := do
  let lx ← scanIW
  if lx.tok ≠ .DURATIONVAL then failFound lx ["duration"]
  match parseDuration lx.lit with
  | .ok v => pure v
  | .error e => failAt (durErrText e) lx.pos

/-- `Parser.parseResample()`. -/
def parseResample : P (Int × Int) := do
  let interval ← (do if ← optTok .EVERY then parseResampleDur else pure 0)
  let maxDur ← (do if ← optTok .FOR then parseResampleDur else pure 0)
  if interval = 0 ∧ maxDur = 0 then
    let lx ← scanIW
    failFound lx ["EVERY", "FOR"]
  pure (interval, maxDur)

/-! ## clauses -/

/-- `Parser.parseCondition()`. -/
def parseCondition (fuel : Nat) : P (Option Expr) := do
  let lx ← scanIW
  if lx.tok ≠ .WHERE then
    unscan
    pure none
  else
    let e ← parseExpr fuel
    pure (some e)

/-- `Parser.parseDimension()`: after a regex dimension the next significant token is scanned
(skipping whitespace and comments) and pushed back. -/
def parseDimension (fuel : Nat) : P Expr := do
  match ← parseRegex with
  | some re =>
    let _ ← scanIW
    unscan
    pure re
  | none =>
    let e ← parseExpr fuel
    consumeWhitespace
    pure e

def dimLoop (fuel : Nat) : Nat → List Expr → P (List Expr)
  | 0, _ => throw .fuel
  | it + 1, acc => do
    let d ← parseDimension fuel
    let lx ← pscan
    if lx.tok ≠ .COMMA then
      unscan
      pure (acc ++ [d])
    else dimLoop fuel it (acc ++ [d])

/-- `Parser.parseDimensions()`. -/
def parseDimensions (fuel : Nat) : P (List Expr) := do
  let lx ← scanIW
  if lx.tok ≠ .GROUP then
    unscan
    pure []
  else
    expectTok .BY ["BY"]
    dimLoop fuel (← loopFuel) []

/-- `Parser.parseFill()`. -/
def parseFill (fuel : Nat) : P (FillOption × FillValue) := do
  let lx ← scanIW
  unscan
  let s ← get
  if lx.tok ≠ .IDENT ∨ lowerStr s.lowerTbl lx.lit ≠ "fill".toList then pure (.null, .none)
  else
    let e ← parseExpr fuel
    match e with
    | .call _ [a] =>
      -- only a `*VarRef` is printed (the option words are recognised by its *printed* form)
      let p := match a with
        | .varRef _ _ => a.print
        | _ => []
      if p = "null".toList then pure (.null, .none)
      else if p = "none".toList then pure (.none, .none)
      else if p = "previous".toList then pure (.previous, .none)
      else if p = "linear".toList then pure (.linear, .none)
      else
        match a with
        | .integer v => pure (.number, .int v)
        | .number v => pure (.number, .num v)
        | _ => failPlain "expected number argument in fill()".toList
    | .call _ _ => failPlain "fill requires an argument, e.g.: 0, null, none, previous, linear".toList
    | _ => failPlain "fill must be a function call".toList

/-- `(*time.Location).String()` of `time.LoadLocation(name)` when it succeeds. -/
def locationName (name : Str) : Str := if name = [] then "UTC".toList else name

/-- `Parser.parseLocation()`. -/
def parseLocation (fuel : Nat) : P (Option Str) := do
  let lx ← scanIW
  unscan
  let s ← get
  if lx.tok ≠ .IDENT ∨ lowerStr s.lowerTbl lx.lit ≠ "tz".toList then pure none
  else
    let e ← parseExpr fuel
    match e with
    | .call _ [a] =>
      match a with
      | .string v => pure (some (locationName v))
      | _ => failPlain "expected string argument in tz()".toList
    | .call _ _ => failPlain "tz requires exactly one argument".toList
    | _ => failPlain "tz must be a function call".toList

/-- `Parser.parseSortField()`. -/
def parseSortField : P SortField := do
  let ident ← parseIdent
  let lx ← scanIW
  if lx.tok ≠ .ASC ∧ lx.tok ≠ .DESC then
    unscan
    pure ⟨ident, true⟩
  else pure ⟨ident, lx.tok = .ASC⟩

def sortFieldsLoop : Nat → List SortField → P (List SortField)
  | 0, _ => throw .fuel
  | it + 1, acc => do
    let lx ← scanIW
    if lx.tok ≠ .COMMA then
      unscan
      pure acc
    else
      let f ← parseSortField
      sortFieldsLoop it (acc ++ [f])

def onlyTimeMsg : Str := "only ORDER BY time supported at this time".toList

/-- `Parser.parseSortFields()`. -/
def parseSortFields : P (List SortField) := do
  let lx ← scanIW
  let first ←
    match lx.tok with
    | .ASC => pure (⟨[], true⟩ : SortField)
    | .DESC => pure (⟨[], false⟩ : SortField)
    | .IDENT => do
      unscan
      let f ← parseSortField
      if lx.lit ≠ "time".toList then failPlain onlyTimeMsg
      pure f
    | _ => failFound lx ["identifier", "ASC", "DESC"]
  let fields ← sortFieldsLoop (← loopFuel) [first]
  if fields.length > 1 then failPlain onlyTimeMsg
  pure fields

/-- `Parser.parseOrderBy()`. -/
def parseOrderBy : P (List SortField) := do
  let lx ← scanIW
  if lx.tok ≠ .ORDER then
    unscan
    pure []
  else
    expectTok .BY ["BY"]
    parseSortFields

/-- `Parser.parseAlias()`. -/
def parseAlias : P Str := do
  let lx ← scanIW
  if lx.tok ≠ .AS then
    unscan
    pure []
  else parseIdent

def isBoolOp (t : Token) : Bool :=
  t == .EQ || t == .NEQ || t == .EQREGEX || t == .NEQREGEX || t == .LT || t == .LTE || t == .GT || t == .GTE ||
  t == .AND || t == .OR

mutual
  /-- The operators `validateField.Visit` flags, in visiting order (`Walk`: a flagged node is not
  descended into); `badToken` ends up as the last one. -/
  def Expr.badOps : Expr → List Token
    | .binary op l r => if isBoolOp op then [op] else l.badOps ++ r.badOps
    | .paren e => e.badOps
    | .call _ args => badOpsList args
    | _ => []
  def badOpsList : List Expr → List Token
    | [] => []
    | a :: rest => a.badOps ++ badOpsList rest
end

/-- Whether `WalkFunc` meets a `*Call` below this expression. -/
def Expr.hasCall : Expr → Bool
  | .call _ _ => true
  | .binary _ l r => l.hasCall || r.hasCall
  | .paren e => e.hasCall
  | _ => false

def Expr.regexSrc : Expr → Str
  | .regex s => s
  | _ => []

/-- `Parser.parseField()`. -/
def parseField (fuel : Nat) : P Field := do
  let e ←
    match ← parseRegex with
    | some re => pure re
    | none => do
      let lx ← scanIW
      unscan
      let e ← parseExpr fuel
      match e.badOps.getLast? with
      | some t =>
        failPlain ("invalid operator ".toList ++ t.str ++ " in SELECT clause at line ".toList ++
          natDigits (lx.pos.line + 1) ++ ", char ".toList ++ natDigits (lx.pos.char + 1) ++
          "; operator is intended for WHERE clause".toList)
      | none => pure e
  let alias ← parseAlias
  -- `p.ScanIgnoreWhitespace(); p.Unscan()`: whitespace and comments after the alias
  let _ ← scanIW
  unscan
  pure ⟨e, alias⟩

def fieldsLoop (fuel : Nat) : Nat → List Field → P (List Field)
  | 0, _ => throw .fuel
  | it + 1, acc => do
    let f ← parseField fuel
    let lx ← pscan
    if lx.tok ≠ .COMMA then
      unscan
      pure (acc ++ [f])
    else fieldsLoop fuel it (acc ++ [f])

/-- `Parser.parseFields()`. -/
def parseFields (fuel : Nat) : P (List Field) := do
  fieldsLoop fuel (← loopFuel) []

/-- `Parser.parseTarget(tr)`; `required` is `tr == targetRequired`. -/
def parseTarget (required : Bool) : P (Option Measurement) := do
  let lx ← scanIW
  if lx.tok ≠ .INTO then
    if required then failFound lx ["INTO"]
    unscan
    pure none
  else
    let idents0 ← parseSegmentedIdents
    let idents ←
      if idents0.length < 3 then do
        let ch ← peekRune
        if ch = ':' then
          parseTokens [.COLON, .MEASUREMENT]
          pure (idents0 ++ [[]])
        else pure idents0
      else pure idents0
    match idents with
    | [a] => pure (some { name := a, isTarget := true })
    | [a, b] => pure (some { retentionPolicy := a, name := b, isTarget := true })
    | [a, b, c] => pure (some { database := a, retentionPolicy := b, name := c, isTarget := true })
    | _ => pure (some { isTarget := true })

/-- The `switch len(idents)` at the end of `parseSource` (one or two identifiers). -/
def measurementOfIdents (idents : List Str) (re : Option Str) : Measurement :=
  match idents, re with
  | [a], some r => { retentionPolicy := a, regex := some r }
  | [a], none => { name := a }
  | [a, b], some r => { database := a, retentionPolicy := b, regex := some r }
  | [a, b], none => { retentionPolicy := a, name := b }
  | _, r => { regex := r }

/-- `Parser.parseSource(subqueries)`; `sub` is `none` for `subqueries == false`, else the parser
of the statement after `( SELECT`. -/
def parseSourceWith (sub : Option (P SelectStmt)) : P Source := do
  match ← parseRegex with
  | some re => pure (.measurement { regex := some re.regexSrc })
  | none =>
    let subq ←
      match sub with
      | none => pure none
      | some parseSub => do
        let lx ← scanIW
        if lx.tok = .LPAREN then
          parseTokens [.SELECT]
          let st ← parseSub
          parseTokens [.RPAREN]
          pure (some st)
        else
          unscan
          pure none
    match subq with
    | some st => pure (.subquery st)
    | none =>
      let idents ← parseSegmentedIdents
      match idents with
      | [a, b, c] => pure (.measurement { database := a, retentionPolicy := b, name := c })
      | _ =>
        let re ← parseRegex
        pure (.measurement (measurementOfIdents idents (re.map Expr.regexSrc)))

def sourcesLoop (sub : Option (P SelectStmt)) : Nat → List Source → P (List Source)
  | 0, _ => throw .fuel
  | it + 1, acc => do
    let s ← parseSourceWith sub
    let lx ← scanIW
    if lx.tok ≠ .COMMA then
      unscan
      pure (acc ++ [s])
    else sourcesLoop sub it (acc ++ [s])

/-- `Parser.parseSources(subqueries)`. -/
def parseSourcesWith (sub : Option (P SelectStmt)) : P (List Source) := do
  sourcesLoop sub (← loopFuel) []

/-- `parseSelectStatement(tr)` given the subquery parser. -/
def parseSelectBody (fuel : Nat) (sub : Option (P SelectStmt)) (targetRequired : Bool) : P SelectStmt := do
  let fields ← parseFields fuel
  let target ← parseTarget targetRequired
  expectTok .FROM ["FROM"]
  let sources ← parseSourcesWith sub
  let cond ← parseCondition fuel
  let dims ← parseDimensions fuel
  let (fill, fillValue) ← parseFill fuel
  let sortFields ← parseOrderBy
  let limit ← parseOptTokInt .LIMIT
  let offset ← parseOptTokInt .OFFSET
  let slimit ← parseOptTokInt .SLIMIT
  let soffset ← parseOptTokInt .SOFFSET
  let loc ← parseLocation fuel
  let isRaw := !(fields.any fun f => f.expr.hasCall)
  pure (.mk fields target dims sources cond sortFields limit offset slimit soffset isRaw fill fillValue loc
    [] false false [] false)

/-- `Parser.parseSelectStatement(tr)`; `targetSubquery` behaves as `targetNotRequired`. -/
def parseSelect : Nat → Bool → P SelectStmt
  | 0, _ => throw .fuel
  | fuel + 1, targetRequired => parseSelectBody fuel (some (parseSelect fuel false)) targetRequired

/-- `parseSources(false)`. -/
def parseSources : P (List Source) := parseSourcesWith none

/-- Optional `ON <ident>`. -/
def parseOnDb : P Str := do
  if ← optTok .ON then parseIdent else pure []

/-- Optional `FROM <sources>`. -/
def parseOptFrom : P (List Source) := do
  if ← optTok .FROM then parseSources else pure []

/-- `Parser.parseTagKeyExpr()`. -/
def parseTagKeyExpr : P (Token × Expr) := do
  parseTokens [.WITH, .KEY]
  let lx ← scanIW
  if lx.tok = .IN then
    expectTok .LPAREN ["("]
    let keys ← parseIdentList
    expectTok .RPAREN [")"]
    pure (.IN, .list keys)
  else if lx.tok = .EQ ∨ lx.tok = .NEQ then
    let ident ← parseIdent
    pure (lx.tok, .string ident)
  else if lx.tok = .EQREGEX ∨ lx.tok = .NEQREGEX then
    match ← parseRegex with
    | some re => pure (lx.tok, re)
    | none =>
      let t ← scanIW
      failFound t ["regex"]
  else failFound lx ["IN", "=", "=~"]

/-! ## SELECT-related helpers on the AST -/

/-- `SelectStatement.GroupByInterval()` on a freshly parsed statement (empty cache). -/
def groupByIntervalOfDims : List Expr → Except Str Int
  | [] => .ok 0
  | .call name args :: rest =>
    if name = "time".toList then
      if args.length < 1 ∨ args.length > 2 then .error "time dimension expected 1 or 2 arguments".toList
      else
        match args.head? with
        | some (.duration v) => .ok v
        | _ => .error "time dimension must have duration argument".toList
    else groupByIntervalOfDims rest
  | _ :: rest => groupByIntervalOfDims rest

def SelectStmt.groupByInterval (s : SelectStmt) : Except Str Int := groupByIntervalOfDims s.dimensions

/-- `CreateContinuousQueryStatement.validate()`. -/
def validateCQ (source : SelectStmt) (every for_ : Int) : Except Str Unit :=
  match source.groupByInterval with
  | .error e => .error e
  | .ok interval0 =>
    if for_ ≠ 0 then
      let interval := if every ≠ 0 ∧ every > interval0 then every else interval0
      if interval > for_ then
        .error ("FOR duration must be >= GROUP BY time duration: must be a minimum of ".toList ++
          formatDuration interval ++ ", got ".toList ++ formatDuration for_)
      else .ok ()
    else .ok ()

/-! ## statements -/

/-- `parseSetPasswordUserStatement`. -/
def parseSetPasswordUser : P Statement := do
  let name ← parseIdent
  expectTok .EQ ["="]
  let pw ← parseString
  pure (.setPasswordUser pw name)

/-- `parseKillQueryStatement`. -/
def parseKillQuery : P Statement := do
  let qid ← parseUInt64
  let host ← parseOnDb
  pure (.killQuery qid host)

/-- `parseCreateSubscriptionStatement`. -/
def parseCreateSubscription : P Statement := do
  let name ← parseIdent
  expectTok .ON ["ON"]
  let db ← parseIdent
  let dot ← pscan
  if dot.tok ≠ .DOT then failFound dot ["."]
  let rp ← parseIdent
  expectTok .DESTINATIONS ["DESTINATIONS"]
  let m ← scanIW
  if m.tok ≠ .ALL ∧ m.tok ≠ .ANY then failFound m ["ALL", "ANY"]
  let dests ← parseStringList
  pure (.createSubscription name db rp dests m.tok.str)

/-- The check for `INF` before a shard duration. -/
def parseShardDuration : P Int := do
  let lx ← scanIW
  if lx.tok = .INF then failAt "invalid duration INF for shard duration".toList lx.pos
  unscan
  parseDurationTok

/-- `parseCreateRetentionPolicyStatement`. -/
def parseCreateRetentionPolicy : P Statement := do
  let name ← parseIdent
  expectTok .ON ["ON"]
  let db ← parseIdent
  expectTok .DURATION ["DURATION"]
  let d ← parseDurationTok
  expectTok .REPLICATION ["REPLICATION"]
  let n ← parseIntRange 1 maxInt32
  let shard ← (do
    if ← optTok .SHARD then
      expectTok .DURATION ["DURATION"]
      parseShardDuration
    else pure 0)
  let dflt ← optTok .DEFAULT
  let future ← (do if ← optTok .FUTURE then parseWriteLimit else pure 0)
  let past ← (do if ← optTok .PAST then parseWriteLimit else pure 0)
  pure (.createRetentionPolicy name db d n dflt shard future past)

structure AlterOpts where
  duration : Option Int := none
  replication : Option Int := none
  default : Bool := false
  shard : Option Int := none
  future : Option Int := none
  past : Option Int := none

/-- The option loop of `parseAlterRetentionPolicyStatement`; `found` is the key set of the Go map. -/
def alterLoop : Nat → List Token → AlterOpts → P AlterOpts
  | 0, _, _ => throw .fuel
  | it + 1, found, o => do
    let lx ← scanIW
    if found.contains lx.tok then
      failAt ("found duplicate ".toList ++ lx.tok.str ++ " option".toList) lx.pos
    match lx.tok with
    | .DURATION =>
      let d ← parseDurationTok
      alterLoop it (lx.tok :: found) { o with duration := some d }
    | .REPLICATION =>
      let n ← parseIntRange 1 maxInt32
      alterLoop it (lx.tok :: found) { o with replication := some n }
    | .SHARD =>
      let t ← scanIW
      if t.tok = .DURATION then
        let d ← parseShardDuration
        alterLoop it (lx.tok :: found) { o with shard := some d }
      else failFound t ["DURATION"]
    | .DEFAULT => alterLoop it (lx.tok :: found) { o with default := true }
    | .FUTURE =>
      let d ← parseWriteLimit
      alterLoop it (lx.tok :: found) { o with future := some d }
    | .PAST =>
      let d ← parseWriteLimit
      alterLoop it (lx.tok :: found) { o with past := some d }
    | _ =>
      if found = [] then failFound lx ["DURATION", "REPLICATION", "SHARD", "DEFAULT", "FUTURE", "PAST"]
      unscan
      pure o

/-- `parseAlterRetentionPolicyStatement`. Six distinct options exist, so the loop runs at most
seven times. -/
def parseAlterRetentionPolicy : P Statement := do
  let lx ← scanIW
  let name ←
    if lx.tok = .DEFAULT then pure "default".toList
    else if lx.tok = .IDENT then pure lx.lit
    else failFound lx ["identifier"]
  expectTok .ON ["ON"]
  let db ← parseIdent
  let o ← alterLoop 8 [] {}
  pure (.alterRetentionPolicy name db o.duration o.replication o.default o.shard o.future o.past)

/-- `parsePrivilege`. -/
def parsePrivilege : P Privilege := do
  let lx ← scanIW
  match lx.tok with
  | .READ => pure .read
  | .WRITE => pure .write
  | .ALL =>
    let t ← scanIW
    if t.tok ≠ .PRIVILEGES then unscan
    pure .all
  | _ => failFound lx ["READ", "WRITE", "ALL [PRIVILEGES]"]

/-- `parseRevokeStatement` (with `parseRevokeOnStatement`, `parseRevokeAdminStatement`). -/
def parseRevoke : P Statement := do
  let priv ← parsePrivilege
  let lx ← scanIW
  if lx.tok = .ON then
    let on ← parseIdent
    expectTok .FROM ["FROM"]
    let user ← parseIdent
    pure (.revoke priv on user)
  else if lx.tok = .FROM then
    if priv ≠ .all then failFound lx ["ON"]
    let user ← parseIdent
    pure (.revokeAdmin user)
  else if priv = .all then failFound lx ["ON", "FROM"]
  else failFound lx ["ON"]

/-- `parseGrantStatement` (with `parseGrantOnStatement`, `parseGrantAdminStatement`). -/
def parseGrant : P Statement := do
  let priv ← parsePrivilege
  let lx ← scanIW
  if lx.tok = .ON then
    let on ← parseIdent
    expectTok .TO ["TO"]
    let user ← parseIdent
    pure (.grant priv on user)
  else if lx.tok = .TO then
    if priv ≠ .all then failFound lx ["ON"]
    let user ← parseIdent
    pure (.grantAdmin user)
  else if priv = .all then failFound lx ["ON", "TO"]
  else failFound lx ["ON"]

/-- The error the `WalkFunc` over the sources of DELETE / DROP SERIES leaves behind: each offending
measurement overwrites the previous error; within one measurement the retention-policy test
(only in DROP SERIES) comes last. -/
def sourceRestriction (checkRP : Bool) : List Source → Option Str
  | [] => none
  | .measurement m :: rest =>
    match sourceRestriction checkRP rest with
    | some e => some e
    | none =>
      if checkRP ∧ m.retentionPolicy ≠ [] then some "retention policy not supported".toList
      else if m.database ≠ [] then some "database not supported".toList
      else none
  | _ :: rest => sourceRestriction checkRP rest

/-- The common body of `parseDeleteStatement` and `parseDropSeriesStatement`. -/
def parseDeleteLike (fuel : Nat) (checkRP : Bool) : P (List Source × Option Expr) := do
  let lx ← scanIW
  let sources ←
    if lx.tok = .FROM then do
      let ss ← parseSources
      match sourceRestriction checkRP ss with
      | some msg => failAt msg ⟨0, 0⟩
      | none => pure ss
    else do
      unscan
      pure []
  let cond ← parseCondition fuel
  if cond.isNone ∧ sources = [] then failFound lx ["FROM", "WHERE"]
  pure (sources, cond)

/-- `parseShowSeriesCardinalityStatement(exact)`. -/
def parseShowSeriesCardinality (fuel : Nat) (exact : Bool) : P Statement := do
  let db ← parseOnDb
  let sources ← parseOptFrom
  let cond ← parseCondition fuel
  let dims ← parseDimensions fuel
  let limit ← parseOptTokInt .LIMIT
  let offset ← parseOptTokInt .OFFSET
  pure (.showSeriesCardinality db exact sources cond dims limit offset)

/-- `parseShowSeriesStatement`. A lone `EXACT` is consumed and forgotten. -/
def parseShowSeries (fuel : Nat) : P Statement := do
  let exact ← optTok .EXACT
  if ← optTok .CARDINALITY then parseShowSeriesCardinality fuel exact
  else
    let db ← parseOnDb
    let sources ← parseOptFrom
    let cond ← parseCondition fuel
    let sort ← parseOrderBy
    let limit ← parseOptTokInt .LIMIT
    let offset ← parseOptTokInt .OFFSET
    pure (.showSeries db sources cond sort limit offset)

/-- `parseShowMeasurementCardinalityStatement(exact)`. -/
def parseShowMeasurementCardinality (fuel : Nat) (exact : Bool) : P Statement := do
  if exact then expectTok .CARDINALITY ["CARDINALITY"]
  let db ← parseOnDb
  let sources ← parseOptFrom
  let cond ← parseCondition fuel
  let dims ← parseDimensions fuel
  let limit ← parseOptTokInt .LIMIT
  let offset ← parseOptTokInt .OFFSET
  pure (.showMeasurementCardinality exact db sources cond dims limit offset)

/-- `identifier or *` in the `ON` clause of SHOW MEASUREMENTS. -/
def parseIdentOrStar : P (Str × Bool) := do
  let lx ← scanIW
  if lx.tok = .IDENT then pure (lx.lit, false)
  else if lx.tok = .MUL then pure ([], true)
  else failFound lx ["identifier or *"]

/-- `parseShowMeasurementsStatement`. -/
def parseShowMeasurements (fuel : Nat) : P Statement := do
  let (db, wdb, rp, wrp) ← (do
    if ← optTok .ON then
      let (db, wdb) ← parseIdentOrStar
      if ← optTok .DOT then
        let (rp, wrp) ← parseIdentOrStar
        pure (db, wdb, rp, wrp)
      else pure (db, wdb, [], false)
    else pure ([], false, [], false))
  let source ← (do
    if ← optTok .WITH then
      parseTokens [.MEASUREMENT]
      let lx ← scanIW
      if lx.tok = .EQ ∨ lx.tok = .EQREGEX then
        let s ← parseSourceWith none
        pure (some s)
      else failFound lx ["=", "=~"]
    else pure none)
  let cond ← parseCondition fuel
  let sort ← parseOrderBy
  let limit ← parseOptTokInt .LIMIT
  let offset ← parseOptTokInt .OFFSET
  pure (.showMeasurements db rp wdb wrp source cond sort limit offset)

/-- `parseShowRetentionPoliciesStatement`. -/
def parseShowRetentionPolicies : P Statement := do
  let db ← parseOnDb
  pure (.showRetentionPolicies db)

/-- The `[EXACT] CARDINALITY` prefix of SHOW TAG KEY / SHOW FIELD KEY. -/
def parseExactCardinality : P Bool := do
  let exact ← optTok .EXACT
  let lx ← scanIW
  if lx.tok ≠ .CARDINALITY then
    failFound lx (if exact then ["CARDINALITY"] else ["EXACT", "CARDINALITY"])
  pure exact

/-- `parseShowTagKeyCardinalityStatement`. -/
def parseShowTagKeyCardinality (fuel : Nat) : P Statement := do
  let exact ← parseExactCardinality
  let db ← parseOnDb
  let sources ← parseOptFrom
  let cond ← parseCondition fuel
  let dims ← parseDimensions fuel
  let limit ← parseOptTokInt .LIMIT
  let offset ← parseOptTokInt .OFFSET
  pure (.showTagKeyCardinality db exact sources cond dims limit offset)

/-- `parseShowFieldKeyCardinalityStatement`. -/
def parseShowFieldKeyCardinality (fuel : Nat) : P Statement := do
  let exact ← parseExactCardinality
  let db ← parseOnDb
  let sources ← parseOptFrom
  let cond ← parseCondition fuel
  let dims ← parseDimensions fuel
  let limit ← parseOptTokInt .LIMIT
  let offset ← parseOptTokInt .OFFSET
  pure (.showFieldKeyCardinality db exact sources cond dims limit offset)

/-- `parseShowTagKeysStatement`. -/
def parseShowTagKeys (fuel : Nat) : P Statement := do
  let db ← parseOnDb
  let sources ← parseOptFrom
  let lx ← scanIW
  unscan
  let (op, key) ← (do
    if lx.tok = .WITH then
      let (op, e) ← parseTagKeyExpr
      pure (op, some e)
    else pure (Token.ILLEGAL, none))
  let cond ← parseCondition fuel
  let sort ← parseOrderBy
  let limit ← parseOptTokInt .LIMIT
  let offset ← parseOptTokInt .OFFSET
  let slimit ← parseOptTokInt .SLIMIT
  let soffset ← parseOptTokInt .SOFFSET
  pure (.showTagKeys db sources op key cond sort limit offset slimit soffset)

/-- `parseShowTagValuesCardinalityStatement(exact)`. -/
def parseShowTagValuesCardinality (fuel : Nat) (exact : Bool) : P Statement := do
  if exact then expectTok .CARDINALITY ["CARDINALITY"]
  let db ← parseOnDb
  let sources ← parseOptFrom
  let (op, key) ← parseTagKeyExpr
  let cond ← parseCondition fuel
  let dims ← parseDimensions fuel
  let limit ← parseOptTokInt .LIMIT
  let offset ← parseOptTokInt .OFFSET
  pure (.showTagValuesCardinality db exact sources op (some key) cond dims limit offset)

/-- `parseShowTagValuesStatement`. -/
def parseShowTagValues (fuel : Nat) : P Statement := do
  let lx ← scanIW
  if lx.tok = .EXACT then parseShowTagValuesCardinality fuel true
  else if lx.tok = .CARDINALITY then parseShowTagValuesCardinality fuel false
  else
    unscan
    let db ← parseOnDb
    let sources ← parseOptFrom
    let (op, key) ← parseTagKeyExpr
    let cond ← parseCondition fuel
    let sort ← parseOrderBy
    let limit ← parseOptTokInt .LIMIT
    let offset ← parseOptTokInt .OFFSET
    pure (.showTagValues db sources op (some key) cond sort limit offset)

/-- `parseShowFieldKeysStatement`. -/
def parseShowFieldKeys : P Statement := do
  let db ← parseOnDb
  let sources ← parseOptFrom
  let sort ← parseOrderBy
  let limit ← parseOptTokInt .LIMIT
  let offset ← parseOptTokInt .OFFSET
  pure (.showFieldKeys db sources sort limit offset)

/-- Optional `FOR '<module>'` of SHOW STATS / SHOW DIAGNOSTICS. -/
def parseForModule : P Str := do
  if ← optTok .FOR then parseString else pure []

/-- `parseCreateContinuousQueryStatement`. -/
def parseCreateContinuousQuery (fuel : Nat) : P Statement := do
  let name ← parseIdent
  expectTok .ON ["ON"]
  let db ← parseIdent
  let (every, for_) ← (do if ← optTok .RESAMPLE then parseResample else pure (0, 0))
  parseTokens [.BEGIN, .SELECT]
  let source ← parseSelect fuel true
  if !source.isRawQuery then
    let r := source.groupByInterval
    let bad : Option (List Str) :=
      match r with
      | .error e => some ["GROUP BY time(...)".toList, e]
      | .ok d => if d = 0 then some ["GROUP BY time(...)".toList] else none
    match bad with
    | some expected =>
      unscan
      unscan
      let lx ← scanIW
      throw (.err (.found (tokstr lx.tok lx.lit) expected lx.pos))
    | none => pure ()
  expectTok .END ["END"]
  match validateCQ source every for_ with
  | .error e => failPlain e
  | .ok _ => pure (.createContinuousQuery name db source every for_)

/-- One optional `<KEYWORD> …` part of `CREATE DATABASE … WITH`: `parseTokens` + `Unscan` on failure. -/
def optClause {α} (t : Token) (body : P α) : P (Option α) := do
  let lx ← scanIW
  if lx.tok ≠ t then
    unscan
    pure none
  else
    let v ← body
    pure (some v)

/-- `parseCreateDatabaseStatement`. -/
def parseCreateDatabase : P Statement := do
  let name ← parseIdent
  if ← optTok .WITH then
    let t ← scanIW
    if t.tok ≠ .DURATION ∧ t.tok ≠ .NAME ∧ t.tok ≠ .REPLICATION ∧ t.tok ≠ .SHARD ∧ t.tok ≠ .FUTURE ∧ t.tok ≠ .PAST then
      failFound t ["DURATION", "NAME", "REPLICATION", "SHARD", "FUTURE", "PAST"]
    unscan
    let d ← optClause .DURATION parseDurationTok
    let n ← optClause .REPLICATION (parseIntRange 1 maxInt32)
    let shard ← optClause .SHARD (do
      expectTok .DURATION ["DURATION"]
      parseDurationTok)
    let future ← optClause .FUTURE parseWriteLimit
    let past ← optClause .PAST parseWriteLimit
    let rpName ← optClause .NAME parseIdent
    pure (.createDatabase name true d n (rpName.getD []) (shard.getD 0) future past)
  else pure (.createDatabase name false none none [] 0 none none)

/-- `parseDropSubscriptionStatement`. -/
def parseDropSubscription : P Statement := do
  let name ← parseIdent
  expectTok .ON ["ON"]
  let db ← parseIdent
  let dot ← pscan
  if dot.tok ≠ .DOT then failFound dot ["."]
  let rp ← parseIdent
  pure (.dropSubscription name db rp)

/-- `<ident> ON <ident>` (DROP RETENTION POLICY, DROP CONTINUOUS QUERY). -/
def parseNameOnDb : P (Str × Str) := do
  let name ← parseIdent
  expectTok .ON ["ON"]
  let db ← parseIdent
  pure (name, db)

/-- `parseCreateUserStatement`. -/
def parseCreateUser : P Statement := do
  let name ← parseIdent
  parseTokens [.WITH, .PASSWORD]
  let pw ← parseString
  if ← optTok .WITH then
    parseTokens [.ALL, .PRIVILEGES]
    pure (.createUser name pw true)
  else pure (.createUser name pw false)

/-- `parseExplainStatement`. -/
def parseExplain (fuel : Nat) : P Statement := do
  let analyze ← optTok .ANALYZE
  let verbose ← optTok .VERBOSE
  expectTok .SELECT ["SELECT"]
  let s ← parseSelect fuel false
  pure (.explain s analyze verbose)

/-- The handler closures registered in `init()` of parse_tree.go. A handler added to the Go
table makes this match incomplete, i.e. the model stops compiling. -/
def runHandler (fuel : Nat) : Handler → P Statement
  | .parseSelectStatement_targetNotRequired => do
    let s ← parseSelect fuel false
    pure (.select s)
  | .parseDeleteStatement => do
    let (ss, c) ← parseDeleteLike fuel false
    pure (.deleteSeries ss c)
  | .parseShowContinuousQueriesStatement => pure .showContinuousQueries
  | .parseShowDatabasesStatement => pure .showDatabases
  | .parseShowDiagnosticsStatement => do
    let m ← parseForModule
    pure (.showDiagnostics m)
  | .parseShowFieldKeyCardinalityStatement => parseShowFieldKeyCardinality fuel
  | .parseShowFieldKeysStatement => parseShowFieldKeys
  | .parseGrantsForUserStatement => do
    let n ← parseIdent
    pure (.showGrantsForUser n)
  | .parseShowMeasurementCardinalityStatement_true => parseShowMeasurementCardinality fuel true
  | .parseShowMeasurementCardinalityStatement_false => parseShowMeasurementCardinality fuel false
  | .parseShowMeasurementsStatement => parseShowMeasurements fuel
  | .parseShowQueriesStatement => pure .showQueries
  | .parseShowRetentionPoliciesStatement => parseShowRetentionPolicies
  | .parseShowSeriesStatement => parseShowSeries fuel
  | .parseShowShardGroupsStatement => pure .showShardGroups
  | .parseShowShardsStatement => pure .showShards
  | .parseShowStatsStatement => do
    let m ← parseForModule
    pure (.showStats m)
  | .parseShowSubscriptionsStatement => pure .showSubscriptions
  | .parseShowTagKeyCardinalityStatement => parseShowTagKeyCardinality fuel
  | .parseShowTagKeysStatement => parseShowTagKeys fuel
  | .parseShowTagValuesStatement => parseShowTagValues fuel
  | .parseShowUsersStatement => pure .showUsers
  | .parseCreateContinuousQueryStatement => parseCreateContinuousQuery fuel
  | .parseCreateDatabaseStatement => parseCreateDatabase
  | .parseCreateUserStatement => parseCreateUser
  | .parseCreateRetentionPolicyStatement => parseCreateRetentionPolicy
  | .parseCreateSubscriptionStatement => parseCreateSubscription
  | .parseDropContinuousQueryStatement => do
    let (n, db) ← parseNameOnDb
    pure (.dropContinuousQuery n db)
  | .parseDropDatabaseStatement => do
    let n ← parseIdent
    pure (.dropDatabase n)
  | .parseDropMeasurementStatement => do
    let n ← parseIdent
    pure (.dropMeasurement n)
  | .parseDropRetentionPolicyStatement => do
    let (n, db) ← parseNameOnDb
    pure (.dropRetentionPolicy n db)
  | .parseDropSeriesStatement => do
    let (ss, c) ← parseDeleteLike fuel true
    pure (.dropSeries ss c)
  | .parseDropShardStatement => do
    let id ← parseUInt64
    pure (.dropShard id)
  | .parseDropSubscriptionStatement => parseDropSubscription
  | .parseDropUserStatement => do
    let n ← parseIdent
    pure (.dropUser n)
  | .parseExplainStatement => parseExplain fuel
  | .parseGrantStatement => parseGrant
  | .parseRevokeStatement => parseRevoke
  | .parseAlterRetentionPolicyStatement => parseAlterRetentionPolicy
  | .parseSetPasswordUserStatement => parseSetPasswordUser
  | .parseKillQueryStatement => parseKillQuery

def lookupTok {α} (t : Token) : List (Token × α) → Option α
  | [] => none
  | (k, v) :: rest => if k = t then some v else lookupTok t rest

/-- `ParseTree.Parse` on the generated tree; `idx` is the current subtree. -/
def dispatchLoop (fuel : Nat) : Nat → Nat → P Statement
  | 0, _ => throw .fuel
  | it + 1, idx => do
    let node := dispatch.getD idx default
    let lx ← scanIW
    match lookupTok lx.tok node.subs with
    | some j => dispatchLoop fuel it j
    | none =>
      match lookupTok lx.tok node.handlers with
      | some h => runHandler fuel h
      | none => throw (.err (.found (tokstr lx.tok lx.lit) (node.keys.map Token.str) lx.pos))

/-- `Parser.ParseStatement()`. Every step descends one level of the tree. -/
def parseStatement (fuel : Nat) : P Statement := dispatchLoop fuel (dispatch.length + 1) 0

def queryLoop (fuel : Nat) : Nat → Bool → List Statement → P (List Statement)
  | 0, _, _ => throw .fuel
  | it + 1, semi, acc => do
    let lx ← scanIW
    if lx.tok = .EOF then pure acc
    else if lx.tok = .SEMICOLON then queryLoop fuel it true acc
    else
      if !semi then failFound lx [";"]
      unscan
      let s ← parseStatement fuel
      queryLoop fuel it false (acc ++ [s])

/-- `Parser.ParseQuery()`. -/
def parseQuery (fuel : Nat) : P (List Statement) := do
  queryLoop fuel (← loopFuel) true []

/-- `ParseStatement(text)` with parameters. -/
def parseStatementText (text : Str) (params : List (Str × BoundValue)) (lowerTbl : List (Char × Char)) :
    Except Fail Statement :=
  (parseStatement (fuelFor text)).run' (PState.init text params lowerTbl)

/-- `ParseQuery(text)` with parameters. -/
def parseQueryText (text : Str) (params : List (Str × BoundValue)) (lowerTbl : List (Char × Char)) :
    Except Fail (List Statement) :=
  (parseQuery (fuelFor text)).run' (PState.init text params lowerTbl)

end InfluxQL

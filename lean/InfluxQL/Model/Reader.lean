import InfluxQL.Gen.Chars
import InfluxQL.Model.Basic
/-
Model of `reader` (scanner.go): the buffered rune reader with CR folding,
per-rune positions and the NUL/EOF sentinel.

The Go reader delivers runes one at a time; each delivered rune is stamped
with the reader's position *before* it (`buf.pos = r.pos`), and the position
then advances: a (folded) newline starts a new line, any other rune advances
the column — unless an `eof` rune (`rune(0)`: a literal NUL in the text, or the
end of input, which the code cannot tell apart) has been delivered before,
after which the column is frozen (`else if !r.eof { r.pos.Char++ }`).

`stamp` computes the whole delivered stream of a text at once. End of input
behaves exactly like an endless run of NULs, so the stream is
`stampRunes (foldCR text ++ [NUL])` followed by `(eof, fin)` forever; the
`Cursor` keeps `fin` to answer reads past the end of the list.

`read`/`unread` pairs of the Go code are look-ahead: the model is a pure
cursor (`unread` = "do not advance"). The 3-slot ring is not modelled; that the
push-back depth stays within it is asserted by the `verif` hook in the
implementation during every correspondence run.
-/
namespace InfluxQL
open Gen

structure Pos where
  line : Nat
  char : Nat
  deriving DecidableEq, Repr, Inhabited

/-- CR / CRLF folding of `reader.read`: `\r\n` and a lone `\r` are delivered as one `\n`. -/
def foldCR : List Char → List Char
  | [] => []
  | '\r' :: '\n' :: t => '\n' :: foldCR t
  | '\r' :: t => '\n' :: foldCR t
  | c :: t => c :: foldCR t

/-- Position update after delivering `ch` (`eofSeen` = `r.eof` before this rune). -/
def advance (ch : Char) (pos : Pos) (eofSeen : Bool) : Pos :=
  if ch = '\n' then { line := pos.line + 1, char := 0 }
  else if !eofSeen then { pos with char := pos.char + 1 }
  else pos

/-- Stamp already-folded runes with the positions the reader attaches to them. -/
def stampRunes : List Char → Pos → Bool → List (Char × Pos)
  | [], _, _ => []
  | ch :: t, pos, e => (ch, pos) :: stampRunes t (advance ch pos e) (e || ch == eofRune)

/-- The reader's final position / eof flag after delivering the given folded runes. -/
def finalState : List Char → Pos → Bool → Pos × Bool
  | [], pos, e => (pos, e)
  | ch :: t, pos, e => finalState t (advance ch pos e) (e || ch == eofRune)

/-- A cursor into the delivered stream.
`prev` is the rune delivered just before the cursor (what `curr()` returns
whenever the logical cursor is here; the zero slot at the start);
`off` counts delivered runes (for the tiling statement). -/
structure Cursor where
  prev : Char × Pos
  rest : List (Char × Pos)
  fin : Pos
  off : Nat
  deriving Repr

def Cursor.ofRunes (text : List Char) : Cursor :=
  let folded := foldCR text ++ [eofRune]
  { prev := (eofRune, ⟨0, 0⟩), rest := stampRunes folded ⟨0, 0⟩ false,
    fin := (finalState folded ⟨0, 0⟩ false).1, off := 0 }

/-- `reader.read()`: deliver the next rune. -/
def Cursor.read (r : Cursor) : (Char × Pos) × Cursor :=
  match r.rest with
  | [] => ((eofRune, r.fin), { r with prev := (eofRune, r.fin), off := r.off + 1 })
  | x :: t => (x, { r with prev := x, rest := t, off := r.off + 1 })

/-- `read()` then `unread()`: look at the next rune. -/
def Cursor.peek (r : Cursor) : Char :=
  match r.rest with
  | [] => eofRune
  | x :: _ => x.1

/-- Loop "read runes while `p` holds; `unread` the first that does not".
`p` must reject `eof` (all uses do); the stopping rune is not consumed. -/
def spanStamped (p : Char → Bool) : List (Char × Pos) → Char × Pos → Nat →
    List Char × List (Char × Pos) × (Char × Pos) × Nat
  | [], prev, n => ([], [], prev, n)
  | (c, q) :: t, prev, n =>
    if p c && c != eofRune then
      let (cs, rest, pv, m) := spanStamped p t (c, q) (n + 1)
      (c :: cs, rest, pv, m)
    else ([], (c, q) :: t, prev, n)

def Cursor.readWhile (p : Char → Bool) (r : Cursor) : List Char × Cursor :=
  let (cs, rest, pv, m) := spanStamped p r.rest r.prev r.off
  (cs, { r with rest := rest, prev := pv, off := m })

/-- "`if ch == eof { break }`" without `unread`: an `eof` rune met by such a loop is consumed. -/
def Cursor.eatEof (r : Cursor) : Cursor :=
  if r.peek = eofRune then r.read.2 else r

end InfluxQL

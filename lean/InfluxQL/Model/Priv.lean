import InfluxQL.Gen.Priv
import InfluxQL.Model.Ast
/-
Model of the `RequiredPrivileges` methods of ast.go: an interpreter of the regenerated table
`Gen.privTable` (one `PrivRule` per statement type) over `Statement` of Model/Ast.lean.

What is written by hand here is only how a rule shape is executed (`interpRule`), which
constructor is which Go type (`Statement.kind`) and where the fields a rule may read live
(`Statement.nameOf`, `.exact`, `.sources`, `.selectStmt?`); which rule a statement type has, and
every constant in it, comes from the generated table.

Errors: `Sources.RequiredPrivileges` fails only on a source that is neither `*Measurement` nor
`*SubQuery` – the model's `Source` has no such value. `CreateContinuousQueryStatement` dereferences
`s.Source.Target` without a nil check: a missing target is `PrivFail.nilTarget` (a panic in Go).
-/
namespace InfluxQL
open Gen

/-- `ExecutionPrivilege`. -/
structure ExecPriv where
  admin : Bool
  name : Str
  privilege : Privilege
  deriving DecidableEq, Repr, Inhabited

def Gen.PrivConst.toPrivilege : PrivConst → Privilege
  | .NoPrivileges => .none
  | .ReadPrivilege => .read
  | .WritePrivilege => .write
  | .AllPrivileges => .all

inductive PrivFail where
  | nilTarget      -- nil pointer dereference: CREATE CONTINUOUS QUERY whose SELECT has no INTO
  | emptyBase      -- `ep[0]` on an empty literal (cannot happen with the generated table)
  | noRule         -- the table has no row / a row of the wrong shape for this statement
  deriving DecidableEq, Repr, Inhabited

namespace Statement

/-- The Go type of a statement value. -/
def kind : Statement → StmtKind
  | .alterRetentionPolicy .. => .AlterRetentionPolicyStatement
  | .createContinuousQuery .. => .CreateContinuousQueryStatement
  | .createDatabase .. => .CreateDatabaseStatement
  | .createRetentionPolicy .. => .CreateRetentionPolicyStatement
  | .createSubscription .. => .CreateSubscriptionStatement
  | .createUser .. => .CreateUserStatement
  | .deleteSeries .. => .DeleteSeriesStatement
  | .delete .. => .DeleteStatement
  | .dropContinuousQuery .. => .DropContinuousQueryStatement
  | .dropDatabase .. => .DropDatabaseStatement
  | .dropMeasurement .. => .DropMeasurementStatement
  | .dropRetentionPolicy .. => .DropRetentionPolicyStatement
  | .dropSeries .. => .DropSeriesStatement
  | .dropShard .. => .DropShardStatement
  | .dropSubscription .. => .DropSubscriptionStatement
  | .dropUser .. => .DropUserStatement
  | .explain .. => .ExplainStatement
  | .grant .. => .GrantStatement
  | .grantAdmin .. => .GrantAdminStatement
  | .killQuery .. => .KillQueryStatement
  | .revoke .. => .RevokeStatement
  | .revokeAdmin .. => .RevokeAdminStatement
  | .select .. => .SelectStatement
  | .setPasswordUser .. => .SetPasswordUserStatement
  | .showContinuousQueries => .ShowContinuousQueriesStatement
  | .showDatabases => .ShowDatabasesStatement
  | .showDiagnostics .. => .ShowDiagnosticsStatement
  | .showFieldKeyCardinality .. => .ShowFieldKeyCardinalityStatement
  | .showFieldKeys .. => .ShowFieldKeysStatement
  | .showGrantsForUser .. => .ShowGrantsForUserStatement
  | .showMeasurementCardinality .. => .ShowMeasurementCardinalityStatement
  | .showMeasurements .. => .ShowMeasurementsStatement
  | .showQueries => .ShowQueriesStatement
  | .showRetentionPolicies .. => .ShowRetentionPoliciesStatement
  | .showSeries .. => .ShowSeriesStatement
  | .showSeriesCardinality .. => .ShowSeriesCardinalityStatement
  | .showShardGroups => .ShowShardGroupsStatement
  | .showShards => .ShowShardsStatement
  | .showStats .. => .ShowStatsStatement
  | .showSubscriptions => .ShowSubscriptionsStatement
  | .showTagKeyCardinality .. => .ShowTagKeyCardinalityStatement
  | .showTagKeys .. => .ShowTagKeysStatement
  | .showTagValues .. => .ShowTagValuesStatement
  | .showTagValuesCardinality .. => .ShowTagValuesCardinalityStatement
  | .showUsers => .ShowUsersStatement

/-- The `Database` field of the statement types that have one (`""` otherwise). -/
def databaseField : Statement → Str
  | .alterRetentionPolicy _ db .. => db
  | .createContinuousQuery _ db .. => db
  | .createRetentionPolicy _ db .. => db
  | .createSubscription _ db .. => db
  | .dropContinuousQuery _ db => db
  | .dropRetentionPolicy _ db => db
  | .dropSubscription _ db _ => db
  | .showFieldKeyCardinality db .. => db
  | .showFieldKeys db .. => db
  | .showMeasurementCardinality _ db .. => db
  | .showMeasurements db .. => db
  | .showRetentionPolicies db => db
  | .showSeries db .. => db
  | .showSeriesCardinality db .. => db
  | .showTagKeyCardinality db .. => db
  | .showTagKeys db .. => db
  | .showTagValues db .. => db
  | .showTagValuesCardinality db .. => db
  | _ => []

/-- Value of a name source of a literal privilege (`""` or `s.<Field>`). -/
def nameOf (s : Statement) : NameSource → Str
  | .empty => []
  | .Database => s.databaseField

/-- `s.Exact` (false for types without the field). -/
def exact : Statement → Bool
  | .showFieldKeyCardinality _ e .. => e
  | .showMeasurementCardinality e .. => e
  | .showSeriesCardinality _ e .. => e
  | .showTagKeyCardinality _ e .. => e
  | .showTagValuesCardinality _ e .. => e
  | _ => false

/-- `s.Sources` (empty for types without the field). -/
def sources : Statement → List Source
  | .deleteSeries srcs _ => srcs
  | .dropSeries srcs _ => srcs
  | .showFieldKeyCardinality _ _ srcs .. => srcs
  | .showFieldKeys _ srcs .. => srcs
  | .showMeasurementCardinality _ _ srcs .. => srcs
  | .showSeries _ srcs .. => srcs
  | .showSeriesCardinality _ _ srcs .. => srcs
  | .showTagKeyCardinality _ _ srcs .. => srcs
  | .showTagKeys _ srcs .. => srcs
  | .showTagValues _ srcs .. => srcs
  | .showTagValuesCardinality _ _ srcs .. => srcs
  | _ => []

/-- The SELECT a statement is or wraps: the statement itself, `ExplainStatement.Statement`,
`CreateContinuousQueryStatement.Source`. -/
def selectStmt? : Statement → Option SelectStmt
  | .select s => some s
  | .explain s .. => some s
  | .createContinuousQuery _ _ s .. => some s
  | _ => none

end Statement

/-! ## `Sources.RequiredPrivileges` and `SelectStatement.RequiredPrivileges` -/

mutual
  /-- One source: a measurement gives one privilege on its database; a subquery gives what its
  statement requires. -/
  def sourcePrivs : Source → List ExecPriv
    | .measurement m => [⟨sourcesMeasurementAdmin, m.database, sourcesMeasurementPriv.toPrivilege⟩]
    | .subquery s => selectPrivs s
  /-- `Sources.RequiredPrivileges` (the loop appends in source order). -/
  def sourcesPrivs : List Source → List ExecPriv
    | [] => []
    | src :: rest => sourcePrivs src ++ sourcesPrivs rest
  /-- `SelectStatement.RequiredPrivileges`. -/
  def selectPrivs : SelectStmt → List ExecPriv
    | .mk _ target _ srcs _ _ _ _ _ _ _ _ _ _ _ _ _ _ _ =>
      sourcesPrivs srcs ++
        (match target with
         | some t => [⟨selectTargetAdmin, t.database, selectTargetPriv.toPrivilege⟩]
         | none => [])
end

/-! ## The interpreter -/

def entryPriv (s : Statement) (e : PrivEntry) : ExecPriv := ⟨e.admin, s.nameOf e.name, e.priv.toPrivilege⟩

def interpRule (s : Statement) : PrivRule → Except PrivFail (List ExecPriv)
  | .literal es => .ok (es.map (entryPriv s))
  | .sources => .ok (sourcesPrivs s.sources)
  | .literalIfNoSources orNotExact es =>
    if (orNotExact && !s.exact) || s.sources.length == 0 then .ok (es.map (entryPriv s))
    else .ok (sourcesPrivs s.sources)
  | .continuousQuery base reset tAdmin tPriv =>
    match s.selectStmt? with
    | none => .error .noRule
    | some sel =>
      match sel.target with
      | none => .error .nilTarget
      | some t =>
        if t.database ≠ [] then
          match base.map (entryPriv s) with
          | [] => .error .emptyBase
          | p :: rest => .ok (({ p with privilege := reset.toPrivilege } :: rest) ++ [⟨tAdmin, t.database, tPriv.toPrivilege⟩])
        else .ok (base.map (entryPriv s))
  | .select =>
    match s.selectStmt? with
    | some sel => .ok (selectPrivs sel)
    | none => .error .noRule
  | .explain =>
    match s.selectStmt? with
    | some sel => .ok (selectPrivs sel)
    | none => .error .noRule

def lookupRule (k : StmtKind) : List (StmtKind × PrivRule) → Option PrivRule
  | [] => none
  | (k', r) :: rest => if k' = k then some r else lookupRule k rest

/-- `Statement.RequiredPrivileges()`. -/
def requiredPrivileges (s : Statement) : Except PrivFail (List ExecPriv) :=
  match lookupRule s.kind privTable with
  | none => .error .noRule
  | some r => interpRule s r

/-- A statement value of the given Go type with the fields `RequiredPrivileges` may read set as
given and every other field zero (used by the oracle to rebuild a statement from its reduced
description, and to show that every kind is inhabited). -/
def Statement.skeleton (k : StmtKind) (db : Str) (exact : Bool) (srcs : List Source) (sel : SelectStmt) : Statement :=
  match k with
  | .AlterRetentionPolicyStatement => .alterRetentionPolicy [] db none none false none none none
  | .CreateContinuousQueryStatement => .createContinuousQuery [] db sel 0 0
  | .CreateDatabaseStatement => .createDatabase [] false none none [] 0 none none
  | .CreateRetentionPolicyStatement => .createRetentionPolicy [] db 0 0 false 0 0 0
  | .CreateSubscriptionStatement => .createSubscription [] db [] [] []
  | .CreateUserStatement => .createUser [] [] false
  | .DeleteSeriesStatement => .deleteSeries srcs none
  | .DeleteStatement => .delete none none
  | .DropContinuousQueryStatement => .dropContinuousQuery [] db
  | .DropDatabaseStatement => .dropDatabase []
  | .DropMeasurementStatement => .dropMeasurement []
  | .DropRetentionPolicyStatement => .dropRetentionPolicy [] db
  | .DropSeriesStatement => .dropSeries srcs none
  | .DropShardStatement => .dropShard 0
  | .DropSubscriptionStatement => .dropSubscription [] db []
  | .DropUserStatement => .dropUser []
  | .ExplainStatement => .explain sel false false
  | .GrantAdminStatement => .grantAdmin []
  | .GrantStatement => .grant .none [] []
  | .KillQueryStatement => .killQuery 0 []
  | .RevokeAdminStatement => .revokeAdmin []
  | .RevokeStatement => .revoke .none [] []
  | .SelectStatement => .select sel
  | .SetPasswordUserStatement => .setPasswordUser [] []
  | .ShowContinuousQueriesStatement => .showContinuousQueries
  | .ShowDatabasesStatement => .showDatabases
  | .ShowDiagnosticsStatement => .showDiagnostics []
  | .ShowFieldKeyCardinalityStatement => .showFieldKeyCardinality db exact srcs none [] 0 0
  | .ShowFieldKeysStatement => .showFieldKeys db srcs [] 0 0
  | .ShowGrantsForUserStatement => .showGrantsForUser []
  | .ShowMeasurementCardinalityStatement => .showMeasurementCardinality exact db srcs none [] 0 0
  | .ShowMeasurementsStatement => .showMeasurements db [] false false none none [] 0 0
  | .ShowQueriesStatement => .showQueries
  | .ShowRetentionPoliciesStatement => .showRetentionPolicies db
  | .ShowSeriesCardinalityStatement => .showSeriesCardinality db exact srcs none [] 0 0
  | .ShowSeriesStatement => .showSeries db srcs none [] 0 0
  | .ShowShardGroupsStatement => .showShardGroups
  | .ShowShardsStatement => .showShards
  | .ShowStatsStatement => .showStats []
  | .ShowSubscriptionsStatement => .showSubscriptions
  | .ShowTagKeyCardinalityStatement => .showTagKeyCardinality db exact srcs none [] 0 0
  | .ShowTagKeysStatement => .showTagKeys db srcs .ILLEGAL none none [] 0 0 0 0
  | .ShowTagValuesCardinalityStatement => .showTagValuesCardinality db exact srcs .ILLEGAL none none [] 0 0
  | .ShowTagValuesStatement => .showTagValues db srcs .ILLEGAL none none [] 0 0
  | .ShowUsersStatement => .showUsers

end InfluxQL

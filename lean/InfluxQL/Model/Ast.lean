import InfluxQL.Gen.Token
import InfluxQL.Model.Basic
/-
The AST of ast.go as plain inductive types.

Conventions
* strings are `List Char` (`Str`);
* `int` / `int64` / `time.Duration` fields are `Int`, `uint64` is `Nat`;
* `float64` literals are exact decimals `Dec` (what was written); see DESIGN §3 for
  why this is faithful for literals of at most 15 significant digits;
* `*regexp.Regexp` is the regex source text, `*time.Location` the zone name;
* pointers that may be nil are `Option`.
-/
namespace InfluxQL
open Gen

abbrev Str := List Char

/-- `DataType` (ast.go), in declaration order; `toNat` gives the Go constant. -/
inductive DataType where
  | Unknown | Float | Integer | String | Boolean | Time | Duration | Tag | AnyField | Unsigned
  deriving DecidableEq, Repr, Inhabited

def DataType.toNat : DataType → Nat
  | .Unknown => 0 | .Float => 1 | .Integer => 2 | .String => 3 | .Boolean => 4
  | .Time => 5 | .Duration => 6 | .Tag => 7 | .AnyField => 8 | .Unsigned => 9

/-- `DataType.String()`. -/
def DataType.str : DataType → Str
  | .Float => "float".toList | .Integer => "integer".toList | .Unsigned => "unsigned".toList
  | .String => "string".toList | .Boolean => "boolean".toList | .Time => "time".toList
  | .Duration => "duration".toList | .Tag => "tag".toList | .AnyField => "field".toList
  | .Unknown => "unknown".toList

/-- An exact signed decimal `± mant / 10^scale` (a number literal as written; the sign is kept
apart so that `-0.0` stays distinct from `0.0`, as in IEEE). -/
structure Dec where
  neg : Bool
  mant : Nat
  scale : Nat
  deriving DecidableEq, Repr, Inhabited

/-- Privileges (`Privilege` in ast.go): NoPrivileges=0, Read=1, Write=2, All=3. -/
inductive Privilege where
  | none | read | write | all
  deriving DecidableEq, Repr, Inhabited

inductive FillOption where
  | null | none | number | previous | linear     -- NullFill=0, NoFill, NumberFill, PreviousFill, LinearFill
  deriving DecidableEq, Repr, Inhabited

inductive FillValue where
  | none
  | int (v : Int)
  | num (v : Dec)
  deriving DecidableEq, Repr, Inhabited

/-- Expressions. `wildcard` carries the token `ILLEGAL` (0, plain `*`), `FIELD` or `TAG`. -/
inductive Expr where
  | binary (op : Token) (lhs rhs : Expr)
  | paren (e : Expr)
  | call (name : Str) (args : List Expr)
  | varRef (val : Str) (type : DataType)
  | distinct (val : Str)
  | wildcard (type : Token)
  | regex (src : Str)
  | string (val : Str)
  | number (val : Dec)
  | integer (val : Int)
  | unsigned (val : Nat)
  | boolean (val : Bool)
  | duration (ns : Int)
  | time (ns : Int)
  | nil
  | list (vals : List Str)
  | boundParam (name : Str)
  deriving Repr, Inhabited

structure Measurement where
  database : Str := []
  retentionPolicy : Str := []
  name : Str := []
  regex : Option Str := none
  isTarget : Bool := false
  systemIterator : Str := []
  deriving Repr, Inhabited, DecidableEq

structure SortField where
  name : Str
  ascending : Bool
  deriving Repr, Inhabited, DecidableEq

structure Field where
  expr : Expr
  alias : Str := []
  deriving Repr, Inhabited

mutual
  inductive Source where
    | measurement (m : Measurement)
    | subquery (s : SelectStmt)
    deriving Repr

  /-- `SelectStatement`; the unexported cache field `groupByInterval` is not part of the value. -/
  inductive SelectStmt where
    | mk (fields : List Field) (target : Option Measurement) (dimensions : List Expr)
        (sources : List Source) (condition : Option Expr) (sortFields : List SortField)
        (limit offset slimit soffset : Int) (isRawQuery : Bool) (fill : FillOption)
        (fillValue : FillValue) (location : Option Str)
        (timeAlias : Str) (omitTime stripName : Bool) (emitName : Str) (dedupe : Bool)
    deriving Repr
end

instance : Inhabited SelectStmt :=
  ⟨.mk [] none [] [] none [] 0 0 0 0 false .null .none none [] false false [] false⟩
instance : Inhabited Source := ⟨.measurement {}⟩

namespace SelectStmt
def fields : SelectStmt → List Field | .mk f _ _ _ _ _ _ _ _ _ _ _ _ _ _ _ _ _ _ => f
def target : SelectStmt → Option Measurement | .mk _ t _ _ _ _ _ _ _ _ _ _ _ _ _ _ _ _ _ => t
def dimensions : SelectStmt → List Expr | .mk _ _ d _ _ _ _ _ _ _ _ _ _ _ _ _ _ _ _ => d
def sources : SelectStmt → List Source | .mk _ _ _ s _ _ _ _ _ _ _ _ _ _ _ _ _ _ _ => s
def condition : SelectStmt → Option Expr | .mk _ _ _ _ c _ _ _ _ _ _ _ _ _ _ _ _ _ _ => c
def sortFields : SelectStmt → List SortField | .mk _ _ _ _ _ s _ _ _ _ _ _ _ _ _ _ _ _ _ => s
def limit : SelectStmt → Int | .mk _ _ _ _ _ _ l _ _ _ _ _ _ _ _ _ _ _ _ => l
def offset : SelectStmt → Int | .mk _ _ _ _ _ _ _ o _ _ _ _ _ _ _ _ _ _ _ => o
def slimit : SelectStmt → Int | .mk _ _ _ _ _ _ _ _ l _ _ _ _ _ _ _ _ _ _ => l
def soffset : SelectStmt → Int | .mk _ _ _ _ _ _ _ _ _ o _ _ _ _ _ _ _ _ _ => o
def isRawQuery : SelectStmt → Bool | .mk _ _ _ _ _ _ _ _ _ _ r _ _ _ _ _ _ _ _ => r
def fill : SelectStmt → FillOption | .mk _ _ _ _ _ _ _ _ _ _ _ f _ _ _ _ _ _ _ => f
def fillValue : SelectStmt → FillValue | .mk _ _ _ _ _ _ _ _ _ _ _ _ v _ _ _ _ _ _ => v
def location : SelectStmt → Option Str | .mk _ _ _ _ _ _ _ _ _ _ _ _ _ l _ _ _ _ _ => l
def timeAlias : SelectStmt → Str | .mk _ _ _ _ _ _ _ _ _ _ _ _ _ _ a _ _ _ _ => a
def omitTime : SelectStmt → Bool | .mk _ _ _ _ _ _ _ _ _ _ _ _ _ _ _ o _ _ _ => o
def stripName : SelectStmt → Bool | .mk _ _ _ _ _ _ _ _ _ _ _ _ _ _ _ _ s _ _ => s
def emitName : SelectStmt → Str | .mk _ _ _ _ _ _ _ _ _ _ _ _ _ _ _ _ _ e _ => e
def dedupe : SelectStmt → Bool | .mk _ _ _ _ _ _ _ _ _ _ _ _ _ _ _ _ _ _ d => d
end SelectStmt

/-- Every statement type of ast.go. Field order follows the Go structs. -/
inductive Statement where
  | alterRetentionPolicy (name database : Str) (duration : Option Int) (replication : Option Int)
      (default : Bool) (shardGroupDuration futureWriteLimit pastWriteLimit : Option Int)
  | createContinuousQuery (name database : Str) (source : SelectStmt) (resampleEvery resampleFor : Int)
  | createDatabase (name : Str) (retentionPolicyCreate : Bool) (rpDuration : Option Int)
      (rpReplication : Option Int) (rpName : Str) (rpShardGroupDuration : Int)
      (futureWriteLimit pastWriteLimit : Option Int)
  | createRetentionPolicy (name database : Str) (duration : Int) (replication : Int) (default : Bool)
      (shardGroupDuration futureWriteLimit pastWriteLimit : Int)
  | createSubscription (name database retentionPolicy : Str) (destinations : List Str) (mode : Str)
  | createUser (name password : Str) (admin : Bool)
  | deleteSeries (sources : List Source) (condition : Option Expr)
  | delete (source : Option Source) (condition : Option Expr)
  | dropContinuousQuery (name database : Str)
  | dropDatabase (name : Str)
  | dropMeasurement (name : Str)
  | dropRetentionPolicy (name database : Str)
  | dropSeries (sources : List Source) (condition : Option Expr)
  | dropShard (id : Nat)
  | dropSubscription (name database retentionPolicy : Str)
  | dropUser (name : Str)
  | explain (stmt : SelectStmt) (analyze verbose : Bool)
  | grant (privilege : Privilege) (on user : Str)
  | grantAdmin (user : Str)
  | killQuery (queryID : Nat) (host : Str)
  | revoke (privilege : Privilege) (on user : Str)
  | revokeAdmin (user : Str)
  | select (s : SelectStmt)
  | setPasswordUser (password name : Str)
  | showContinuousQueries
  | showDatabases
  | showDiagnostics (module : Str)
  | showFieldKeyCardinality (database : Str) (exact : Bool) (sources : List Source) (condition : Option Expr)
      (dimensions : List Expr) (limit offset : Int)
  | showFieldKeys (database : Str) (sources : List Source) (sortFields : List SortField) (limit offset : Int)
  | showGrantsForUser (name : Str)
  | showMeasurementCardinality (exact : Bool) (database : Str) (sources : List Source) (condition : Option Expr)
      (dimensions : List Expr) (limit offset : Int)
  | showMeasurements (database retentionPolicy : Str) (wildcardDatabase wildcardRetentionPolicy : Bool)
      (source : Option Source) (condition : Option Expr) (sortFields : List SortField) (limit offset : Int)
  | showQueries
  | showRetentionPolicies (database : Str)
  | showSeries (database : Str) (sources : List Source) (condition : Option Expr) (sortFields : List SortField)
      (limit offset : Int)
  | showSeriesCardinality (database : Str) (exact : Bool) (sources : List Source) (condition : Option Expr)
      (dimensions : List Expr) (limit offset : Int)
  | showShardGroups
  | showShards
  | showStats (module : Str)
  | showSubscriptions
  | showTagKeyCardinality (database : Str) (exact : Bool) (sources : List Source) (condition : Option Expr)
      (dimensions : List Expr) (limit offset : Int)
  | showTagKeys (database : Str) (sources : List Source) (tagKeyOp : Token) (tagKeyExpr : Option Expr)
      (condition : Option Expr) (sortFields : List SortField) (limit offset slimit soffset : Int)
  | showTagValues (database : Str) (sources : List Source) (op : Token) (tagKeyExpr : Option Expr)
      (condition : Option Expr) (sortFields : List SortField) (limit offset : Int)
  | showTagValuesCardinality (database : Str) (exact : Bool) (sources : List Source) (op : Token)
      (tagKeyExpr : Option Expr) (condition : Option Expr) (dimensions : List Expr) (limit offset : Int)
  | showUsers
  deriving Repr, Inhabited

/-- A bound parameter value after `BindValue` (params.go): its token type and `Value()` text. -/
structure BoundValue where
  tok : Token
  text : Str
  deriving Repr, Inhabited

end InfluxQL

import InfluxQL.Gen.Chars
import InfluxQL.Model.Basic
import InfluxQL.Model.Time
/-
Time literals written as strings (ast.go `StringLiteral.IsTimeLiteral`, `ToTimeLiteral`,
parser.go `isDateString`, `isDateTimeString`) and the part of Go's `time.ParseInLocation`
they reach: the three layouts

  DateTimeFormat = "2006-01-02 15:04:05.999999"
  time.RFC3339Nano = "2006-01-02T15:04:05.999999999Z07:00"
  DateFormat     = "2006-01-02"

Instants are exact `Int` nanoseconds since the Unix epoch. A location is a fixed offset in
seconds east of UTC (`time.UTC` = 0, `time.FixedZone`); zones with rules are outside the model.

The layouts are followed chunk by chunk as `time.parse` does (format.go): a space in the layout
matches any run of spaces, the hour may have one digit, a fraction may use `,` and may have any
number of digits (digits beyond nine are cut), month/hour/minute/second are range-checked on the
spot, the day against the month at the end, a zone is `Z` or `±hh:mm` with `hh ≤ 24`, `mm ≤ 60`.
Every failure of `time.Parse` becomes `ErrInvalidTime`, so only success and the instant matter;
the fast path `parseRFC3339` accepts a subset of what the general path accepts, with the same
result, and is not modelled separately. Go indexes bytes; every accepted byte is ASCII, and a
non-ASCII rune makes both the byte-level and the rune-level parse fail.
-/
namespace InfluxQL.CondTime
open Gen

def isLeapYear (y : Int) : Bool := y % 4 == 0 && (y % 100 != 0 || y % 400 == 0)

/-- `daysIn(Month(m), y)`. -/
def daysInMonth (m : Nat) (y : Int) : Nat :=
  if m = 2 then (if isLeapYear y then 29 else 28)
  else if m = 4 ∨ m = 6 ∨ m = 9 ∨ m = 11 then 30 else 31

/-- `getnum(s, fixed)`: one or two digits (`fixed`: exactly two are required). -/
def getnum (s : List Char) (fixed : Bool) : Option (Nat × List Char) :=
  match s with
  | a :: b :: rest =>
    if !isDigit a then none
    else if !isDigit b then (if fixed then none else some (digitVal a, b :: rest))
    else some (digitVal a * 10 + digitVal b, rest)
  | [a] => if !isDigit a then none else if fixed then none else some (digitVal a, [])
  | [] => none

/-- A literal (non-space) layout character. -/
def skipChar (c : Char) : List Char → Option (List Char)
  | d :: rest => if d = c then some rest else none
  | [] => none

def cutspace : List Char → List Char
  | ' ' :: rest => cutspace rest
  | s => s

/-- A space in the layout: `skip(value, " ")`. -/
def skipSpace : List Char → Option (List Char)
  | [] => some []
  | c :: rest => if c ≠ ' ' then none else some (cutspace rest)

/-- `stdLongYear`: four digits. -/
def longYear : List Char → Option (Nat × List Char)
  | a :: b :: c :: d :: rest =>
    if isDigit a && isDigit b && isDigit c && isDigit d then
      some (digitVal a * 1000 + digitVal b * 100 + digitVal c * 10 + digitVal d, rest)
    else none
  | _ => none

/-- `parseNanoseconds` applied to the digits after the separator: at most nine are used. -/
def fracNanos (digits : List Char) : Nat :=
  let ds := digits.take 9
  digitsVal ds * 10 ^ (9 - ds.length)

/-- `stdFracSecond9` (also what `parseRFC3339` does): an optional fraction `[.,]d+`. -/
def fracSecond9 : List Char → Nat × List Char
  | sep :: d :: rest =>
    if (sep = '.' ∨ sep = ',') ∧ isDigit d then
      let ds := (d :: rest).takeWhile isDigit
      (fracNanos ds, (d :: rest).dropWhile isDigit)
    else (0, sep :: d :: rest)
  | s => (0, s)

/-- Civil date and time in UTC → nanoseconds since the epoch (`time.Date(..., UTC)`). -/
def civilToNanos (y : Int) (mo d h mi s ns : Nat) : Int :=
  ((daysFromCivil y mo d * 86400 + (h * 3600 + mi * 60 + s : Nat)) * 1000000000) + ns

/-- `2006-01-02` prefix shared by the three layouts: year, month (range-checked), day. -/
def parseYMD (v : List Char) : Option (Nat × Nat × Nat × List Char) := do
  let (y, v) ← longYear v
  let v ← skipChar '-' v
  let (mo, v) ← getnum v true
  if mo = 0 ∨ 12 < mo then none
  let v ← skipChar '-' v
  let (d, v) ← getnum v true
  pure (y, mo, d, v)

/-- `15:04:05` followed by the optional fraction. -/
def parseHMSF (v : List Char) : Option (Nat × Nat × Nat × Nat × List Char) := do
  let (h, v) ← getnum v false
  if 24 ≤ h then none
  let v ← skipChar ':' v
  let (mi, v) ← getnum v true
  if 60 ≤ mi then none
  let v ← skipChar ':' v
  let (s, v) ← getnum v true
  if 60 ≤ s then none
  let (ns, v) := fracSecond9 v
  pure (h, mi, s, ns, v)

def dayOK (y mo d : Nat) : Bool := 1 ≤ d && d ≤ daysInMonth mo y

/-- `time.ParseInLocation(DateFormat, s, loc)`; `off` = offset of `loc` in seconds. -/
def parseDateLayout (s : List Char) (off : Int) : Option Int := do
  let (y, mo, d, v) ← parseYMD s
  if v ≠ [] then none
  if !dayOK y mo d then none
  pure (civilToNanos y mo d 0 0 0 0 - off * 1000000000)

/-- `time.ParseInLocation(DateTimeFormat, s, loc)`. -/
def parseDateTimeLayout (s : List Char) (off : Int) : Option Int := do
  let (y, mo, d, v) ← parseYMD s
  let v ← skipSpace v
  let (h, mi, sec, ns, v) ← parseHMSF v
  if v ≠ [] then none
  if !dayOK y mo d then none
  pure (civilToNanos y mo d h mi sec ns - off * 1000000000)

/-- The `Z07:00` chunk: `Z`, or sign, two digits, colon, two digits; the offset in seconds and
the rest. `none` = parse error. -/
def parseZone : List Char → Option (Int × List Char)
  | 'Z' :: rest => some (0, rest)
  | sg :: h1 :: h2 :: c :: m1 :: m2 :: rest =>
    if c ≠ ':' then none
    else match getnum [h1, h2] true, getnum [m1, m2] true with
      | some (hr, _), some (mm, _) =>
        if hr > 24 ∨ mm > 60 then none
        else if sg = '+' then some ((((hr * 60 + mm) * 60 : Nat) : Int), rest)
        else if sg = '-' then some (-(((hr * 60 + mm) * 60 : Nat) : Int), rest)
        else none
      | _, _ => none
  | _ => none

/-- `time.ParseInLocation(time.RFC3339Nano, s, loc)`: the zone is always written, so `loc`
does not influence the instant. -/
def parseRFC3339NanoLayout (s : List Char) : Option Int := do
  let (y, mo, d, v) ← parseYMD s
  let v ← skipChar 'T' v
  let (h, mi, sec, ns, v) ← parseHMSF v
  let (zoff, v) ← parseZone v
  if v ≠ [] then none
  if !dayOK y mo d then none
  pure (civilToNanos y mo d h mi sec ns - zoff * 1000000000)

/-- `^\d{4}-\d{2}-\d{2}` at the start of `s`; returns the rest. -/
def datePrefix : List Char → Option (List Char)
  | a :: b :: c :: d :: m1 :: e :: f :: m2 :: g :: h :: rest =>
    if isDigit a && isDigit b && isDigit c && isDigit d && m1 == '-' && isDigit e && isDigit f
        && m2 == '-' && isDigit g && isDigit h then some rest else none
  | _ => none

/-- `isDateString`: `^\d{4}-\d{2}-\d{2}$`. -/
def isDateString (s : List Char) : Bool := datePrefix s == some []

/-- `isDateTimeString`: `^\d{4}-\d{2}-\d{2}.+` — at least one more character, and `.` does not
match a newline. -/
def isDateTimeString (s : List Char) : Bool :=
  match datePrefix s with
  | some (c :: _) => c != '\n'
  | _ => false

/-- `StringLiteral.IsTimeLiteral`. -/
def isTimeLiteral (s : List Char) : Bool := isDateTimeString s || isDateString s

/-- `StringLiteral.ToTimeLiteral(loc)`: `loc = none` is the nil location (UTC); `none` result is
`ErrInvalidTime`. -/
def toTimeLiteral (s : List Char) (loc : Option Int) : Option Int :=
  let off := loc.getD 0
  if isDateTimeString s then
    match parseDateTimeLayout s off with
    | some t => some t
    | none => parseRFC3339NanoLayout s
  else if isDateString s then parseDateLayout s off
  else none

end InfluxQL.CondTime

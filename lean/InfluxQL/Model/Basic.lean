/-
Shared small definitions of the executable model. Core Lean only.

Go `int64` values are modelled as `Int` with an explicit two's-complement
wrap (`wrap64`) applied wherever the Go code performs `+ - *` on `int64` /
`time.Duration`; `uint64` likewise with `wrapU64`.
-/
namespace InfluxQL

def maxInt64 : Int := 9223372036854775807
def minInt64 : Int := -9223372036854775808
def maxUInt64 : Int := 18446744073709551615

/-- Two's-complement wrap of an exact integer into the `int64` range. -/
def wrap64 (x : Int) : Int := (x + 9223372036854775808) % 18446744073709551616 - 9223372036854775808

/-- Wrap of an exact integer into the `uint64` range. -/
def wrapU64 (x : Int) : Int := x % 18446744073709551616

theorem wrap64_id {x : Int} (h1 : minInt64 ≤ x) (h2 : x ≤ maxInt64) : wrap64 x = x := by
  unfold wrap64; unfold minInt64 at h1; unfold maxInt64 at h2; omega

theorem wrap64_range (x : Int) : minInt64 ≤ wrap64 x ∧ wrap64 x ≤ maxInt64 := by
  unfold wrap64 minInt64 maxInt64; omega

/-- Decimal value of a digit rune (`'0'..'9'`). -/
def digitVal (c : Char) : Nat := c.toNat - 48

/-- Decimal digit rune of `d < 10`. -/
def digitChar (d : Nat) : Char := Char.ofNat (48 + d)

/-- Decimal digits of a natural number, most significant first (`strconv`, `%d`):
the defining recursion. -/
def natDigitsSpec (n : Nat) : List Char :=
  if n < 10 then [digitChar n] else natDigitsSpec (n / 10) ++ [digitChar (n % 10)]
decreasing_by omega

/-- The same by structural recursion on a fuel argument (so that the kernel can evaluate it). -/
def natDigitsFuel : Nat → Nat → List Char
  | 0, n => [digitChar (n % 10)]
  | fuel + 1, n => if n < 10 then [digitChar n] else natDigitsFuel fuel (n / 10) ++ [digitChar (n % 10)]

/-- Decimal digits of a natural number (`natDigitsSpec`, see `natDigits_eq_spec`). -/
def natDigits (n : Nat) : List Char := natDigitsFuel n n

/-- `fmt.Sprintf("%d", i)` / `strconv.FormatInt(i, 10)`. -/
def intDigits (i : Int) : List Char :=
  if i < 0 then '-' :: natDigits i.natAbs else natDigits i.natAbs

/-- Value of a digit string (no validation), most significant first. -/
def digitsVal (ds : List Char) : Nat := ds.foldl (fun acc c => acc * 10 + digitVal c) 0

end InfluxQL

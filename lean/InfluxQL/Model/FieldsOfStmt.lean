import InfluxQL.Model.ParserStmt
import InfluxQL.Model.Fields
/-
C12 end to end from the statement text: `ParseStatement(text)` (statement parser model), then
`SelectStatement.RewriteFields(m)` (Model/Fields.lean) on the SELECT the parser built — fields with
their aliases, GROUP BY dimensions, sources with subqueries, condition: none of them is parsed
piece by piece with the expression parser any more.
-/
namespace InfluxQL

inductive FieldsTextResult where
  | parseFail (f : Fail)                      -- the parser rejects the text
  | notSelect                                 -- a statement of another type
  | rewritten (r : Except Str SelectStmt)     -- the result (or error) of `RewriteFields`

/-- `ParseStatement(text).(*SelectStatement).RewriteFields(m)`. -/
def rewriteFieldsOfText (m : FieldMapper) (re : Str → Str → Bool)
    (text : Str) (params : List (Str × BoundValue)) (lowerTbl : List (Char × Char)) : FieldsTextResult :=
  match parseStatementText text params lowerTbl with
  | .error f => .parseFail f
  | .ok (.select s) => .rewritten (rewriteFields m re s)
  | .ok _ => .notSelect

end InfluxQL

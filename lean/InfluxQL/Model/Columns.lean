import InfluxQL.Model.Ast
/-
Model of `SelectStatement.ColumnNames`, `SelectStatement.TimeFieldName`, `Field.Name`,
`BinaryExprName` + `binaryExprNameVisitor` (ast.go).

* The Go map `names map[string]int` is an association list `NameMap` (keys unique by
  construction: `set` replaces an existing entry). Values are `Nat`: they start at 1 and only
  grow by `++` / `count + 1` (far below 2^63 for any field list that fits in memory).
* The suffix loop `for { resolvedName := name_count; … count++ }` has no bound in the code. The
  model runs it with fuel `len(names) + 1` and returns `none` if the fuel runs out;
  `C20.suffix_loop_terminates` shows that this never happens.
* `fmt.Sprintf("%s_%d", name, count)` is `name ++ '_' :: natDigits count`.
-/
namespace InfluxQL

/-! ## The `names` map -/

abbrev NameMap := List (Str × Nat)

namespace NameMap

/-- `v, ok := names[k]`. -/
def get? : NameMap → Str → Option Nat
  | [], _ => none
  | (k', v) :: rest, k => if k' = k then some v else get? rest k

/-- `names[k] = v`. -/
def set : NameMap → Str → Nat → NameMap
  | [], k, v => [(k, v)]
  | (k', v') :: rest, k, v => if k' = k then (k, v) :: rest else (k', v') :: set rest k v

/-- `_, ok := names[k]`. -/
def has (m : NameMap) (k : Str) : Bool := (m.get? k).isSome

def keys (m : NameMap) : List Str := m.map Prod.fst

/-- `names[k]++` (a missing key reads as 0). -/
def incr (m : NameMap) (k : Str) : NameMap := m.set k ((m.get? k).getD 0 + 1)

end NameMap

/-! ## `BinaryExprName`, `Field.Name`, `TimeFieldName` -/

/-- `strings.Join(names, "_")`. -/
def joinUnderscore : List Str → Str
  | [] => []
  | [x] => x
  | x :: y :: rest => x ++ '_' :: joinUnderscore (y :: rest)

/-- What `binaryExprNameVisitor` collects when `Walk`ed over an expression: the names of variable
references and calls in left-to-right order; `Walk` descends into binary and parenthesised
expressions, the visitor returns `nil` for a call (its arguments are not visited), every other
node has no children in `Walk`. -/
def Expr.binaryNameParts : Expr → List Str
  | .binary _ l r => l.binaryNameParts ++ r.binaryNameParts
  | .paren e => e.binaryNameParts
  | .call name _ => [name]
  | .varRef v _ => [v]
  | _ => []

/-- `BinaryExprName(expr)`. -/
def binaryExprName (e : Expr) : Str := joinUnderscore e.binaryNameParts

/-- The type switch of `Field.Name()` for a field without alias. -/
def Expr.fieldName : Expr → Str
  | .call name _ => name
  | .binary op l r => binaryExprName (.binary op l r)
  | .paren e => e.fieldName
  | .varRef v _ => v
  | _ => []

/-- `Field.Name()`. -/
def Field.name (f : Field) : Str := if f.alias ≠ [] then f.alias else f.expr.fieldName

def timeLit : Str := ['t', 'i', 'm', 'e']
def topLit : Str := ['t', 'o', 'p']
def bottomLit : Str := ['b', 'o', 't', 't', 'o', 'm']

/-- `SelectStatement.TimeFieldName()`. -/
def timeFieldName (timeAlias : Str) : Str := if timeAlias ≠ [] then timeAlias else timeLit

/-! ## `ColumnNames`: the column list -/

/-- `for _, arg := range f.Args[1:] { if ref, ok := arg.(*VarRef); ok { … &Field{Expr: ref} } }`. -/
def refColumn : Expr → Option Field
  | .varRef v t => some { expr := .varRef v t }
  | _ => none

def tagColumns (args : List Expr) : List Field := (args.drop 1).filterMap refColumn

/-- The columns a field adds after itself: the tag arguments of `top` / `bottom` when the statement
has no INTO target (and the call has more than one argument – the guard added by the fix). -/
def extraColumns (hasTarget : Bool) (f : Field) : List Field :=
  match f.expr with
  | .call name args =>
    if !hasTarget && (name = topLit || name = bottomLit) && decide (args.length > 1) then tagColumns args else []
  | _ => []

/-- First loop of `ColumnNames`: `columnFields`. -/
def columnFields (hasTarget : Bool) : List Field → List Field
  | [] => []
  | f :: fs => f :: (extraColumns hasTarget f ++ columnFields hasTarget fs)

/-! ## `ColumnNames`: naming -/

/-- "Resolve aliases first": the map after the alias loop. -/
def aliasPass : NameMap → List Field → NameMap
  | m, [] => m
  | m, c :: cs => aliasPass (if c.alias ≠ [] then m.set c.alias 1 else m) cs

/-- `fmt.Sprintf("%s_%d", name, count)`. -/
def suffixed (name : Str) (count : Nat) : Str := name ++ '_' :: natDigits count

/-- The inner `for { … }`: first `count' ≥ count` whose `name_count'` is not a key, with that name.
`none`: fuel exhausted. -/
def suffixLoop (names : NameMap) (name : Str) : Nat → Nat → Option (Nat × Str)
  | 0, _ => none
  | fuel + 1, count =>
    if names.has (suffixed name count) then suffixLoop names name fuel (count + 1)
    else some (count, suffixed name count)

/-- The fuel the model gives the suffix loop. -/
def suffixFuel (names : NameMap) : Nat := names.length + 1

/-- Body of the second loop for a column without alias whose `Name()` is `name`: the new map and
the column name. -/
def resolveName (names : NameMap) (name : Str) : Option (NameMap × Str) :=
  match names.get? name with
  | none => some (names.incr name, name)
  | some count =>
    match suffixLoop names name (suffixFuel names) count with
    | none => none
    | some (count', resolved) => some (((names.set name (count' + 1)).incr resolved), resolved)

/-- Second loop: "Resolve any generated names and resolve conflicts". A column whose slot was filled
by the alias loop (`columnNames[i+offset] != ""`, i.e. its alias is not empty) keeps it. -/
def nameLoop : NameMap → List Field → Option (List Str)
  | _, [] => some []
  | names, c :: cs =>
    if c.alias ≠ [] then (nameLoop names cs).map (c.alias :: ·)
    else
      match resolveName names c.name with
      | none => none
      | some (names', n) => (nameLoop names' cs).map (n :: ·)

/-- Names of the field columns (everything but the time column). -/
def fieldColumnNames (cols : List Field) : Option (List Str) := nameLoop (aliasPass [] cols) cols

/-- `ColumnNames` on the parts of the statement it reads. -/
def columnNamesOf (fields : List Field) (hasTarget omitTime : Bool) (timeAlias : Str) : Option (List Str) :=
  (fieldColumnNames (columnFields hasTarget fields)).map fun ns =>
    if omitTime then ns else timeFieldName timeAlias :: ns

/-- `SelectStatement.ColumnNames()`; `none` only if the suffix loop ran out of fuel (never). -/
def SelectStmt.columnNames (s : SelectStmt) : Option (List Str) :=
  columnNamesOf s.fields s.target.isSome s.omitTime s.timeAlias

end InfluxQL

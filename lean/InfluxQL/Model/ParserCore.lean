import InfluxQL.Model.Ast
import InfluxQL.Model.Print
import InfluxQL.Model.Scanner
/-
Parser plumbing and the expression parser (parser.go): `bufScanner`, `Parser.scan`
with bound-parameter substitution, `ScanIgnoreWhitespace`, `peekRune`, `peekComment`,
`parseSegmentedIdents`, `ParseVarRef`, `ParseExpr`, `parseUnaryExpr`,
`parseRegex`, `parseCall`.

State = rune cursor + the token ring seen as "the last tokens, most recent
first" with the push-back count `n` (`curr()` is entry `n`). Mutually recursive
functions take a fuel argument; `Fail.fuel` is never produced for
`fuel ≥ 4 * |input| + 100` (checked by correspondence, proved for expressions).
-/
namespace InfluxQL
open Gen

inductive PErr where
  | found (found : Str) (expected : List Str) (pos : Pos)   -- newParseError
  | at (msg : Str) (pos : Pos)                               -- &ParseError{Message: msg, Pos: pos}
  | plain (msg : Str)                                         -- errors.New / fmt.Errorf
  deriving Repr, DecidableEq

def Pos.suffix (p : Pos) : Str :=
  " at line ".toList ++ natDigits (p.line + 1) ++ ", char ".toList ++ natDigits (p.char + 1)

/-- `err.Error()`. -/
def PErr.render : PErr → Str
  | .found f exp pos => "found ".toList ++ f ++ ", expected ".toList ++ joinWith [',', ' '] exp ++ pos.suffix
  | .at msg pos => if msg = [] then "found , expected ".toList ++ pos.suffix else msg ++ pos.suffix
  | .plain msg => msg

inductive Fail where
  | err (e : PErr)
  | panic (site : Str)
  | fuel
  deriving Repr, DecidableEq

structure PState where
  r : Cursor
  buf : List Lexeme := []          -- most recent first; the ring holds 3
  n : Nat := 0                     -- tokens pushed back
  params : List (Str × BoundValue) := []
  lowerTbl : List (Char × Char) := []   -- `unicode.ToLower` on the non-ASCII runes of this input (from Go)
  deriving Repr

abbrev P := StateT PState (Except Fail)

def zeroLexeme : Lexeme := ⟨.ILLEGAL, ⟨0, 0⟩, []⟩

def failFound {α} (lx : Lexeme) (expected : List String) : P α :=
  throw (.err (.found (tokstr lx.tok lx.lit) (expected.map String.toList) lx.pos))

def failAt {α} (msg : Str) (pos : Pos) : P α := throw (.err (.at msg pos))
def failPlain {α} (msg : Str) : P α := throw (.err (.plain msg))

/-- `strings.ToLower` per rune: ASCII, the two non-ASCII runes that lower to ASCII letters
(U+0130 → `i`, U+212A → `k`), and the table shipped with the input for the rest. -/
def lowerRune (tbl : List (Char × Char)) (c : Char) : Char :=
  if 65 ≤ c.toNat ∧ c.toNat ≤ 90 then Char.ofNat (c.toNat + 32)
  else if c.toNat = 0x130 then 'i'
  else if c.toNat = 0x212a then 'k'
  else match tbl.find? (·.1 = c) with
    | some (_, l) => l
    | none => c

def lowerStr (tbl : List (Char × Char)) (s : Str) : Str := s.map (lowerRune tbl)

/-- `strings.TrimPrefix(lit, "$")`. -/
def trimDollar : Str → Str
  | '$' :: rest => rest
  | s => s

def lookupParam (k : Str) : List (Str × BoundValue) → Option BoundValue
  | [] => none
  | (n, v) :: rest => if n = k then some v else lookupParam k rest

/-- `bufScanner.scanFunc` followed by the substitution of `Parser.scan`. -/
def pscanWith (regex : Bool) : P Lexeme := do
  let s ← get
  let lx ←
    if s.n > 0 then do
      set { s with n := s.n - 1 }
      pure (s.buf.getD (s.n - 1) zeroLexeme)
    else do
      let (lx, r') := if regex then scanRegex s.r else scan s.r
      set { s with r := r', buf := (lx :: s.buf).take 3 }
      pure lx
  if lx.tok = .BOUNDPARAM then
    let k := trimDollar lx.lit
    if k ≠ [] then
      match lookupParam k s.params with
      | some v => pure { lx with tok := v.tok, lit := v.text }
      | none => pure lx
    else pure lx
  else pure lx

/-- `Parser.Scan()`. -/
def pscan : P Lexeme := pscanWith false
/-- `Parser.ScanRegex()`. -/
def pscanRegex : P Lexeme := pscanWith true
/-- `Parser.Unscan()`. -/
def unscan : P Unit := modify fun s => { s with n := s.n + 1 }

def scanIWLoop : Nat → P Lexeme
  | 0 => throw .fuel
  | fuel + 1 => do
    let lx ← pscan
    if lx.tok = .WS ∨ lx.tok = .COMMENT then scanIWLoop fuel else pure lx

/-- `Parser.ScanIgnoreWhitespace()`. Every iteration consumes a buffered token or at least one
rune, and EOF is not skipped, so the loop runs at most `n + |rest| + 2` times. -/
def scanIW : P Lexeme := do
  let s ← get
  scanIWLoop (s.n + s.r.rest.length + 2)

/-- `Parser.peekRune()`: looks at the rune reader, ignoring pushed-back tokens; an `eof`
rune is consumed (no `unread`). -/
def peekRune : P Char := do
  let s ← get
  let c := s.r.peek
  if c = eofRune then set { s with r := s.r.read.2 }
  pure c

/-- `Parser.consumeWhitespace()`. -/
def consumeWhitespace : P Unit := do
  let lx ← pscan
  if lx.tok ≠ .WS then unscan

/-- `Parser.ParseIdent()`. -/
def parseIdent : P Str := do
  let lx ← scanIW
  if lx.tok ≠ .IDENT then failFound lx ["identifier"]
  pure lx.lit

/-- `Parser.parseTokens(toks)`. -/
def parseTokens : List Token → P Unit
  | [] => pure ()
  | t :: rest => do
    let lx ← scanIW
    if lx.tok ≠ t then throw (.err (.found (tokstr lx.tok lx.lit) [t.str] lx.pos))
    parseTokens rest

def segLoop : Nat → List Str → P (List Str)
  | 0, _ => throw .fuel
  | fuel + 1, idents => do
    let lx ← pscan
    if lx.tok ≠ .DOT then
      unscan
      pure idents
    else
      let ch ← peekRune
      if ch = '/' then pure idents
      else if ch = ':' then pure idents
      else if ch = '.' then segLoop fuel (idents ++ [[]])
      else
        let ident ← parseIdent
        segLoop fuel (idents ++ [ident])

/-- `Parser.parseSegmentedIdents()`. -/
def parseSegmentedIdents : P (List Str) := do
  let ident ← parseIdent
  let s ← get
  let idents ← segLoop (s.n + s.r.rest.length + 2) [ident]
  if idents.length > 3 then
    failAt ("too many segments in ".toList ++ quoteIdent idents) ⟨0, 0⟩
  pure idents

/-- `Parser.ParseVarRef()`. -/
def parseVarRef : P Expr := do
  let segments ← parseSegmentedIdents
  let lx ← pscan
  let dtype ←
    if lx.tok = .DOUBLECOLON then do
      let t ← pscan
      let s ← get
      match t.tok with
      | .IDENT =>
        let l := lowerStr s.lowerTbl t.lit
        if l = "float".toList then pure DataType.Float
        else if l = "integer".toList then pure DataType.Integer
        else if l = "unsigned".toList then pure DataType.Unsigned
        else if l = "string".toList then pure DataType.String
        else if l = "boolean".toList then pure DataType.Boolean
        else failFound t ["float", "integer", "unsigned", "string", "boolean", "field", "tag"]
      | .FIELD => pure DataType.AnyField
      | .TAG => pure DataType.Tag
      | _ => failFound t ["float", "integer", "string", "boolean", "field", "tag"]
    else do
      unscan
      pure DataType.Unknown
  pure (.varRef (joinWith ['.'] segments) dtype)

/-- The insertion step of `ParseExpr`: descend the right spine of the tree built so far until a
non-binary node or a binary node whose operator has precedence ≥ that of `op`; put the new
node there. -/
def insertOp : Expr → Token → Expr → Expr
  | .binary o l r, op, rhs =>
    if o.precedence ≥ op.precedence then .binary op (.binary o l r) rhs
    else .binary o l (insertOp r op rhs)
  | t, op, rhs => .binary op t rhs

/-- Value of a literal text of the shape `[-+]digits` (`strconv.ParseInt` / `ParseUint` input). -/
def splitSign : Str → Bool × Str
  | '-' :: rest => (true, rest)
  | '+' :: rest => (false, rest)
  | s => (false, s)

def allDigits (s : Str) : Bool := s ≠ [] && s.all isDigit

/-- The `INTEGER` case of `parseUnaryExpr`: `ParseInt`, falling back to `ParseUint`. -/
def parseIntegerLit (lit : Str) (pos : Pos) : P Expr :=
  let (neg, ds) := splitSign lit
  if !allDigits ds then failAt "unable to parse integer".toList pos
  else
    let v : Int := if neg then -(digitsVal ds : Int) else digitsVal ds
    if minInt64 ≤ v ∧ v ≤ maxInt64 then pure (.integer v)
    else if lit.head? ≠ some '-' ∧ lit.head? ≠ some '+' ∧ (digitsVal ds : Int) ≤ maxUInt64 then pure (.unsigned (digitsVal ds))
    else failAt "unable to parse integer".toList pos

/-- `strconv.ParseFloat` on the texts a NUMBER token can carry: `[-+]digits[.digits]`.
A value that rounds to ±Inf is a range error. -/
def parseNumberLit (lit : Str) (pos : Pos) : P Expr :=
  let (neg, body) := splitSign lit
  let ip := body.takeWhile (· != '.')
  let rest := body.dropWhile (· != '.')
  let fp := rest.drop 1
  let ok := (ip ≠ [] ∨ fp ≠ []) ∧ ip.all isDigit ∧ fp.all isDigit ∧ (rest = [] ∨ rest.head? = some '.')
  if !ok then failAt "unable to parse number".toList pos
  else
    let mant := digitsVal (ip ++ fp)
    let scale := fp.length
    -- overflow to Inf: value ≥ 2^1024 − 2^970
    if mant ≥ (2 ^ 1024 - 2 ^ 970) * 10 ^ scale then failAt "unable to parse number".toList pos
    else pure (.number ⟨neg, mant, scale⟩)

def durErrText : DurErr → Str
  | .invalid => "invalid duration".toList
  | .overflow m u => "overflowed duration ".toList ++ intDigits m ++ u ++ ": choose a smaller duration or INF".toList

/-- Do two runes open a comment (`--` or `/*`)? -/
def opensComment (a b : Char) : Bool := (a == '-' && b == '-') || (a == '/' && b == '*')

/-- The next two runes the reader would deliver (`eof` past the end). -/
def Cursor.peek2 (r : Cursor) : Char × Char :=
  match r.rest with
  | x :: y :: _ => (x.1, y.1)
  | [x] => (x.1, eofRune)
  | [] => (eofRune, eofRune)

/-- `Parser.peekComment()`: reads two runes and un-reads both (an `eof` too — unlike `peekRune`
nothing is consumed), ignoring pushed-back tokens. -/
def peekComment : P Bool := do
  let s ← get
  pure (opensComment s.r.peek2.1 s.r.peek2.2)

/-- The loop `for p.peekComment() { … }` of `parseRegex`: skip comments and the whitespace token
after each. `false`: the `/*` was not terminated; its ILLEGAL token is pushed back and `parseRegex`
returns nil. Every iteration that continues has delivered a COMMENT token, so `n + |rest| + 1`
iterations are never exhausted (`skipCommentsLoop_wp`). -/
def skipCommentsLoop : Nat → P Bool
  | 0 => throw .fuel
  | fuel + 1 => do
    if ← peekComment then
      let lx ← pscan
      if lx.tok ≠ .COMMENT then
        unscan
        pure false
      else
        let c ← peekRune
        if isWhitespace c then consumeWhitespace
        skipCommentsLoop fuel
    else pure true

/-- `Parser.parseRegex()`; `none` is the typed nil. -/
def parseRegex : P (Option Expr) := do
  -- `if p.s.n > 0 { return nil, nil }`: no look-ahead in the rune reader while a token is pushed back
  let s ← get
  if s.n > 0 then pure none
  else
    let c0 ← peekRune
    if isWhitespace c0 then consumeWhitespace
    -- a comment is equivalent to whitespace: skip comments and the whitespace after them
    let s1 ← get
    let ok ← skipCommentsLoop (s1.n + s1.r.rest.length + 1)
    if !ok then pure none
    else
      let c ← peekRune
      let go : P (Option Expr) := do
        let lx ← pscanRegex
        if lx.tok = .BADESCAPE then failAt ("bad escape: ".toList ++ lx.lit) lx.pos
        else if lx.tok = .BADREGEX then failAt ("bad regex: ".toList ++ lx.lit) lx.pos
        else if lx.tok ≠ .REGEX then failFound lx ["regex"]
        else pure (some (.regex lx.lit))
      if c = '$' then
        let lx ← pscan
        unscan
        if lx.tok ≠ .REGEX then pure none else go
      else if c ≠ '/' then pure none
      else go

/-
The mutually recursive part. One fuel counter, decreasing by one at every call and every loop
iteration, so that the block is structurally recursive (and reduces in the kernel). Every call
and every iteration consumes a rune or a pushed-back token, hence `fuelFor` is never exhausted
(`C04.parseExpr_fuel_suffices`).
-/
mutual
  /-- `Parser.ParseExpr()`. -/
  def parseExpr : Nat → P Expr
    | 0 => throw .fuel
    | fuel + 1 => do
      let first ← parseUnaryExpr fuel
      exprLoop fuel first

  /-- The `for` loop of `ParseExpr`; `root` is `root.RHS`. -/
  def exprLoop : Nat → Expr → P Expr
    | 0, _ => throw .fuel
    | fuel + 1, root => do
      let op ← scanIW
      if !op.tok.isOperator then
        unscan
        pure root
      else
        let rhs ←
          if op.tok.isRegexOp then do
            match ← parseRegex with
            | some re => pure re
            | none =>
              let lx ← scanIW
              failFound lx ["regex"]
          else parseUnaryExpr fuel
        exprLoop fuel (insertOp root op.tok rhs)

  /-- `Parser.parseUnaryExpr()`. -/
  def parseUnaryExpr : Nat → P Expr
    | 0 => throw .fuel
    | fuel + 1 => do
      let t0 ← scanIW
      if t0.tok = .LPAREN then
        let e ← parseExpr fuel
        let cl ← scanIW
        if cl.tok ≠ .RPAREN then failFound cl [")"]
        pure (.paren e)
      else
        unscan
        let lx ← scanIW
        match lx.tok with
        | .IDENT =>
          let t1 ← pscan
          if t1.tok = .LPAREN then parseCall fuel lx.lit
          else
            unscan
            unscan
            parseVarRef
        | .DISTINCT =>
          let t1 ← pscan
          if t1.tok = .LPAREN then parseCall fuel "distinct".toList
          else if t1.tok = .WS then
            let t2 ← scanIW
            if t2.tok ≠ .IDENT then failFound t2 ["identifier"]
            pure (.distinct t2.lit)
          else failFound t1 ["(", "identifier"]
        | .STRING => pure (.string lx.lit)
        | .NUMBER => parseNumberLit lx.lit lx.pos
        | .INTEGER => parseIntegerLit lx.lit lx.pos
        | .TRUE => pure (.boolean true)
        | .FALSE => pure (.boolean false)
        | .DURATIONVAL =>
          match parseDuration lx.lit with
          | .ok v => pure (.duration v)
          | .error e => failPlain (durErrText e)
        | .MUL =>
          let t1 ← pscan
          if t1.tok = .DOUBLECOLON then
            let t2 ← pscan
            if t2.tok = .FIELD ∨ t2.tok = .TAG then pure (.wildcard t2.tok)
            else failFound t2 ["field", "tag"]
          else
            unscan
            pure (.wildcard .ILLEGAL)
        | .REGEX => pure (.regex lx.lit)      -- regexp.Compile assumed to succeed (see DESIGN §3)
        | .BOUNDPARAM =>
          let k := trimDollar lx.lit
          if k = [] then failPlain "empty bound parameter".toList
          else
            let s ← get
            match lookupParam k s.params with
            | none => failPlain ("missing parameter: ".toList ++ k)
            | some v => failPlain v.text
        | .ADD | .SUB =>
          let isSub := lx.tok = .SUB
          let mul : Int := if isSub then -1 else 1
          let t1 ← scanIW
          if t1.tok = .NUMBER ∨ t1.tok = .INTEGER ∨ t1.tok = .DURATIONVAL ∨ t1.tok = .LPAREN ∨ t1.tok = .IDENT then
            unscan
            let lit ← parseUnaryExpr fuel
            match lit with
            | .number v => pure (.number (if isSub then { v with neg := !v.neg } else v))
            | .integer v => pure (.integer (wrap64 (v * mul)))
            | .unsigned v =>
              if isSub then
                if v = 9223372036854775808 then pure (.integer minInt64)
                else failPlain ("constant -".toList ++ natDigits v ++ " underflows int64".toList)
              else pure (.unsigned v)
            | .duration v => pure (.duration (wrap64 (v * mul)))
            | .varRef .. | .call .. | .paren .. => pure (.binary .MUL (.integer mul) lit)
            | _ => throw (.panic "unexpected literal".toList)
          else failFound t1 ["identifier", "number", "duration", "("]
        | _ => failFound lx ["identifier", "string", "number", "bool"]

  /-- `Parser.parseCall(name)`. -/
  def parseCall : Nat → Str → P Expr
    | 0, _ => throw .fuel
    | fuel + 1, name0 => do
      let s ← get
      let name := lowerStr s.lowerTbl name0
      let first ← parseRegex
      match first with
      | some re => callArgs fuel name [re]
      | none =>
        let t ← pscan
        if t.tok = .RPAREN then pure (.call name [])
        else
          unscan
          let arg ← parseExpr fuel
          callArgs fuel name [arg]

  /-- The argument loop and closing parenthesis of `parseCall`. -/
  def callArgs : Nat → Str → List Expr → P Expr
    | 0, _, _ => throw .fuel
    | fuel + 1, name, args => do
      let t ← scanIW
      if t.tok ≠ .COMMA then
        unscan
        let cl ← pscan
        if cl.tok ≠ .RPAREN then failFound cl [")"]
        pure (.call name args)
      else
        match ← parseRegex with
        | some re => callArgs fuel name (args ++ [re])
        | none =>
          let arg ← parseExpr fuel
          callArgs fuel name (args ++ [arg])
end

/-- Fuel that suffices for any input of this length (each level of recursion and each loop
iteration consumes at least one rune or one buffered token). -/
def fuelFor (text : Str) : Nat := 4 * text.length + 100

def PState.init (text : Str) (params : List (Str × BoundValue)) (lowerTbl : List (Char × Char)) : PState :=
  { r := Cursor.ofRunes text, params := params, lowerTbl := lowerTbl }

/-- `ParseExpr(text)` with parameters. -/
def parseExprText (text : Str) (params : List (Str × BoundValue)) (lowerTbl : List (Char × Char)) :
    Except Fail Expr :=
  (parseExpr (fuelFor text)).run' (PState.init text params lowerTbl)

end InfluxQL

import InfluxQL.Gen.Chars
import InfluxQL.Gen.Duration
import InfluxQL.Model.Basic
/-
Model of `ParseDuration` and `FormatDuration` (parser.go).

`time.Duration` is `int64`; arithmetic goes through `wrap64` exactly where the
Go code adds/multiplies, so the model exhibits an overflow if the guard in the
code is ever removed or weakened.
-/
namespace InfluxQL
open Gen

inductive DurErr where
  | invalid                                   -- ErrInvalidDuration
  | overflow (measure : Int) (unit : List Char) -- "overflowed duration %d%s: choose a smaller duration or INF"
  deriving DecidableEq, Repr

def lookupUnit (c : Char) : List (Char × Option Int × Option Int) → Option (Option Int × Option Int)
  | [] => none
  | (u, two, one) :: rest => if u = c then some (two, one) else lookupUnit c rest

/-- One component's addition: the guard `n > (math.MaxInt64-int64(d))/int64(mult)` and `d += n*mult`. -/
def durAdd (d n mult : Int) (unit : List Char) : Except DurErr Int :=
  if n > Int.tdiv (wrap64 (maxInt64 - d)) mult then .error (.overflow n unit)
  else .ok (wrap64 (d + wrap64 (n * mult)))

/-- The parsing loop of `ParseDuration`, from index `i` on (`rest = a[i:]`).
`num` is the digit run read so far in the current component (`none` = `i == start`). -/
def durLoop : List Char → Int → Option Nat → Except DurErr Int
  | [], d, none => .ok d
  | [], _, some _ => .error .invalid            -- `i >= len(a)` after digits
  | c :: cs, d, num =>
    if isDigit c then durLoop cs d (some (num.getD 0 * 10 + digitVal c))
    else
      match num with
      | none => .error .invalid                  -- `i == start`
      | some n =>
        if (n : Int) > maxInt64 then .error .invalid   -- strconv.ParseInt range error
        else
          match lookupUnit c durationUnits with
          | none => .error .invalid
          | some (two, one) =>
            -- `if i+1 < len(a) && a[i+1] == 's'` inside the `n`/`m` cases
            match (if cs.head? = some 's' then two else none) with
            | some m =>
              match durAdd d n m [c, 's'] with
              | .error e => .error e
              | .ok d' => durLoop cs.tail d' none
            | none =>
              match one with
              | none => .error .invalid
              | some m =>
                match durAdd d n m [c] with
                | .error e => .error e
                | .ok d' => durLoop cs d' none
termination_by l => l.length
decreasing_by
  all_goals simp_wf
  all_goals omega

/-- Number of bytes of the UTF-8 encoding (`len(s)` of a Go string holding these runes). -/
def utf8Len (s : List Char) : Nat := s.foldl (fun n c => n + c.utf8Size) 0

/-- `ParseDuration(s)`, `s` given as its rune sequence. -/
def parseDuration (s : List Char) : Except DurErr Int :=
  if utf8Len s < 2 then .error .invalid
  else
    match s with
    | '-' :: rest =>
      match durLoop rest 0 none with
      | .error e => .error e
      | .ok d => .ok (wrap64 (-d))
    | _ => durLoop s 0 none

/-- The `else if d%X == 0` ladder of `FormatDuration` (Go `%` and `/` truncate toward zero). -/
def formatLadderGo (d : Int) : List (Int × List Char) → List Char
  | [] => intDigits d ++ formatFallbackSuffix
  | (x, suffix) :: rest =>
    if Int.tmod d x = 0 then intDigits (Int.tdiv d x) ++ suffix else formatLadderGo d rest

/-- `FormatDuration(d)`. -/
def formatDuration (d : Int) : List Char :=
  if d = 0 then ['0', 's'] else formatLadderGo d formatLadder

end InfluxQL

import InfluxQL.Model.Ast
import InfluxQL.Model.CondTimeLit
/-
`CReduce` / `creduce` (ast.go) as `ConditionExpr` uses it: the valuer is `nil` or a `*NowValuer`
(`Now`, `Location`), i.e. a `CallValuer` that knows `now()` and a `ZoneValuer`.

Written for C10/C18 (the full evaluation-preservation theory of `CReduce` is C09's). The control
flow of every `reduceBinaryExpr…LHS` function is followed case by case, including the operands
that are converted before a helper is re-entered (an integer compared with a number is handed on
as a number, so an unreduced result shows the *converted* operand).

Numbers: `float64` literals are exact decimals `Dec`. Comparisons are exact (faithful for
literals of at most 15 significant digits and integers up to 2^53); the five arithmetic results
`+ - * / %` on floats are a parameter `fa` of the model (never inspected by a theorem; the
correspondence stream does not compare cases that fold float arithmetic).
`int64(f)` / `time.Duration(f)` truncates; out of range it is `MinInt64` (amd64).
-/
namespace InfluxQL
open Gen
open InfluxQL.CondTime

/-- The zero `time.Time` (January 1, year 1, 00:00 UTC) in Unix nanoseconds. -/
def zeroTime : Int := -62135596800000000000

/-- `*NowValuer`: `Now` as an exact instant, `Location` as `nil` or a fixed offset (seconds). -/
structure NowValuer where
  now : Int
  loc : Option Int
  deriving Repr, DecidableEq

/-- Float arithmetic `op a b` for `op ∈ {ADD, SUB, MUL, DIV, MOD}` (a parameter, see above). -/
abbrev FloatArith := Token → Dec → Dec → Dec

structure RCtx where
  valuer : Option NowValuer
  fa : FloatArith

/-! ### exact decimal helpers -/

def Dec.ofInt (v : Int) : Dec := ⟨decide (v < 0), v.natAbs, 0⟩
def Dec.ofNat (v : Nat) : Dec := ⟨false, v, 0⟩
def Dec.isZero (d : Dec) : Bool := d.mant == 0

/-- Numerators of `a` and `b` over the common denominator `10^(a.scale + b.scale)`. -/
def Dec.num (a b : Dec) : Int := (if a.neg then -1 else 1) * (a.mant : Int) * (10 ^ b.scale : Nat)

def Dec.eq (a b : Dec) : Bool := Dec.num a b == Dec.num b a
def Dec.lt (a b : Dec) : Bool := decide (Dec.num a b < Dec.num b a)
def Dec.le (a b : Dec) : Bool := decide (Dec.num a b ≤ Dec.num b a)

/-- `int64(f)`: truncation toward zero; `MinInt64` when the value does not fit. -/
def Dec.toInt64 (d : Dec) : Int :=
  let q : Int := (d.mant / 10 ^ d.scale : Nat)
  let v := if d.neg then -q else q
  if minInt64 ≤ v ∧ v ≤ maxInt64 then v else minInt64

/-- `uint64` bit operations through `Nat`. -/
def bits64 (f : Nat → Nat → Nat) (a b : Int) : Int :=
  wrap64 (f (wrapU64 a).toNat (wrapU64 b).toNat)

def mkBool (b : Bool) : Expr := .boolean b

/-- `Time.Sub`: the difference saturates at the `int64` bounds. -/
def ctimeSub (a b : Int) : Int :=
  let d := a - b
  if d < minInt64 then minInt64 else if d > maxInt64 then maxInt64 else d

/-! ### literal × literal -/

def redBooleanLHS (op : Token) (l : Bool) (rhs : Expr) : Expr :=
  match rhs with
  | .boolean r =>
    match op with
    | .EQ => mkBool (l == r)
    | .NEQ => mkBool (l != r)
    | .AND => mkBool (l && r)
    | .OR => mkBool (l || r)
    | .BITWISE_AND => mkBool (l && r)
    | .BITWISE_OR => mkBool (l || r)
    | .BITWISE_XOR => mkBool (l != r)
    | _ => .binary op (.boolean l) rhs
  | .nil => mkBool false
  | _ => .binary op (.boolean l) rhs

/-- Number against number. `none`: no case applies. -/
def redNumNum (fa : FloatArith) (op : Token) (a b : Dec) : Option Expr :=
  match op with
  | .ADD => some (.number (fa .ADD a b))
  | .SUB => some (.number (fa .SUB a b))
  | .MUL => some (.number (fa .MUL a b))
  | .DIV => some (if b.isZero then .number ⟨false, 0, 0⟩ else .number (fa .DIV a b))
  | .MOD => some (.number (fa .MOD a b))
  | .EQ => some (mkBool (Dec.eq a b))
  | .NEQ => some (mkBool (!Dec.eq a b))
  | .GT => some (mkBool (Dec.lt b a))
  | .GTE => some (mkBool (Dec.le b a))
  | .LT => some (mkBool (Dec.lt a b))
  | .LTE => some (mkBool (Dec.le a b))
  | _ => none

def redNumberLHS (fa : FloatArith) (op : Token) (a : Dec) (rhs : Expr) : Expr :=
  match rhs with
  | .number b => (redNumNum fa op a b).getD (.binary op (.number a) rhs)
  | .integer b => (redNumNum fa op a (Dec.ofInt b)).getD (.binary op (.number a) rhs)
  | .unsigned b => (redNumNum fa op a (Dec.ofNat b)).getD (.binary op (.number a) (.number (Dec.ofNat b)))
  | .nil => mkBool false
  | _ => .binary op (.number a) rhs

def redUnsUns (op : Token) (a b : Nat) : Option Expr :=
  match op with
  | .ADD => some (.unsigned (wrapU64 (a + b)).toNat)
  | .SUB => some (.unsigned (wrapU64 ((a : Int) - b)).toNat)
  | .MUL => some (.unsigned (wrapU64 (a * b)).toNat)
  | .DIV => some (if b = 0 then .unsigned 0 else .unsigned (a / b))
  | .MOD => some (if b = 0 then .unsigned 0 else .unsigned (a % b))
  | .EQ => some (mkBool (a == b))
  | .NEQ => some (mkBool (a != b))
  | .GT => some (mkBool (decide (a > b)))
  | .GTE => some (mkBool (decide (a ≥ b)))
  | .LT => some (mkBool (decide (a < b)))
  | .LTE => some (mkBool (decide (a ≤ b)))
  | _ => none

def redUnsignedLHS (fa : FloatArith) (op : Token) (a : Nat) (rhs : Expr) : Expr :=
  match rhs with
  | .number b => redNumberLHS fa op (Dec.ofNat a) (.number b)
  | .integer b =>
    if b < 0 ∧ (op = .LT ∨ op = .LTE) then mkBool false
    else if b < 0 ∧ (op = .GT ∨ op = .GTE) then mkBool true
    else
      let b' := (wrapU64 b).toNat
      (redUnsUns op a b').getD (.binary op (.unsigned a) (.unsigned b'))
  | .unsigned b => (redUnsUns op a b).getD (.binary op (.unsigned a) rhs)
  | _ => .binary op (.unsigned a) rhs

def redNilLHS (op : Token) (rhs : Expr) : Expr :=
  if op = .EQ ∨ op = .NEQ then mkBool false else .binary op .nil rhs

/-- Time against duration: `ADD`, `SUB`. -/
def redTimeDur (op : Token) (t d : Int) : Option Expr :=
  match op with
  | .ADD => some (.time (t + d))
  | .SUB => some (.time (t + wrap64 (-d)))
  | _ => none

def redTimeTime (op : Token) (a b : Int) : Option Expr :=
  match op with
  | .SUB => some (.duration (ctimeSub a b))
  | .EQ => some (mkBool (a == b))
  | .NEQ => some (mkBool (a != b))
  | .GT => some (mkBool (decide (a > b)))
  | .GTE => some (mkBool (decide (a ≥ b)))
  | .LT => some (mkBool (decide (a < b)))
  | .LTE => some (mkBool (decide (a ≤ b)))
  | _ => none

/-- `reduceBinaryExprTimeLHS`; `loc` is the zone of `reduceBinaryExpr` (never nil there). -/
def redTimeLHS (op : Token) (t : Int) (rhs : Expr) (loc : Int) : Expr :=
  let keep := Expr.binary op (.time t) rhs
  match rhs with
  | .duration d => (redTimeDur op t d).getD keep
  | .integer d => (redTimeDur op t d).getD keep
  | .time u => (redTimeTime op t u).getD keep
  | .string s =>
    match toTimeLiteral s (some loc) with
    | none => keep
    | some u => (redTimeTime op t u).getD keep
  | .nil => mkBool false
  | _ => keep

/-- Duration against time: only `ADD`. -/
def redDurTime (op : Token) (d t : Int) : Option Expr :=
  match op with
  | .ADD => some (.time (t + d))
  | _ => none

/-- `d * k`, `d / k` on `time.Duration` (`int64`; division truncates, zero divisor gives 0). -/
def redDurScale (op : Token) (d k : Int) : Option Expr :=
  match op with
  | .MUL => some (.duration (wrap64 (d * k)))
  | .DIV => some (if k = 0 then .duration 0 else .duration (wrap64 (Int.tdiv d k)))
  | _ => none

def redDurationLHS (op : Token) (d : Int) (rhs : Expr) (loc : Int) : Expr :=
  let keep := Expr.binary op (.duration d) rhs
  match rhs with
  | .duration r =>
    match op with
    | .ADD => .duration (wrap64 (d + r))
    | .SUB => .duration (wrap64 (d - r))
    | .EQ => mkBool (d == r)
    | .NEQ => mkBool (d != r)
    | .GT => mkBool (decide (d > r))
    | .GTE => mkBool (decide (d ≥ r))
    | .LT => mkBool (decide (d < r))
    | .LTE => mkBool (decide (d ≤ r))
    | _ => keep
  | .number r => (redDurScale op d r.toInt64).getD keep
  | .integer r => (redDurScale op d r).getD keep
  | .time t => (redDurTime op d t).getD keep
  | .string s =>
    match toTimeLiteral s (some loc) with
    | none => keep
    | some t => (redDurTime op d t).getD keep
  | .nil => mkBool false
  | _ => keep

def redIntInt (op : Token) (a b : Int) : Option Expr :=
  match op with
  | .ADD => some (.integer (wrap64 (a + b)))
  | .SUB => some (.integer (wrap64 (a - b)))
  | .MUL => some (.integer (wrap64 (a * b)))
  | .MOD => some (if b = 0 then .integer 0 else .integer (Int.tmod a b))
  | .BITWISE_AND => some (.integer (bits64 Nat.land a b))
  | .BITWISE_OR => some (.integer (bits64 Nat.lor a b))
  | .BITWISE_XOR => some (.integer (bits64 Nat.xor a b))
  | .EQ => some (mkBool (a == b))
  | .NEQ => some (mkBool (a != b))
  | .GT => some (mkBool (decide (a > b)))
  | .GTE => some (mkBool (decide (a ≥ b)))
  | .LT => some (mkBool (decide (a < b)))
  | .LTE => some (mkBool (decide (a ≤ b)))
  | _ => none

def redIntegerLHS (fa : FloatArith) (op : Token) (a : Int) (rhs : Expr) (loc : Int) : Expr :=
  let keep := Expr.binary op (.integer a) rhs
  match rhs with
  | .number b => redNumberLHS fa op (Dec.ofInt a) (.number b)
  | .integer b =>
    if op = .DIV then
      (if b = 0 then .number ⟨false, 0, 0⟩ else .number (fa .DIV (Dec.ofInt a) (Dec.ofInt b)))
    else (redIntInt op a b).getD keep
  | .unsigned b =>
    if a < 0 ∧ (op = .LT ∨ op = .LTE) then mkBool true
    else if a < 0 ∧ (op = .GT ∨ op = .GTE) then mkBool false
    else redUnsignedLHS fa op (wrapU64 a).toNat (.unsigned b)
  | .duration d =>
    match op with
    | .ADD => .time (a + d)
    | .SUB => .time (a + wrap64 (-d))
    | _ => keep
  | .time t => (redDurTime op a t).getD keep
  | .string s =>
    match toTimeLiteral s (some loc) with
    | none => keep
    | some t => (redDurTime op a t).getD keep
  | .nil => mkBool false
  | _ => keep

def redStringLHS (op : Token) (l : Str) (rhs : Expr) (loc : Int) : Expr :=
  let keep := Expr.binary op (.string l) rhs
  /- "convert the left string to a time literal and retry as a time" -/
  let viaTime : Expr :=
    match toTimeLiteral l (some loc) with
    | none => keep
    | some t =>
      match redTimeLHS op t rhs loc with
      | .binary .. => keep
      | e => e
  match rhs with
  | .string r =>
    match op with
    | .EQ =>
      let plain := mkBool (l == r)
      if isTimeLiteral l && isTimeLiteral r then
        match toTimeLiteral l (some loc), toTimeLiteral r (some loc) with
        | some a, some b => (redTimeTime .EQ a b).getD plain
        | _, _ => plain
      else plain
    | .NEQ =>
      let plain := mkBool (l != r)
      if isTimeLiteral l && isTimeLiteral r then
        match toTimeLiteral l (some loc), toTimeLiteral r (some loc) with
        | some a, some b => (redTimeTime .NEQ a b).getD plain
        | _, _ => plain
      else plain
    | .ADD => .string (l ++ r)
    | _ => viaTime
  | .duration _ => viaTime
  | .time _ => viaTime
  | .integer _ => viaTime
  | .nil => if op = .EQ ∨ op = .NEQ then mkBool false else keep
  | _ => keep

/-- Is the expression a `Literal` (ast.go `isLitC`)? -/
def Expr.isLitC : Expr → Bool
  | .boolean _ | .boundParam _ | .duration _ | .integer _ | .unsigned _ | .nil | .number _
  | .regex _ | .list _ | .string _ | .time _ => true
  | _ => false

def Expr.isBinary : Expr → Bool
  | .binary .. => true
  | _ => false

/-- The zone `reduceBinaryExpr` uses: UTC unless the valuer has a location. -/
def RCtx.zone (c : RCtx) : Int :=
  match c.valuer with
  | some v => v.loc.getD 0
  | none => 0

/-- The part of `reduceBinaryExpr` after both operands are reduced. -/
def reduceBin (c : RCtx) (op : Token) (lhs rhs : Expr) : Expr :=
  let isT (e : Expr) : Bool := match e with | .boolean true => true | _ => false
  let isF (e : Expr) : Bool := match e with | .boolean false => true | _ => false
  if op = .AND ∧ (isF lhs ∨ isF rhs) then mkBool false
  else if op = .AND ∧ isT lhs then rhs
  else if op = .AND ∧ isT rhs then lhs
  else if op = .OR ∧ (isT lhs ∨ isT rhs) then mkBool true
  else if op = .OR ∧ isF lhs then rhs
  else if op = .OR ∧ isF rhs then lhs
  else
    match lhs with
    | .boolean l => redBooleanLHS op l rhs
    | .duration d => redDurationLHS op d rhs c.zone
    | .integer a => redIntegerLHS c.fa op a rhs c.zone
    | .unsigned a => redUnsignedLHS c.fa op a rhs
    | .nil => redNilLHS op rhs
    | .number a => redNumberLHS c.fa op a rhs
    | .string s => redStringLHS op s rhs c.zone
    | .time t => redTimeLHS op t rhs c.zone
    | _ => .binary op lhs rhs

/-- `reduceVarRef`: only `NowValuer.Value("now()")` can answer. -/
def reduceVarRef (c : RCtx) (v : Str) (t : DataType) : Expr :=
  match c.valuer with
  | none => .varRef v t
  | some nv => if nv.now ≠ zeroTime ∧ v = ['n', 'o', 'w', '(', ')'] then .time nv.now else .varRef v t

/-- The end of `reduceCall`, after the arguments are reduced. -/
def reduceCallWith (c : RCtx) (name : Str) (args : List Expr) : Expr :=
  match c.valuer with
  | some nv =>
    if args.all Expr.isLitC ∧ name = ['n', 'o', 'w'] ∧ args.length = 0 then .time nv.now
    else .call name args
  | none => .call name args

mutual
  /-- `creduce(expr, valuer)`. -/
  def creduce (c : RCtx) : Expr → Expr
    | .binary op l r => reduceBin c op (creduce c l) (creduce c r)
    | .call name args => reduceCallWith c name (creduceArgs c args)
    | .paren e =>
      let sub := creduce c e
      if sub.isBinary then .paren sub else sub
    | .varRef v t => reduceVarRef c v t
    | e => e
  def creduceArgs (c : RCtx) : List Expr → List Expr
    | [] => []
    | a :: rest => creduce c a :: creduceArgs c rest
end

/-- `CReduce(expr, valuer)`: `creduce`, then parentheses at the top are removed. -/
def CReduce (c : RCtx) (e : Expr) : Expr :=
  match creduce c e with
  | .paren inner => inner
  | r => r

end InfluxQL

import InfluxQL.Model.OpsChecked
/-
Checked model of `Sources.MarshalBinary` / `Sources.UnmarshalBinary` (ast.go) — property C13.

  func (a Sources) MarshalBinary() ([]byte, error) {
      var pb internal.Measurements
      pb.Items = make([]*internal.Measurement, len(a))
      for i, source := range a {
          mm, ok := source.(*Measurement)                            -- comma-ok: no panic site
          if !ok {
              return nil, fmt.Errorf("cannot encode source of type %T: only measurements can be encoded", source)
          }
          pb.Items[i] = encodeMeasurement(mm)                        -- store
      }
      return proto.Marshal(&pb)
  }
  func (a *Sources) UnmarshalBinary(buf []byte) error {
      var pb internal.Measurements
      if err := proto.Unmarshal(buf, &pb); err != nil { return err }
      *a = make(Sources, len(pb.GetItems()))
      for i := range pb.GetItems() {
          mm, err := decodeMeasurement(pb.GetItems()[i])
          if err != nil { return err }
          (*a)[i] = mm                                               -- store
      }
      return nil
  }

Modelled: everything between the `Sources` value and the record list `pb.Items`
(`internal.Measurement`: five optional fields). `proto.Marshal` / `proto.Unmarshal` (record list ↔
bytes) are the protobuf library's and not modelled: `marshalItems` returns the record list handed
to `proto.Marshal`, `unmarshalItems` starts from the record list `proto.Unmarshal` produced (its
elements are non-nil pointers — a guarantee of the library). `regexp.Compile` in
`decodeMeasurement` is a parameter (`compiles`); the text of its error is not modelled.

A `Sources` value may hold `*SubQuery` elements (the parser builds them for `FROM (SELECT …)`).
Before the repair (`fix:` commit in /repo) `MarshalBinary` asserted `source.(*Measurement)` without
comma-ok and panicked on `SELECT a FROM (SELECT a FROM m)`; now the assertion is comma-ok and a
non-measurement source is an error. See `Props/C13.lean`: `marshalBinary_no_panic`.
-/
namespace InfluxQL.Checked
open InfluxQL

/-- `internal.Measurement` (proto2: every field optional, a nil pointer when absent). -/
structure PbMeasurement where
  database : Option Str := none
  retentionPolicy : Option Str := none
  name : Option Str := none
  regex : Option Str := none
  isTarget : Option Bool := none
  deriving Repr, DecidableEq, Inhabited

def sMarshalItems : Site := ("Sources.MarshalBinary", "index", "pb.Items[i]")
def sUnmarshalSlot : Site := ("Sources.UnmarshalBinary", "index", "(*a)[i]")

/-- The 2 sites of the codec, in inventory order. -/
def codecSites : List Site := [sMarshalItems, sUnmarshalSlot]

/-- `source.(*Measurement)` with comma-ok. -/
def sourceAsMeasurement : Source → Option Measurement
  | .measurement m => some m
  | .subquery _ => none

/-- `encodeMeasurement`: four fields always set, `Regex` only for a regex measurement
(`SystemIterator` is not encoded). -/
def encodeMeasurement (m : Measurement) : PbMeasurement :=
  { database := some m.database, retentionPolicy := some m.retentionPolicy, name := some m.name,
    regex := m.regex, isTarget := some m.isTarget }

/-- `fmt.Errorf("cannot encode source of type %T: only measurements can be encoded", source)`:
the only `Source` type besides `*Measurement` is `*SubQuery`. -/
def errNotMeasurement : Str :=
  "cannot encode source of type *influxql.SubQuery: only measurements can be encoded".toList

/-- The body of the loop of `MarshalBinary` for one element: comma-ok assertion, the error return,
then encoding. -/
def marshalOne (s : Source) : OpRes (Option PbMeasurement) :=
  match sourceAsMeasurement s with
  | some m => pure (some (encodeMeasurement m))
  | none => .err errNotMeasurement

/-- `MarshalBinary` up to the call of `proto.Marshal`: the `pb.Items` it builds (a slice of
pointers, nil where nothing was stored). -/
def marshalItems (a : List Source) : OpRes (List (Option PbMeasurement)) :=
  makeAndFill sMarshalItems none marshalOne a

def errBadRegex : Str := "invalid binary measurement regex".toList

/-- `decodeMeasurement`; `compiles` says whether `regexp.Compile` accepts the text. -/
def decodeMeasurement (compiles : Str → Bool) (pb : PbMeasurement) : OpRes Measurement :=
  let mm : Measurement :=
    { database := pb.database.getD [], retentionPolicy := pb.retentionPolicy.getD [], name := pb.name.getD [],
      isTarget := pb.isTarget.getD false }
  match pb.regex with
  | none => .ok mm
  | some r => if compiles r then .ok { mm with regex := some r } else .err errBadRegex

/-- The body of the loop of `UnmarshalBinary` for one record. -/
def unmarshalOne (compiles : Str → Bool) (pb : PbMeasurement) : OpRes (Option Source) := do
  let mm ← decodeMeasurement compiles pb
  pure (some (.measurement mm))

/-- `UnmarshalBinary` after `proto.Unmarshal` succeeded: `*a` (a slice of interfaces, nil where
nothing was stored), or the error of `decodeMeasurement`. -/
def unmarshalItems (compiles : Str → Bool) (items : List PbMeasurement) : OpRes (List (Option Source)) :=
  makeAndFill sUnmarshalSlot none (unmarshalOne compiles) items

end InfluxQL.Checked

import InfluxQL.Model.Ast
import InfluxQL.Model.Print
/-
`SelectStatement.GroupByInterval`, `GroupByOffset`, `Dimensions.Normalize` (ast.go), with the
places where the Go code could panic made explicit: every index expression and the integer
remainder are written as checked operations that return `OpRes.panic` when the Go runtime would
panic. The guards of the code are mirrored, so the theorems in Props/C13.lean show that no panic
outcome is reachable.
-/
namespace InfluxQL
open Gen

inductive OpRes (α : Type) where
  | ok (a : α)
  | err (msg : Str)
  | panic (site : Str)
  deriving Repr

def OpRes.isPanic {α} : OpRes α → Bool
  | .panic _ => true
  | _ => false

/-- `xs[i]` with Go's bounds check. -/
def indexOrPanic {α} (xs : List α) (i : Nat) (site : String) : OpRes α :=
  match xs[i]? with
  | some x => .ok x
  | none => .panic site.toList

/-- `a % b` on int64 with Go's division-by-zero check. -/
def remOrPanic (a b : Int) (site : String) : OpRes Int :=
  if b = 0 then .panic site.toList else .ok (Int.tmod a b)

def timeName : Str := ['t', 'i', 'm', 'e']

/-- `GroupByInterval()` on a statement whose cache field is still zero. -/
def groupByInterval : List Expr → OpRes Int
  | [] => .ok 0
  | .call name args :: rest =>
    if name = timeName then
      if args.length < 1 ∨ args.length > 2 then .err "time dimension expected 1 or 2 arguments".toList
      else
        match indexOrPanic args 0 "GroupByInterval: call.Args[0]" with
        | .ok (.duration v) => .ok v
        | .ok _ => .err "time dimension must have duration argument".toList
        | .err m => .err m
        | .panic s => .panic s
    else groupByInterval rest
  | _ :: rest => groupByInterval rest

def groupByOffsetLoop (interval : Int) : List Expr → OpRes Int
  | [] => .ok 0
  | .call name args :: rest =>
    if name = timeName then
      if args.length = 2 then
        match indexOrPanic args 1 "GroupByOffset: call.Args[1]" with
        | .ok (.duration v) =>
          if interval = 0 then .ok 0 else remOrPanic v interval "GroupByOffset: expr.Val % interval"
        | .ok (.time t) =>
          -- expr.Val.Sub(expr.Val.Truncate(interval)): Truncate counts from the zero time (year 1)
          if interval ≤ 0 then .ok 0 else .ok ((t + 62135596800000000000) % interval)
        | .ok e => .err ("invalid time dimension offset: ".toList ++ e.print)
        | .err m => .err m
        | .panic s => .panic s
      else .ok 0
    else groupByOffsetLoop interval rest
  | _ :: rest => groupByOffsetLoop interval rest

/-- `GroupByOffset()`. -/
def groupByOffset (dims : List Expr) : OpRes Int :=
  match groupByInterval dims with
  | .ok interval => if dims = [] then .ok 0 else groupByOffsetLoop interval dims
  | .err m => .err m
  | .panic s => .panic s

/-- `Dimensions.Normalize()`: the interval of the last call dimension that has a duration as
first argument, and the names of the reference dimensions. -/
def normalizeLoop : List Expr → Int → List Str → OpRes (Int × List Str)
  | [], dur, tags => .ok (dur, tags)
  | .call _ args :: rest, dur, tags =>
    if args.length > 0 then
      match indexOrPanic args 0 "Normalize: expr.Args[0]" with
      | .ok (.duration v) => normalizeLoop rest v tags
      | .ok _ => normalizeLoop rest dur tags
      | .err m => .err m
      | .panic s => .panic s
    else normalizeLoop rest dur tags
  | .varRef v _ :: rest, dur, tags => normalizeLoop rest dur (tags ++ [v])
  | _ :: rest, dur, tags => normalizeLoop rest dur tags

def normalize (dims : List Expr) : OpRes (Int × List Str) := normalizeLoop dims 0 []

end InfluxQL

import InfluxQL.Model.Ast
import InfluxQL.Model.Print
/-
`String()` of every statement type of ast.go, field by field: which conditions are `> 0` and
which `!= 0`, which names go through `QuoteIdent`, `Target.String`, `Sources.String`,
`Dimensions.String`, the fill clause, `TZ('…')`. Passwords print as `[REDACTED]`.
`Sources != nil` in Go is "non-empty" here (the parser never builds an empty non-nil slice).
-/
namespace InfluxQL
open Gen

/-- A string constant as runes. -/
abbrev tx (x : String) : Str := x.toList

def qi (name : Str) : Str := quoteIdent [name]

/-- `if v > 0 { " KW " + strconv.Itoa(v) }`. -/
def clausePos (kw : String) (v : Int) : Str :=
  if v > 0 then tx " " ++ tx kw ++ tx " " ++ intDigits v else []

/-- `" WHERE " + cond.String()` when present. -/
def clauseWhere : Option Expr → Str
  | none => []
  | some c => tx " WHERE " ++ c.print

/-- `Dimensions.String()`. -/
def printDimensions (ds : List Expr) : Str := joinWith (tx ", ") (ds.map Expr.print)

def clauseGroupBy (ds : List Expr) : Str :=
  if ds.isEmpty then [] else tx " GROUP BY " ++ printDimensions ds

/-- `SortFields.String()`. -/
def printSortFields (fs : List SortField) : Str := joinWith (tx ", ") (fs.map SortField.print)

def clauseOrderBy (fs : List SortField) : Str :=
  if fs.isEmpty then [] else tx " ORDER BY " ++ printSortFields fs

def clauseOn (db : Str) : Str := if db ≠ [] then tx " ON " ++ qi db else []

/-- `Target.String()` for a non-nil target. -/
def printTarget (m : Measurement) : Str :=
  tx "INTO " ++ m.print ++ (if m.name = [] then tx ":MEASUREMENT" else [])

/-- The fill clause of `SelectStatement.String()`; `%v` of a nil interface is `<nil>`. -/
def printFill (fill : FillOption) (fv : FillValue) : Str :=
  match fill with
  | .null => []
  | .none => tx " fill(none)"
  | .number =>
    match fv with
    | .num v => tx " fill(" ++ v.print ++ tx ")"
    | .int v => tx " fill(" ++ intDigits v ++ tx ")"
    | .none => tx " fill(<nil>)"
  | .linear => tx " fill(linear)"
  | .previous => tx " fill(previous)"

mutual
  /-- `Source.String()` (`Measurement.String`, `SubQuery.String`). -/
  def Source.print : Source → Str
    | .measurement m => m.print
    | .subquery s => ['('] ++ s.print ++ [')']
  /-- `SelectStatement.String()`. -/
  def SelectStmt.print : SelectStmt → Str
    | .mk fields target dims sources cond sort limit offset slimit soffset _ fill fv loc _ _ _ _ _ =>
      tx "SELECT " ++ joinWith (tx ", ") (fields.map Field.print) ++
      (match target with
       | none => []
       | some m => tx " " ++ printTarget m) ++
      (match sources with
       | [] => []
       | ss => tx " FROM " ++ joinWith (tx ", ") (printSourceList ss)) ++
      clauseWhere cond ++ clauseGroupBy dims ++ printFill fill fv ++ clauseOrderBy sort ++
      clausePos "LIMIT" limit ++ clausePos "OFFSET" offset ++ clausePos "SLIMIT" slimit ++ clausePos "SOFFSET" soffset ++
      (match loc with
       | none => []
       | some n => tx " TZ('" ++ n ++ tx "')")
  def printSourceList : List Source → List Str
    | [] => []
    | x :: rest => x.print :: printSourceList rest
end

/-- `Sources.String()`. -/
def printSources (ss : List Source) : Str := joinWith (tx ", ") (printSourceList ss)

def clauseFrom (ss : List Source) : Str :=
  if ss.isEmpty then [] else tx " FROM " ++ printSources ss

/-- `Privilege.String()`. -/
def Privilege.print : Privilege → Str
  | .none => tx "NO PRIVILEGES"
  | .read => tx "READ"
  | .write => tx "WRITE"
  | .all => tx "ALL PRIVILEGES"

def optDur (kw : String) : Option Int → Str
  | none => []
  | some d => tx kw ++ formatDuration d

/-- ` WITH KEY <op> <key>`: a string literal key is printed as an identifier. -/
def printTagKey (op : Token) (key : Expr) : Str :=
  tx " WITH KEY " ++ op.str ++ tx " " ++
    (match key with
     | .string v => qi v
     | e => e.print)

def exactCardinality (exact : Bool) : Str := (if exact then tx "EXACT " else []) ++ tx "CARDINALITY"

/-- `Statement.String()`. -/
def Statement.print : Statement → Str
  | .alterRetentionPolicy name db d n dflt sh fu pa =>
    tx "ALTER RETENTION POLICY " ++ qi name ++ tx " ON " ++ qi db ++
    optDur " DURATION " d ++
    (match n with
     | none => []
     | some v => tx " REPLICATION " ++ intDigits v) ++
    optDur " SHARD DURATION " sh ++
    (if dflt then tx " DEFAULT" else []) ++
    (match fu with
     | some v => if v ≠ 0 then tx " FUTURE LIMIT " ++ formatDuration v else []
     | none => []) ++
    (match pa with
     | some v => if v ≠ 0 then tx " PAST LIMIT " ++ formatDuration v else []
     | none => [])
  | .createContinuousQuery name db src ev fo =>
    tx "CREATE CONTINUOUS QUERY " ++ qi name ++ tx " ON " ++ qi db ++ tx " " ++
    (if ev > 0 ∨ fo > 0 then
      tx "RESAMPLE " ++ (if ev > 0 then tx "EVERY " ++ formatDuration ev ++ tx " " else []) ++
      (if fo > 0 then tx "FOR " ++ formatDuration fo ++ tx " " else [])
     else []) ++
    tx "BEGIN " ++ src.print ++ tx " END"
  | .createDatabase name rpc d n rpn sh fu pa =>
    tx "CREATE DATABASE " ++ qi name ++
    (if rpc then
      tx " WITH" ++ optDur " DURATION " d ++
      (match n with
       | none => []
       | some v => tx " REPLICATION " ++ intDigits v) ++
      (if sh > 0 then tx " SHARD DURATION " ++ formatDuration sh else []) ++
      (match fu with
       | some v => if v > 0 then tx " FUTURE LIMIT " ++ formatDuration v else []
       | none => []) ++
      (match pa with
       | some v => if v > 0 then tx " PAST LIMIT " ++ formatDuration v else []
       | none => []) ++
      (if rpn ≠ [] then tx " NAME " ++ qi rpn else [])
     else [])
  | .createRetentionPolicy name db d n dflt sh fu pa =>
    tx "CREATE RETENTION POLICY " ++ qi name ++ tx " ON " ++ qi db ++ tx " DURATION " ++ formatDuration d ++
    tx " REPLICATION " ++ intDigits n ++
    (if sh > 0 then tx " SHARD DURATION " ++ formatDuration sh else []) ++
    (if dflt then tx " DEFAULT" else []) ++
    (if fu ≠ 0 then tx " FUTURE LIMIT " ++ formatDuration fu else []) ++
    (if pa ≠ 0 then tx " PAST LIMIT " ++ formatDuration pa else [])
  | .createSubscription name db rp dests mode =>
    tx "CREATE SUBSCRIPTION " ++ qi name ++ tx " ON " ++ qi db ++ tx "." ++ qi rp ++ tx " DESTINATIONS " ++ mode ++ tx " " ++
    joinWith (tx ", ") (dests.map quoteString)
  | .createUser name _ admin =>
    tx "CREATE USER " ++ qi name ++ tx " WITH PASSWORD [REDACTED]" ++ (if admin then tx " WITH ALL PRIVILEGES" else [])
  | .deleteSeries ss c => tx "DELETE" ++ clauseFrom ss ++ clauseWhere c
  | .delete src c =>
    tx "DELETE FROM " ++ (match src with
      | some x => x.print
      | none => []) ++ clauseWhere c
  | .dropContinuousQuery name db => tx "DROP CONTINUOUS QUERY " ++ qi name ++ tx " ON " ++ qi db
  | .dropDatabase name => tx "DROP DATABASE " ++ qi name
  | .dropMeasurement name => tx "DROP MEASUREMENT " ++ qi name
  | .dropRetentionPolicy name db => tx "DROP RETENTION POLICY " ++ qi name ++ tx " ON " ++ qi db
  | .dropSeries ss c => tx "DROP SERIES" ++ clauseFrom ss ++ clauseWhere c
  | .dropShard id => tx "DROP SHARD " ++ natDigits id
  | .dropSubscription name db rp => tx "DROP SUBSCRIPTION " ++ qi name ++ tx " ON " ++ qi db ++ tx "." ++ qi rp
  | .dropUser name => tx "DROP USER " ++ qi name
  | .explain st analyze verbose =>
    tx "EXPLAIN " ++ (if analyze then tx "ANALYZE " else []) ++ (if verbose then tx "VERBOSE " else []) ++ st.print
  | .grant p on user => tx "GRANT " ++ p.print ++ tx " ON " ++ qi on ++ tx " TO " ++ qi user
  | .grantAdmin user => tx "GRANT ALL PRIVILEGES TO " ++ qi user
  | .killQuery id host => tx "KILL QUERY " ++ natDigits id ++ clauseOn host
  | .revoke p on user => tx "REVOKE " ++ p.print ++ tx " ON " ++ qi on ++ tx " FROM " ++ qi user
  | .revokeAdmin user => tx "REVOKE ALL PRIVILEGES FROM " ++ qi user
  | .select st => st.print
  | .setPasswordUser _ name => tx "SET PASSWORD FOR " ++ qi name ++ tx " = [REDACTED]"
  | .showContinuousQueries => tx "SHOW CONTINUOUS QUERIES"
  | .showDatabases => tx "SHOW DATABASES"
  | .showDiagnostics m => tx "SHOW DIAGNOSTICS" ++ (if m ≠ [] then tx " FOR " ++ quoteString m else [])
  | .showFieldKeyCardinality db ex ss c ds l o =>
    tx "SHOW FIELD KEY " ++ exactCardinality ex ++ clauseOn db ++ clauseFrom ss ++ clauseWhere c ++ clauseGroupBy ds ++
    clausePos "LIMIT" l ++ clausePos "OFFSET" o
  | .showFieldKeys db ss sf l o =>
    tx "SHOW FIELD KEYS" ++ clauseOn db ++ clauseFrom ss ++ clauseOrderBy sf ++ clausePos "LIMIT" l ++ clausePos "OFFSET" o
  | .showGrantsForUser name => tx "SHOW GRANTS FOR " ++ qi name
  | .showMeasurementCardinality ex db ss c ds l o =>
    tx "SHOW MEASUREMENT" ++ (if ex then tx " EXACT" else []) ++ tx " CARDINALITY" ++ clauseOn db ++ clauseFrom ss ++
    clauseWhere c ++ clauseGroupBy ds ++ clausePos "LIMIT" l ++ clausePos "OFFSET" o
  | .showMeasurements db rp wdb wrp src c sf l o =>
    tx "SHOW MEASUREMENTS" ++
    (if db ≠ [] ∨ wdb then
      tx " ON " ++ (if wdb then tx "*" else qi db) ++
      (if wrp then tx ".*" else if rp ≠ [] then tx "." ++ qi rp else [])
     else []) ++
    (match src with
     | none => []
     | some (.measurement m) =>
       tx " WITH MEASUREMENT " ++ (if m.regex.isSome then tx "=~ " else tx "= ") ++ m.print
     | some x => tx " WITH MEASUREMENT = " ++ x.print) ++
    clauseWhere c ++ clauseOrderBy sf ++ clausePos "LIMIT" l ++ clausePos "OFFSET" o
  | .showQueries => tx "SHOW QUERIES"
  | .showRetentionPolicies db => tx "SHOW RETENTION POLICIES" ++ clauseOn db
  | .showSeries db ss c sf l o =>
    tx "SHOW SERIES" ++ clauseOn db ++ clauseFrom ss ++ clauseWhere c ++ clauseOrderBy sf ++ clausePos "LIMIT" l ++
    clausePos "OFFSET" o
  | .showSeriesCardinality db ex ss c ds l o =>
    tx "SHOW SERIES" ++ (if ex then tx " EXACT" else []) ++ tx " CARDINALITY" ++ clauseOn db ++ clauseFrom ss ++
    clauseWhere c ++ clauseGroupBy ds ++ clausePos "LIMIT" l ++ clausePos "OFFSET" o
  | .showShardGroups => tx "SHOW SHARD GROUPS"
  | .showShards => tx "SHOW SHARDS"
  | .showStats m => tx "SHOW STATS" ++ (if m ≠ [] then tx " FOR " ++ quoteString m else [])
  | .showSubscriptions => tx "SHOW SUBSCRIPTIONS"
  | .showTagKeyCardinality db ex ss c ds l o =>
    tx "SHOW TAG KEY " ++ exactCardinality ex ++ clauseOn db ++ clauseFrom ss ++ clauseWhere c ++ clauseGroupBy ds ++
    clausePos "LIMIT" l ++ clausePos "OFFSET" o
  | .showTagKeys db ss op key c sf l o sl so =>
    tx "SHOW TAG KEYS" ++ clauseOn db ++ clauseFrom ss ++
    (match key with
     | none => []
     | some k => printTagKey op k) ++
    clauseWhere c ++ clauseOrderBy sf ++ clausePos "LIMIT" l ++ clausePos "OFFSET" o ++ clausePos "SLIMIT" sl ++
    clausePos "SOFFSET" so
  | .showTagValues db ss op key c sf l o =>
    tx "SHOW TAG VALUES" ++ clauseOn db ++ clauseFrom ss ++
    (match key with
     | none => tx " WITH KEY " ++ op.str ++ tx " "
     | some k => printTagKey op k) ++
    clauseWhere c ++ clauseOrderBy sf ++ clausePos "LIMIT" l ++ clausePos "OFFSET" o
  | .showTagValuesCardinality db ex ss op key c ds l o =>
    tx "SHOW TAG VALUES " ++ exactCardinality ex ++ clauseOn db ++ clauseFrom ss ++
    (match key with
     | none => tx " WITH KEY " ++ op.str ++ tx " "
     | some k => printTagKey op k) ++
    clauseWhere c ++ clauseGroupBy ds ++ clausePos "LIMIT" l ++ clausePos "OFFSET" o
  | .showUsers => tx "SHOW USERS"

/-- `Statements.String()` (and `Query.String()`). -/
def printStatements (ss : List Statement) : Str := joinWith (tx ";\n") (ss.map Statement.print)

end InfluxQL

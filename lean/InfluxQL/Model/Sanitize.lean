import InfluxQL.Gen.Sanitize
import InfluxQL.Model.Quote
/-!
# Model of `Sanitize` (sanitize.go) and of the two password statement printers (ast.go)

`Sanitize` runs two regular expressions over the raw query text, one after the other:

    sanitizeSetPassword    = (?i)password\s+for[^=]*=\s+(["']?[^\s"]+["']?)
    sanitizeCreatePassword = (?i)with\s+password\s+(["']?[^\s"]+["']?)

with `FindAllStringSubmatchIndex(query, -1)`: successive leftmost matches, each search resuming
at the end of the previous match (no match here is empty).  Go's regexp has leftmost-first
(Perl-like) semantics: the match starts at the first position where any match exists and is the
one a backtracking matcher would find first, greedy operators trying the longest repetition first.

The matcher below is specialised by hand to exactly these two patterns.  The text is the sequence
of runes the regexp package decodes (an invalid UTF-8 byte is one U+FFFD of width one; the
harness ships the text in that form), so a character of the model is one matching step of Go.

Why no backtracking is left for the repetitions (each argument is about the priority order;
`Lemmas/SanitizeRe.lean` proves them: `setRe_eq`, `createRe_eq` state that these matchers equal
a generic backtracking matcher run on the patterns given as atom sequences, whose printed form
is compared with the regenerated sources):
* `\s+` before `for` / `password` / the group: the next pattern element cannot match a white-space
  character, so only the maximal run can be followed by a match;
* `[^=]*` before `=`: every character of the run is not `=`, so `=` can only match at the end of
  the maximal run (and the run may cross anything, including line ends and `;`);
* `[^\s"]+` inside the group: what follows (`["']?` and the end of the pattern) always matches, so
  the first choice, the maximal run, is taken;
* the leading `["']?` prefers to take the quote; if the rest then fails (no password character
  follows the quote) the matcher backtracks to not taking it – this one is modelled literally.

`(?i)` folds case by Unicode simple folding: besides the ASCII upper-case letter, `s` is also
matched by U+017F (LATIN SMALL LETTER LONG S) and `k` by U+212A (KELVIN SIGN).
`\s` is `[\t\n\f\r ]` (no vertical tab, no Unicode spaces).
-/
namespace InfluxQL.Sanitize
open InfluxQL Gen

/-- `\s` of Go's regexp: `[\t\n\f\r ]`. -/
def isSpace (c : Char) : Bool :=
  c == '\t' || c == '\n' || c == Char.ofNat 0x0c || c == '\r' || c == ' '

/-- `[^\s"]`: the characters the password part of the group is made of (`'` included). -/
def isPw (c : Char) : Bool := !isSpace c && c != '"'

/-- `["']` -/
def isQuote (c : Char) : Bool := c == '"' || c == '\''

/-- `[^=]` -/
def notEq (c : Char) : Bool := c != '='

/-- Does `c` match the lower-case ASCII pattern letter `k` under `(?i)`?  The fold orbit of a
letter is itself, its ASCII upper case, and for `s` / `k` the extra members U+017F / U+212A. -/
def foldMatch (k c : Char) : Bool :=
  c == k || c.toNat + 32 == k.toNat || (k == 's' && c == Char.ofNat 0x17f) || (k == 'k' && c == Char.ofNat 0x212a)

/-- Match a literal (lower-case) keyword under `(?i)` at the head of the text:
`(matched text, rest)`. -/
def matchKw : List Char → List Char → Option (List Char × List Char)
  | [], xs => some ([], xs)
  | _ :: _, [] => none
  | k :: ks, c :: xs =>
    if foldMatch k c then
      match matchKw ks xs with
      | some (m, r) => some (c :: m, r)
      | none => none
    else none

def kwPassword : List Char := ['p', 'a', 's', 's', 'w', 'o', 'r', 'd']
def kwFor : List Char := ['f', 'o', 'r']
def kwWith : List Char := ['w', 'i', 't', 'h']

/-- `\s+` at the head of the text: the maximal white-space run, which must not be empty. -/
def matchSpaces (xs : List Char) : Option (List Char × List Char) :=
  if (xs.takeWhile isSpace).isEmpty then none else some (xs.takeWhile isSpace, xs.dropWhile isSpace)

/-- The trailing `["']?` of the group. -/
def closeQuote (g rest : List Char) : List Char × List Char :=
  match rest with
  | c :: r => if isQuote c then (g ++ [c], r) else (g, rest)
  | [] => (g, rest)

/-- `[^\s"]+["']?` at the head of the text. -/
def groupBody (xs : List Char) : Option (List Char × List Char) :=
  if (xs.takeWhile isPw).isEmpty then none else some (closeQuote (xs.takeWhile isPw) (xs.dropWhile isPw))

/-- The capture group `(["']?[^\s"]+["']?)` at the head of the text: `(group, rest)`.
The optional opening quote is tried first; when nothing matches behind it the matcher
backtracks to the alternative without it. -/
def matchGroup (xs : List Char) : Option (List Char × List Char) :=
  match xs with
  | [] => none
  | c :: t =>
    if isQuote c then
      match groupBody t with
      | some (g, r) => some (c :: g, r)
      | none => groupBody xs
    else groupBody xs

/-- Result of a successful match at the head of the text: the matched text before capture
group 1, the group, and the text after the match (the group is the last pattern element). -/
abbrev Match := List Char × List Char × List Char

/-- A matcher tries one start position: the head of the text. -/
abbrev Matcher := List Char → Option Match

/-- The keyword part `password\s+for` at the head of the text. -/
def chainSet (xs : List Char) : Option (List Char × List Char) :=
  match matchKw kwPassword xs with
  | none => none
  | some (m1, r1) =>
    match matchSpaces r1 with
    | none => none
    | some (w1, r2) =>
      match matchKw kwFor r2 with
      | none => none
      | some (m2, r3) => some (m1 ++ w1 ++ m2, r3)

/-- The keyword part `with\s+password` at the head of the text. -/
def chainCreate (xs : List Char) : Option (List Char × List Char) :=
  match matchKw kwWith xs with
  | none => none
  | some (m1, r1) =>
    match matchSpaces r1 with
    | none => none
    | some (w1, r2) =>
      match matchKw kwPassword r2 with
      | none => none
      | some (m2, r3) => some (m1 ++ w1 ++ m2, r3)

/-- `\s+(group)` at the head of the text, `pre` being what was matched so far. -/
def spacesGroup (pre xs : List Char) : Option Match :=
  match matchSpaces xs with
  | none => none
  | some (w, r) =>
    match matchGroup r with
    | none => none
    | some (g, rest) => some (pre ++ w, g, rest)

/-- `(?i)password\s+for[^=]*=\s+(["']?[^\s"]+["']?)` at the head of the text. -/
def matchSetPassword : Matcher := fun xs =>
  match chainSet xs with
  | none => none
  | some (m, r3) =>
    match r3.dropWhile notEq with
    | [] => none
    | e :: r5 => spacesGroup (m ++ r3.takeWhile notEq ++ [e]) r5

/-- `(?i)with\s+password\s+(["']?[^\s"]+["']?)` at the head of the text. -/
def matchCreatePassword : Matcher := fun xs =>
  match chainCreate xs with
  | none => none
  | some (m, r3) => spacesGroup m r3

/-- The replacement text. -/
def redacted : List Char := sanitizeReplacement

/-- One pass of `Sanitize`: `FindAllStringSubmatchIndex` (successive leftmost matches, the search
resuming behind the previous match) and the replacement loop: copy up to the group, write
`[REDACTED]`, continue behind the group.  `fuel` bounds the number of steps (text length + 1
is enough, see `pass_fuel`). -/
def pass (m : Matcher) : Nat → List Char → List Char
  | 0, xs => xs
  | fuel + 1, xs =>
    match m xs with
    | some (pre, _, rest) => pre ++ redacted ++ pass m fuel rest
    | none =>
      match xs with
      | [] => []
      | c :: t => c :: pass m fuel t

def passSet (xs : List Char) : List Char := pass matchSetPassword (xs.length + 1) xs
def passCreate (xs : List Char) : List Char := pass matchCreatePassword (xs.length + 1) xs

/-- `Sanitize(query)`: the set-password pass, then the create-user pass on its result. -/
def sanitize (xs : List Char) : List Char := passCreate (passSet xs)

/-! ## The two statement printers -/

/-- Interpret the print pieces extracted from a `String` method. -/
def printPieces (name : List Char) (admin : Bool) : List PrintPiece → List Char
  | [] => []
  | .lit s :: ps => s ++ printPieces name admin ps
  | .quoteIdentName :: ps => quoteIdent [name] ++ printPieces name admin ps
  | .ifAdmin s :: ps => (if admin then s else []) ++ printPieces name admin ps

/-- `(*CreateUserStatement).String()`.  The password is an argument to make the statement of
independence meaningful; the printer has no way to use it. -/
def printCreateUser (name _password : List Char) (admin : Bool) : List Char :=
  printPieces name admin createUserStringPieces

/-- `(*SetPasswordUserStatement).String()`. -/
def printSetPasswordUser (name _password : List Char) : List Char :=
  printPieces name false setPasswordUserStringPieces

end InfluxQL.Sanitize

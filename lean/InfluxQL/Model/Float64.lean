import InfluxQL.Model.Eval
/-
The executable `FloatAlg`: Lean's `Float` is IEEE binary64 like Go's `float64`; `+ - * /` and the
comparisons are the hardware operations on both sides. Ported: `math.Mod` (Go's portable
algorithm; the result of `fmod` is exact, so every correct implementation agrees),
`float64(int64)`, `float64(uint64)` and the amd64 conversion `int64(float64)`.
Not used by any theorem (the theorems are generic in `FloatAlg`); validated by correspondence.
-/
namespace InfluxQL

/-- `float64(u)` for `u < 2^64` (correctly rounded, like the Go conversion). -/
def floatOfU64 (n : Nat) : Float := (UInt64.ofNat n).toFloat

/-- `float64(i)` for an `int64`. -/
def floatOfI64 (i : Int) : Float :=
  if i < 0 then -(floatOfU64 i.natAbs) else floatOfU64 i.toNat

/-- `int64(f)` as compiled for amd64 (`CVTTSD2SQ`): truncation; NaN and values outside the
`int64` range give `MinInt64`. -/
def floatToI64 (f : Float) : Int :=
  if f != f || f >= 9223372036854775808.0 || f < -9223372036854775808.0 then minInt64
  else f.toInt64.toInt

def floatNaN : Float := Float.ofBits 0x7FF8000000000001

/-- The loop of Go's `math.mod` (`r` and `y` positive, `yfr, yexp = Frexp(y)`). -/
def fmodLoop : Nat → Float → Float → Float → Int → Float
  | 0, r, _, _, _ => r
  | fuel + 1, r, y, yfr, yexp =>
    if r >= y then
      let (rfr, rexp) := r.frExp
      let rexp := if rfr < yfr then rexp - 1 else rexp
      fmodLoop fuel (r - y.scaleB (rexp - yexp)) y yfr yexp
    else r

/-- `math.Mod`. -/
def floatMod (x y : Float) : Float :=
  if y == 0 || x.isInf || x.isNaN || y.isNaN then floatNaN
  else
    let y := y.abs
    let (yfr, yexp) := y.frExp
    let r := if x < 0 then -x else x
    let r := fmodLoop 4200 r y yfr yexp
    if x < 0 then -r else r

def float64Alg : FloatAlg Float :=
  { add := (· + ·), sub := (· - ·), mul := (· * ·), div := (· / ·), mod := floatMod
    eq := fun a b => a == b
    lt := fun a b => decide (a < b)
    le := fun a b => decide (a ≤ b)
    ofInt := floatOfI64
    ofNat := floatOfU64
    toInt64 := floatToI64
    zero := 0.0 }

end InfluxQL

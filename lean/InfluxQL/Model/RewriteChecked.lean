import InfluxQL.Model.OpsChecked
/-
Checked model of `Rewrite(r Rewriter, node Node) Node` (ast.go) — property C13.

`Rewrite` walks the tree bottom-up, stores what the recursive call returns into the field it came
from, and finally hands the node to the caller-supplied `Rewriter`. The recursive call returns a
`Node` (an interface); the store needs the static type of the field, so every store is an
*unchecked* type assertion — the 13 inventoried sites of `Rewrite`:

  n.Statements = Rewrite(r, n.Statements).(Statements)      *Query
  n[i] = Rewrite(r, s).(Statement)                          Statements
  n.Fields = Rewrite(r, n.Fields).(Fields)                  *SelectStatement
  n.Dimensions = Rewrite(r, n.Dimensions).(Dimensions)      *SelectStatement
  n.Sources = Rewrite(r, n.Sources).(Sources)               *SelectStatement
  n.Condition = cond.(Expr)   (only if cond != nil)         *SelectStatement
  n.Statement = Rewrite(r, n.Statement).(*SelectStatement)  *SubQuery
  n[i] = Rewrite(r, f).(*Field)                             Fields
  n.Expr = Rewrite(r, n.Expr).(Expr)                        *Field, *Dimension, *ParenExpr (one text, three places)
  n[i] = Rewrite(r, d).(*Dimension)                         Dimensions
  n.LHS = Rewrite(r, n.LHS).(Expr), n.RHS = … .(Expr)       *BinaryExpr
  n.Args[i] = Rewrite(r, expr).(Expr)                       *Call

Each one is an `assertT` with its `Site`; the argument of `assertT` is the comma-ok form of the
assertion on the model's `Node` (`Node.asFields`, `Node.asExpr`, …). The rewriter is a parameter
`rw : Node → Node` (`r.Rewrite`): a function of the node *value* it is handed. (A Go rewriter with
side effects on other parts of the tree, or a tree that shares nodes, is outside the model; the
parser builds trees.)

Transcribed as the type switch is written, case by case:
* there is **no** `case Sources:` and no `case *Measurement:` — `Rewrite(r, n.Sources)` is just
  `r.Rewrite(n.Sources)`, so a subquery below a SELECT is *not* visited; `case *SubQuery:` is only
  entered when the node handed to `Rewrite` is itself a `*SubQuery`;
* of all statement types only `*SelectStatement` has a case; `DELETE`, `DROP SERIES`, `SHOW …`,
  `EXPLAIN`, `CREATE CONTINUOUS QUERY` (which `Walk` descends into) go straight to `r.Rewrite`:
  their `Condition` is never touched, so the nil question only arises for SELECT;
* the SELECT case guards the assertion on the condition: `if cond := Rewrite(r, n.Condition);
  cond != nil { n.Condition = cond.(Expr) } else { n.Condition = nil }`. A nil `Condition` reaches
  the rewriter as the nil `Node` (`Node.nil`); whatever comes back is asserted only if non-nil;
* the other six `Expr` slots (`Field.Expr`, `Dimension.Expr`, `ParenExpr.Expr`, `LHS`, `RHS`,
  `Args[i]`) have no guard: a rewriter that returns nil for an expression panics there (`x.(Expr)`
  on the nil interface panics). In the model AST those slots are `Expr`, not `Option Expr` (the
  parser never leaves them nil); `rewriteSlot` is the unguarded form on a possibly-nil slot, used to
  show what the guard is for;
* `SortFields`, `*SortField`, `*Target`, `Measurements`, `*Measurement` have no case.
-/
namespace InfluxQL.Checked
open InfluxQL

/-- The dynamic value of a Go `Node` interface: `nil`, or one of the types of ast.go with a
`node()` method. `*SelectStatement` is `statement (.select s)` (it is a `Statement`);
`*Measurement` and `*SubQuery` are the two `source`s; `*Dimension` is its only field `Expr`;
`*Target` is its `Measurement`. -/
inductive Node where
  | nil
  | query (stmts : List Statement)
  | statements (stmts : List Statement)
  | statement (s : Statement)
  | fields (fs : List Field)
  | field (f : Field)
  | dimensions (ds : List Expr)
  | dimension (d : Expr)
  | sources (ss : List Source)
  | source (s : Source)
  | measurements (ms : List Measurement)
  | sortFields (sfs : List SortField)
  | sortField (sf : SortField)
  | target (m : Measurement)
  | expr (e : Expr)
  deriving Inhabited

/-- The interface kind of a node, as far as the assertions of `Rewrite` can tell nodes apart. -/
inductive Kind where
  | nil | query | statements | select | statement | fields | field | dimensions | dimension
  | sources | measurement | subquery | measurements | sortFields | sortField | target | expr
  deriving DecidableEq, Repr

def Node.kind : Node → Kind
  | .nil => .nil
  | .query _ => .query
  | .statements _ => .statements
  | .statement (.select _) => .select
  | .statement _ => .statement
  | .fields _ => .fields
  | .field _ => .field
  | .dimensions _ => .dimensions
  | .dimension _ => .dimension
  | .sources _ => .sources
  | .source (.measurement _) => .measurement
  | .source (.subquery _) => .subquery
  | .measurements _ => .measurements
  | .sortFields _ => .sortFields
  | .sortField _ => .sortField
  | .target _ => .target
  | .expr _ => .expr

/-! ## The comma-ok forms of the assertions -/

/-- `x.(Statements)`. -/
def Node.asStatements : Node → Option (List Statement) | .statements l => some l | _ => none
/-- `x.(Statement)`: any statement type, `*SelectStatement` included. -/
def Node.asStatement : Node → Option Statement | .statement s => some s | _ => none
/-- `x.(*SelectStatement)`. -/
def Node.asSelect : Node → Option SelectStmt | .statement (.select s) => some s | _ => none
/-- `x.(Fields)`. -/
def Node.asFields : Node → Option (List Field) | .fields l => some l | _ => none
/-- `x.(*Field)`. -/
def Node.asField : Node → Option Field | .field f => some f | _ => none
/-- `x.(Dimensions)`. -/
def Node.asDimensions : Node → Option (List Expr) | .dimensions l => some l | _ => none
/-- `x.(*Dimension)`. -/
def Node.asDimension : Node → Option Expr | .dimension d => some d | _ => none
/-- `x.(Sources)`. -/
def Node.asSources : Node → Option (List Source) | .sources l => some l | _ => none
/-- `x.(Expr)`: any expression type; `none` for the nil interface too. -/
def Node.asExpr : Node → Option Expr | .expr e => some e | _ => none

/-! ## Sites -/

def sRwStatements : Site := ("Rewrite", "assert", "Rewrite(r, n.Statements).(Statements)")
def sRwStatement : Site := ("Rewrite", "assert", "Rewrite(r, s).(Statement)")
def sRwFields : Site := ("Rewrite", "assert", "Rewrite(r, n.Fields).(Fields)")
def sRwDimensions : Site := ("Rewrite", "assert", "Rewrite(r, n.Dimensions).(Dimensions)")
def sRwSources : Site := ("Rewrite", "assert", "Rewrite(r, n.Sources).(Sources)")
def sRwCond : Site := ("Rewrite", "assert", "cond.(Expr)")
def sRwSelect : Site := ("Rewrite", "assert", "Rewrite(r, n.Statement).(*SelectStatement)")
def sRwField : Site := ("Rewrite", "assert", "Rewrite(r, f).(*Field)")
def sRwNExpr : Site := ("Rewrite", "assert", "Rewrite(r, n.Expr).(Expr)")
def sRwDimension : Site := ("Rewrite", "assert", "Rewrite(r, d).(*Dimension)")
def sRwLHS : Site := ("Rewrite", "assert", "Rewrite(r, n.LHS).(Expr)")
def sRwRHS : Site := ("Rewrite", "assert", "Rewrite(r, n.RHS).(Expr)")
def sRwArg : Site := ("Rewrite", "assert", "Rewrite(r, expr).(Expr)")

/-- The 13 sites of `Rewrite`, in inventory order. -/
def rewriteSites : List Site :=
  [sRwDimension, sRwArg, sRwField, sRwDimensions, sRwNExpr, sRwFields, sRwLHS, sRwRHS, sRwSources,
   sRwSelect, sRwStatements, sRwStatement, sRwCond]

/-! ## The traversal -/

section
variable (rw : Node → Node)

mutual
  /-- `Rewrite(r, e)` for a non-nil expression `e`: the cases `*BinaryExpr`, `*ParenExpr`, `*Call`;
  every other expression type has no case. -/
  def rewriteExpr : Expr → OpRes Node
    | .binary op l r => do
      let ln ← rewriteExpr l
      let l' ← assertT sRwLHS ln.asExpr
      let rn ← rewriteExpr r
      let r' ← assertT sRwRHS rn.asExpr
      pure (rw (.expr (.binary op l' r')))
    | .paren e => do
      let en ← rewriteExpr e
      let e' ← assertT sRwNExpr en.asExpr
      pure (rw (.expr (.paren e')))
    | .call name args => do
      let args' ← rewriteArgs args
      pure (rw (.expr (.call name args')))
    | .varRef v t => pure (rw (.expr (.varRef v t)))
    | .distinct v => pure (rw (.expr (.distinct v)))
    | .wildcard t => pure (rw (.expr (.wildcard t)))
    | .regex v => pure (rw (.expr (.regex v)))
    | .string v => pure (rw (.expr (.string v)))
    | .number v => pure (rw (.expr (.number v)))
    | .integer v => pure (rw (.expr (.integer v)))
    | .unsigned v => pure (rw (.expr (.unsigned v)))
    | .boolean v => pure (rw (.expr (.boolean v)))
    | .duration v => pure (rw (.expr (.duration v)))
    | .time v => pure (rw (.expr (.time v)))
    | .nil => pure (rw (.expr .nil))
    | .list vals => pure (rw (.expr (.list vals)))
    | .boundParam n => pure (rw (.expr (.boundParam n)))
  /-- `for i, expr := range n.Args { n.Args[i] = Rewrite(r, expr).(Expr) }`. -/
  def rewriteArgs : List Expr → OpRes (List Expr)
    | [] => pure []
    | a :: rest => do
      let an ← rewriteExpr a
      let a' ← assertT sRwArg an.asExpr
      let rest' ← rewriteArgs rest
      pure (a' :: rest')
end

/-- `Rewrite(r, x)` for an `Expr`-typed field `x` that may be nil: on nil the type switch has no
case and the rewriter is handed the nil `Node`. -/
def rewriteOptExpr : Option Expr → OpRes Node
  | none => pure (rw .nil)
  | some e => rewriteExpr rw e

/-- `x = Rewrite(r, x).(Expr)` without a guard, on a possibly-nil slot (the form of `Field.Expr`,
`Dimension.Expr`, `ParenExpr.Expr`, `LHS`, `RHS`, `Args[i]`). -/
def rewriteSlot (site : Site) (x : Option Expr) : OpRes Expr := do
  let n ← rewriteOptExpr rw x
  assertT site n.asExpr

/-- `if cond := Rewrite(r, n.Condition); cond != nil { n.Condition = cond.(Expr) } else
{ n.Condition = nil }`. -/
def rewriteCondition (c : Option Expr) : OpRes (Option Expr) := do
  let cn ← rewriteOptExpr rw c
  match cn with
  | .nil => pure none
  | n => do
    let e ← assertT sRwCond n.asExpr
    pure (some e)

/-- `for i, x := range n { n[i] = Rewrite(r, x).(T) }` for the slice types `Statements`, `Fields`,
`Dimensions`: `one` is `Rewrite(r, ·)` on an element, `as` the comma-ok form of `.(T)`. -/
def rewriteElems {α} (site : Site) (one : α → OpRes Node) (as : Node → Option α) : List α → OpRes (List α)
  | [] => pure []
  | x :: rest => do
    let n ← one x
    let x' ← assertT site (as n)
    let rest' ← rewriteElems site one as rest
    pure (x' :: rest')

/-- `case *Field:`. -/
def rewriteField (f : Field) : OpRes Node := do
  let n ← rewriteExpr rw f.expr
  let e ← assertT sRwNExpr n.asExpr
  pure (rw (.field { expr := e, alias := f.alias }))

/-- `case Fields:`. -/
def rewriteFields (fs : List Field) : OpRes Node := do
  let fs' ← rewriteElems sRwField (rewriteField rw) Node.asField fs
  pure (rw (.fields fs'))

/-- `case *Dimension:`. -/
def rewriteDimension (d : Expr) : OpRes Node := do
  let n ← rewriteExpr rw d
  let e ← assertT sRwNExpr n.asExpr
  pure (rw (.dimension e))

/-- `case Dimensions:`. -/
def rewriteDimensions (ds : List Expr) : OpRes Node := do
  let ds' ← rewriteElems sRwDimension (rewriteDimension rw) Node.asDimension ds
  pure (rw (.dimensions ds'))

/-- `case *SelectStatement:`. `Rewrite(r, n.Sources)` has no case of its own: it is the rewriter's
answer on the `Sources` value (subqueries are not entered). -/
def rewriteSelect : SelectStmt → OpRes Node
  | .mk fields target dims sources cond sortFields l o sl so raw fill fv loc ta ot sn en dd => do
    let fn ← rewriteFields rw fields
    let fields' ← assertT sRwFields fn.asFields
    let dn ← rewriteDimensions rw dims
    let dims' ← assertT sRwDimensions dn.asDimensions
    let sources' ← assertT sRwSources (rw (.sources sources)).asSources
    let cond' ← rewriteCondition rw cond
    pure (rw (.statement
      (.select (.mk fields' target dims' sources' cond' sortFields l o sl so raw fill fv loc ta ot sn en dd))))

/-- `Rewrite(r, s)` for a statement: only `*SelectStatement` has a case. -/
def rewriteStatement : Statement → OpRes Node
  | .select s => rewriteSelect rw s
  | st => pure (rw (.statement st))

/-- `case Statements:`. -/
def rewriteStatements (stmts : List Statement) : OpRes Node := do
  let stmts' ← rewriteElems sRwStatement (rewriteStatement rw) Node.asStatement stmts
  pure (rw (.statements stmts'))

/-- `Rewrite(r, node)`. -/
def rewriteChecked : Node → OpRes Node
  | .query stmts => do
    let n ← rewriteStatements rw stmts
    let stmts' ← assertT sRwStatements n.asStatements
    pure (rw (.query stmts'))
  | .statements stmts => rewriteStatements rw stmts
  | .statement st => rewriteStatement rw st
  | .source (.subquery s) => do
    let n ← rewriteSelect rw s
    let s' ← assertT sRwSelect n.asSelect
    pure (rw (.source (.subquery s')))
  | .fields fs => rewriteFields rw fs
  | .field f => rewriteField rw f
  | .dimensions ds => rewriteDimensions rw ds
  | .dimension d => rewriteDimension rw d
  | .expr e => rewriteExpr rw e
  | .nil => pure (rw .nil)
  | .sources ss => pure (rw (.sources ss))
  | .source (.measurement m) => pure (rw (.source (.measurement m)))
  | .measurements ms => pure (rw (.measurements ms))
  | .sortFields sfs => pure (rw (.sortFields sfs))
  | .sortField sf => pure (rw (.sortField sf))
  | .target m => pure (rw (.target m))

end

/-! ## The contract -/

/-- The rewriter answers every node with a node of the same interface kind (an expression with
any expression, a SELECT with a SELECT, another statement with a non-SELECT statement, nil with nil, …). -/
def KindPreserving (rw : Node → Node) : Prop := ∀ n, (rw n).kind = n.kind

/-- What the 13 assertions demand of the rewriter, slot by slot (weaker than `KindPreserving`: a
non-SELECT statement may become a SELECT, the answer to the nil condition may be nil or any
expression, nothing is asked about `*Query`, `*SubQuery`, `*Measurement`, sort fields, targets). -/
structure Accepts (rw : Node → Node) : Prop where
  statements : ∀ l, ∃ l', rw (.statements l) = .statements l'
  statement : ∀ s, ∃ s', rw (.statement s) = .statement s'
  select : ∀ s, ∃ s', rw (.statement (.select s)) = .statement (.select s')
  fields : ∀ l, ∃ l', rw (.fields l) = .fields l'
  field : ∀ f, ∃ f', rw (.field f) = .field f'
  dimensions : ∀ l, ∃ l', rw (.dimensions l) = .dimensions l'
  dimension : ∀ d, ∃ d', rw (.dimension d) = .dimension d'
  sources : ∀ l, ∃ l', rw (.sources l) = .sources l'
  expr : ∀ e, ∃ e', rw (.expr e) = .expr e'
  nilCond : rw .nil = .nil ∨ ∃ e, rw .nil = .expr e

/-- The rewriter behind `RewriteFunc(node, func(n Node) Node { return n })`. -/
def idRewriter : Node → Node := fun n => n

/-- The rewriter that applies `fn` to every expression node and leaves every other node (the nil
node included) alone: `func(n Node) Node { if e, ok := n.(Expr); ok { return fn(e) }; return n }`
for an `fn` that returns an expression. (`RewriteExpr` of ast.go is *not* built on `Rewrite`: it
is its own recursion without assertions, and lets `fn` return nil.) -/
def exprRewriter (fn : Expr → Expr) : Node → Node
  | .expr e => .expr (fn e)
  | n => n

/-- A rewriter that may delete expressions: `fn` returns `none` for "return nil". -/
def exprOptRewriter (fn : Expr → Option Expr) : Node → Node
  | .expr e => match fn e with | some e' => .expr e' | none => .nil
  | n => n

/-- A rewriter that breaks the contract at one kind: nodes of kind `k` are answered with a
`*Target`, every other node with itself. -/
def breakAt (k : Kind) : Node → Node :=
  fun n => if n.kind = k then .target {} else n

/-- A rewriter that deletes variable references by answering nil — legal for the callback of
`RewriteExpr`, which checks for nil, but not for a `Rewriter`. -/
def dropVarRefs : Node → Node :=
  exprOptRewriter fun e => match e with
    | .varRef .. => none
    | e => some e

end InfluxQL.Checked

import InfluxQL.Model.Ast
/-
`ValuerEval.Eval` / `evalBinaryExpr` (ast.go) over expression trees whose number literals are
machine floats.

* `float64` is an abstract carrier `F` with the operations the code uses (`FloatAlg F`): the
  theorems of C09 hold for every such structure, i.e. they use no law of floating point at all.
  The executable instance (IEEE binary64) is `Model/Float64.lean`.
* `int64` is `Int` with `wrap64` at every Go `+ - *` (and `/`, for `MinInt64 / -1`), `uint64` is
  `Nat` reduced modulo `2^64`; Go's `/` and `%` on integers truncate (`Int.tdiv`, `Int.tmod`).
* `time.Time` is an exact instant in nanoseconds (`Int`, unbounded: Go's range is far wider than
  `int64` nanoseconds), `time.Duration` is an `int64`.
* What the code asks of strings that may be dates (`IsTimeLiteral`, `ToTimeLiteral(loc)`) and of
  compiled regular expressions (`MatchString`) is a parameter `StrAlg`; the executable instance is
  `Model/TimeLit.lean`.
-/
namespace InfluxQL
open Gen

/-- The operations on `float64` used by `Eval` and `Reduce`. `lt a b` is Go's `a < b`
(`a > b` is compiled as `b < a`), `eq` is `==` (so `!=` is its negation), `ofInt`/`ofNat` are
`float64(int64)`/`float64(uint64)`, `toInt64` is the conversion `time.Duration(f)`. -/
structure FloatAlg (F : Type) where
  add : F → F → F
  sub : F → F → F
  mul : F → F → F
  div : F → F → F
  mod : F → F → F
  eq : F → F → Bool
  lt : F → F → Bool
  le : F → F → Bool
  ofInt : Int → F
  ofNat : Nat → F
  toInt64 : F → Int
  zero : F

/-- What `Reduce`/`Eval` ask of strings: `StringLiteral.IsTimeLiteral`, `ToTimeLiteral(loc)`
(`loc` = offset of the zone in seconds east of UTC; result in nanoseconds since the epoch) and
`(*regexp.Regexp).MatchString` (regex source, subject). -/
structure StrAlg where
  isTimeLit : Str → Bool
  toTime : Int → Str → Option Int
  reMatch : Str → Str → Bool

/-- Values `Eval` returns and valuers deliver (`interface{}`): `nil`, `bool`, `int64`, `uint64`,
`float64`, `string`, `time.Time`, `time.Duration`, `*regexp.Regexp`. -/
inductive Value (F : Type) where
  | nil
  | bool (b : Bool)
  | int (v : Int)
  | uint (v : Nat)
  | float (v : F)
  | str (s : Str)
  | time (ns : Int)
  | dur (ns : Int)
  | regex (src : Str)
  deriving DecidableEq, Repr, Inhabited

/-- `Expr` with `float64` number literals in `F` (the shape of `Model/Ast.lean`'s `Expr`). -/
inductive RExpr (F : Type) where
  | binary (op : Token) (lhs rhs : RExpr F)
  | paren (e : RExpr F)
  | call (name : Str) (args : List (RExpr F))
  | varRef (val : Str) (type : DataType)
  | distinct (val : Str)
  | wildcard (type : Token)
  | regex (src : Str)
  | str (val : Str)
  | num (val : F)
  | int (val : Int)
  | uint (val : Nat)
  | bool (val : Bool)
  | dur (ns : Int)
  | time (ns : Int)
  | nil
  | list (vals : List Str)
  | boundParam (name : Str)

instance {F : Type} : Inhabited (RExpr F) := ⟨.nil⟩

/-- The binary operators `Eval` and `Reduce` distinguish; every other token is `other`. -/
inductive BinOp where
  | add | sub | mul | div | mod | band | bor | bxor | and | or
  | eq | neq | eqregex | neqregex | lt | lte | gt | gte | other
  deriving DecidableEq, Repr, Inhabited

def BinOp.ofToken : Token → BinOp
  | .ADD => .add | .SUB => .sub | .MUL => .mul | .DIV => .div | .MOD => .mod
  | .BITWISE_AND => .band | .BITWISE_OR => .bor | .BITWISE_XOR => .bxor
  | .AND => .and | .OR => .or | .EQ => .eq | .NEQ => .neq
  | .EQREGEX => .eqregex | .NEQREGEX => .neqregex
  | .LT => .lt | .LTE => .lte | .GT => .gt | .GTE => .gte
  | _ => .other

/-- `uint64(i)` for an `int64` `i`. -/
def toU64 (i : Int) : Nat := (i % 18446744073709551616).toNat
/-- `int64(n)` for a `uint64` `n`. -/
def toI64 (n : Nat) : Int := wrap64 (n : Int)
/-- `uint64` addition, subtraction, multiplication. -/
def uAdd (a b : Nat) : Nat := (a + b) % 18446744073709551616
def uSub (a b : Nat) : Nat := toU64 ((a : Int) - (b : Int))
def uMul (a b : Nat) : Nat := (a * b) % 18446744073709551616
/-- `int64` bitwise operators through the two's-complement bit pattern. -/
def iAnd (a b : Int) : Int := toI64 (toU64 a &&& toU64 b)
def iOr (a b : Int) : Int := toI64 (toU64 a ||| toU64 b)
def iXor (a b : Int) : Int := toI64 (toU64 a ^^^ toU64 b)

/-- A `Valuer`: `Value(key)`; `Call(name, args)` if it is a `CallValuer` (`none` otherwise;
the inner `none` is `ok = false`, for which the valuers of the library return `nil`);
`Zone()` as seconds east of UTC (`none`: no `ZoneValuer`, or a nil location — then UTC). -/
structure Valuer (F : Type) where
  value : Str → Option (Value F)
  call : Option (Str → List (Value F) → Option (Value F))
  zone : Option Int

/-- `MapValuer(m)` (also the nil valuer and `MapValuer(nil)`, which bind nothing). -/
def Valuer.map {F : Type} (m : Str → Option (Value F)) : Valuer F :=
  { value := m, call := none, zone := none }

def Valuer.empty {F : Type} : Valuer F := Valuer.map (fun _ => none)

/-- The zero `time.Time` (January 1, year 1, 00:00 UTC) in nanoseconds since the Unix epoch. -/
def zeroTimeNs : Int := -62135596800000000000

/-- `&NowValuer{Now: now, Location: zone}`. -/
def Valuer.now {F : Type} (now : Int) (zone : Option Int) : Valuer F :=
  { value := fun key => if now ≠ zeroTimeNs ∧ key = ['n', 'o', 'w', '(', ')'] then some (.time now) else none
    call := some (fun name args => if name = ['n', 'o', 'w'] ∧ args.length = 0 then some (.time now) else none)
    zone := zone }

/-- `MultiValuer(a, b)`: the first valuer that answers wins (always a `CallValuer` and a `ZoneValuer`). -/
def Valuer.multi {F : Type} (a b : Valuer F) : Valuer F :=
  { value := fun key => match a.value key with
      | some v => some v
      | none => b.value key
    call := some (fun name args =>
      match (match a.call with | some f => f name args | none => none) with
      | some v => some v
      | none => match b.call with | some g => g name args | none => none)
    zone := match a.zone with
      | some z => some z
      | none => b.zone }

section
variable {F : Type} (A : FloatAlg F) (S : StrAlg)

/-- The end of `evalBinaryExpr`: operand types that do not fit give `false` for the six comparison
operators and `nil` for everything else. -/
def cmpDefault (op : BinOp) : Value F :=
  match op with
  | .eq | .neq | .lt | .lte | .gt | .gte => .bool false
  | _ => .nil

/-- `case bool:` of `evalBinaryExpr`; `rhs` is `some b` when the right value is a `bool` (`ok`). -/
def evalBoolLHS (op : BinOp) (l : Bool) (rhs : Option Bool) : Value F :=
  let ok := rhs.isSome
  let r := rhs.getD false
  match op with
  | .and => .bool (ok && (l && r))
  | .or => .bool (ok && (l || r))
  | .band => .bool (ok && (l && r))
  | .bor => .bool (ok && (l || r))
  | .bxor => .bool (ok && (l != r))
  | .eq => .bool (ok && (l == r))
  | .neq => .bool (ok && (l != r))
  | _ => cmpDefault op

/-- Two `float64` operands (the `float64` case with `ok`, and the mixed cases after the cast). -/
def evalFloatOp (op : BinOp) (l r : F) : Value F :=
  match op with
  | .eq => .bool (A.eq l r)
  | .neq => .bool (!A.eq l r)
  | .lt => .bool (A.lt l r)
  | .lte => .bool (A.le l r)
  | .gt => .bool (A.lt r l)
  | .gte => .bool (A.le r l)
  | .add => .float (A.add l r)
  | .sub => .float (A.sub l r)
  | .mul => .float (A.mul l r)
  | .div => if A.eq r A.zero then .float A.zero else .float (A.div l r)
  | .mod => .float (A.mod l r)
  | _ => cmpDefault op

/-- `case float64:`: the right value as `float64`, `int64` or `uint64`; otherwise `ok` is false:
comparisons give `false`, arithmetic `nil`. -/
def evalFloatLHS (op : BinOp) (l : F) (rhs : Value F) : Value F :=
  match rhs with
  | .float r => evalFloatOp A op l r
  | .int r => evalFloatOp A op l (A.ofInt r)
  | .uint r => evalFloatOp A op l (A.ofNat r)
  | _ => cmpDefault op

/-- `case int64:`; `ifd` is `IntegerFloatDivision`. -/
def evalIntLHS (ifd : Bool) (op : BinOp) (l : Int) (rhs : Value F) : Value F :=
  match rhs with
  | .float r => evalFloatOp A op (A.ofInt l) r
  | .int r =>
    match op with
    | .eq => .bool (l == r)
    | .neq => .bool (l != r)
    | .lt => .bool (decide (l < r))
    | .lte => .bool (decide (l ≤ r))
    | .gt => .bool (decide (l > r))
    | .gte => .bool (decide (l ≥ r))
    | .add => .int (wrap64 (l + r))
    | .sub => .int (wrap64 (l - r))
    | .mul => .int (wrap64 (l * r))
    | .div =>
      if ifd then
        if r == 0 then .float A.zero else .float (A.div (A.ofInt l) (A.ofInt r))
      else
        if r == 0 then .int 0 else .int (wrap64 (l.tdiv r))
    | .mod => if r == 0 then .int 0 else .int (l.tmod r)
    | .band => .int (iAnd l r)
    | .bor => .int (iOr l r)
    | .bxor => .int (iXor l r)
    | _ => cmpDefault op
  | .uint r =>
    match op with
    | .eq => .bool (toU64 l == r)
    | .neq => .bool (toU64 l != r)
    | .lt => if l < 0 then .bool true else .bool (decide (toU64 l < r))
    | .lte => if l < 0 then .bool true else .bool (decide (toU64 l ≤ r))
    | .gt => if l < 0 then .bool false else .bool (decide (toU64 l > r))
    | .gte => if l < 0 then .bool false else .bool (decide (toU64 l ≥ r))
    | .add => .uint (uAdd (toU64 l) r)
    | .sub => .uint (uSub (toU64 l) r)
    | .mul => .uint (uMul (toU64 l) r)
    | .div => if r == 0 then .uint 0 else .uint (toU64 l / r)
    | .mod => if r == 0 then .uint 0 else .uint (toU64 l % r)
    | .band => .uint (toU64 l &&& r)
    | .bor => .uint (toU64 l ||| r)
    | .bxor => .uint (toU64 l ^^^ r)
    | _ => cmpDefault op
  | _ => cmpDefault op

/-- `case uint64:`. -/
def evalUintLHS (op : BinOp) (l : Nat) (rhs : Value F) : Value F :=
  match rhs with
  | .float r => evalFloatOp A op (A.ofNat l) r
  | .int r =>
    match op with
    | .eq => .bool (l == toU64 r)
    | .neq => .bool (l != toU64 r)
    | .lt => if r < 0 then .bool false else .bool (decide (l < toU64 r))
    | .lte => if r < 0 then .bool false else .bool (decide (l ≤ toU64 r))
    | .gt => if r < 0 then .bool true else .bool (decide (l > toU64 r))
    | .gte => if r < 0 then .bool true else .bool (decide (l ≥ toU64 r))
    | .add => .uint (uAdd l (toU64 r))
    | .sub => .uint (uSub l (toU64 r))
    | .mul => .uint (uMul l (toU64 r))
    | .div => if r == 0 then .uint 0 else .uint (l / toU64 r)
    | .mod => if r == 0 then .uint 0 else .uint (l % toU64 r)
    | .band => .uint (l &&& toU64 r)
    | .bor => .uint (l ||| toU64 r)
    | .bxor => .uint (l ^^^ toU64 r)
    | _ => cmpDefault op
  | .uint r =>
    match op with
    | .eq => .bool (l == r)
    | .neq => .bool (l != r)
    | .lt => .bool (decide (l < r))
    | .lte => .bool (decide (l ≤ r))
    | .gt => .bool (decide (l > r))
    | .gte => .bool (decide (l ≥ r))
    | .add => .uint (uAdd l r)
    | .sub => .uint (uSub l r)
    | .mul => .uint (uMul l r)
    | .div => if r == 0 then .uint 0 else .uint (l / r)
    | .mod => if r == 0 then .uint 0 else .uint (l % r)
    | .band => .uint (l &&& r)
    | .bor => .uint (l ||| r)
    | .bxor => .uint (l ^^^ r)
    | _ => cmpDefault op
  | _ => cmpDefault op

/-- `case string:`. -/
def evalStrLHS (op : BinOp) (l : Str) (rhs : Value F) : Value F :=
  match op with
  | .eq => match rhs with
    | .str r => .bool (l == r)
    | _ => .bool false
  | .neq => match rhs with
    | .str r => .bool (l != r)
    | _ => .bool false
  | .eqregex => match rhs with
    | .regex src => .bool (S.reMatch src l)
    | _ => .bool false
  | .neqregex => match rhs with
    | .regex src => .bool (!S.reMatch src l)
    | _ => .bool false
  | _ => cmpDefault op

/-- The implicit cast at the head of `evalBinaryExpr`: a `nil` next to a `bool` becomes `false`. -/
def nilCast (lhs rhs : Value F) : Value F × Value F :=
  match lhs, rhs with
  | .nil, .bool b => (.bool false, .bool b)
  | .bool b, .nil => (.bool b, .bool false)
  | l, r => (l, r)

/-- `evalBinaryExpr` on the two operand values. -/
def evalBin (ifd : Bool) (op : BinOp) (lhs rhs : Value F) : Value F :=
  match nilCast lhs rhs with
  | (.bool l, r) => evalBoolLHS op l (match r with | .bool b => some b | _ => none)
  | (.float l, r) => evalFloatLHS A op l r
  | (.int l, r) => evalIntLHS A ifd op l r
  | (.uint l, r) => evalUintLHS A op l r
  | (.str l, r) => evalStrLHS S op l r
  | _ => cmpDefault op

mutual
  /-- `(*ValuerEval).Eval`. -/
  def eval (ifd : Bool) (V : Valuer F) : RExpr F → Value F
    | .binary op l r => evalBin A S ifd (BinOp.ofToken op) (eval ifd V l) (eval ifd V r)
    | .bool b => .bool b
    | .int v => .int v
    | .num v => .float v
    | .uint v => .uint v
    | .paren e => eval ifd V e
    | .regex src => .regex src
    | .str s => .str s
    | .call name args =>
      match V.call with
      | some f => (f name (evalArgs ifd V args)).getD .nil
      | none => .nil
    | .varRef val _ => (V.value val).getD .nil
    | _ => .nil
  def evalArgs (ifd : Bool) (V : Valuer F) : List (RExpr F) → List (Value F)
    | [] => []
    | a :: rest => eval ifd V a :: evalArgs ifd V rest
end

/-- `EvalBool`. -/
def evalBool (ifd : Bool) (V : Valuer F) (e : RExpr F) : Bool :=
  match eval A S ifd V e with
  | .bool b => b
  | _ => false

end
end InfluxQL

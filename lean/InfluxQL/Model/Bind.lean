import InfluxQL.Model.Ast
import InfluxQL.Model.Duration
/-
Model of params.go: the `Value` types with `TokenType()` / `Value()`, `BindValue`,
`bindObjectValue` and `jsonNumberToValue`.

Go values are the small inductive `GoVal` (what the type switches of `BindValue` can tell apart).
Three `strconv` results are *not* computed by the model but carried as fields of the value
(shipped by the harness, see DESIGN §3): the `FormatFloat(v, 'f', -1, 64)` text of a `float64`,
the same text for `float64(i)` of an `int64` (used by `{"float": <int>}`), and the results of
`json.Number.Float64()` / `.Int64()`. Everything else — which branch is taken, which error text
is produced, which token kind results — is computed here.
-/
namespace InfluxQL
open Gen

/-- The `Value` implementations of params.go. -/
inductive ParamValue where
  | identifier (s : Str)
  | string (s : Str)
  | regex (s : Str)
  | number (text : Str)        -- NumberValue; `text` = strconv.FormatFloat(v, 'f', -1, 64)
  | integer (v : Int)
  | boolean (b : Bool)
  | duration (s : Str)
  | error (msg : Str)          -- ErrorValue
  deriving Repr, DecidableEq

/-- `Value.TokenType()`. -/
def ParamValue.tokenType : ParamValue → Token
  | .identifier _ => .IDENT
  | .string _ => .STRING
  | .regex _ => .REGEX
  | .number _ => .NUMBER
  | .integer _ => .INTEGER
  | .boolean b => if b then .TRUE else .FALSE
  | .duration _ => .DURATIONVAL
  | .error _ => .BOUNDPARAM

/-- `Value.Value()`. -/
def ParamValue.text : ParamValue → Str
  | .identifier s => s
  | .string s => s
  | .regex s => s
  | .number t => t
  | .integer v => intDigits v
  | .boolean _ => []
  | .duration s => s
  | .error m => m

/-- What `Parser.scan` substitutes for the placeholder. -/
def ParamValue.bound (v : ParamValue) : BoundValue := { tok := v.tokenType, text := v.text }

/-- Go values as `BindValue` sees them. -/
inductive GoVal where
  | float (text : Str)                                   -- float64 (its FormatFloat text)
  | int (v : Int) (floatText : Str)                      -- int64 (and FormatFloat(float64(v)))
  | str (s : Str)
  | bool (b : Bool)
  | jsonNumber (text : Str) (asFloat : Except Str Str) (asInt : Except Str (Int × Str))
      -- json.Number; `asFloat` = Float64() (error text or FormatFloat text),
      -- `asInt` = Int64() (error text, or the value with its float text)
  | object (key : Str) (v : GoVal)                       -- map[string]interface{} with one entry
  | objectN                                              -- … with zero or several entries
  | other (typeName : Str)                               -- anything else; `%T`
  deriving Repr

/-- `strings.Contains(string(v), ".")`. -/
def containsDot (s : Str) : Bool := s.any (· == '.')

/-- `jsonNumberToValue` followed by the re-binding `v = …` in its callers: a `json.Number` becomes
a `float64` or an `int64`, or the conversion error. Other values pass unchanged. -/
def convertJsonNumber : GoVal → Except Str GoVal
  | .jsonNumber text asFloat asInt =>
    if containsDot text then
      match asFloat with
      | .error e => .error e
      | .ok t => .ok (.float t)
    else
      match asInt with
      | .error e => .error e
      | .ok (i, ft) => .ok (.int i ft)
  | v => .ok v

/-- `bindObjectValue(m)` for the single entry `k: v`. -/
def bindObjectValue (k : Str) (v : GoVal) : ParamValue :=
  match convertJsonNumber v with
  | .error e => .error e
  | .ok v =>
    if k = "ident".toList ∨ k = "identifier".toList then
      match v with
      | .str s => .identifier s
      | _ => .error "identifier must be a string value".toList
    else if k = "regex".toList then
      match v with
      | .str s => .regex s
      | _ => .error "regex literal must be a string value".toList
    else if k = "string".toList then
      match v with
      | .str s => .string s
      | _ => .error "string literal must be a string value".toList
    else if k = "float".toList ∨ k = "number".toList then
      match v with
      | .float t => .number t
      | .int _ ft => .number ft
      | _ => .error "number literal must be a float value".toList
    else if k = "int".toList ∨ k = "integer".toList then
      match v with
      | .int i _ => .integer i
      | _ => .error "integer literal must be an integer value".toList
    else if k = "duration".toList then
      match v with
      | .str s => .duration s
      | .int d _ => .duration (formatDuration d)
      | _ => .error "duration literal must be a string or integer value".toList
    else .error ("unknown bind object type: ".toList ++ k)

/-- `BindValue(v)`. -/
def bindValue (v : GoVal) : ParamValue :=
  match convertJsonNumber v with
  | .error e => .error e
  | .ok v =>
    match v with
    | .float t => .number t
    | .int i _ => .integer i
    | .str s => .string s
    | .bool b => .boolean b
    | .object k x => bindObjectValue k x
    | .objectN => .error "bound object parameter value must have exactly one entry".toList
    | .other t => .error ("unable to bind parameter with type ".toList ++ t)
    | .jsonNumber t _ _ => .error ("unable to bind parameter with type ".toList ++ t)  -- unreachable

/-- `Parser.SetParams`: bind every entry. -/
def setParams (m : List (Str × GoVal)) : List (Str × BoundValue) :=
  m.map fun (k, v) => (k, (bindValue v).bound)

end InfluxQL

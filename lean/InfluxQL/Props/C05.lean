import InfluxQL.Lemmas.ScannerPos
/-!
# C05 — the lexer partitions its input and reports exact positions

Model: `Cursor` (Model/Reader.lean) and `scan` (Model/Scanner.lean).
The delivered stream of a text is `stampRunes (foldCR text ++ [NUL])`: `foldCR`
is the CRLF / lone-CR folding, `stampRunes` attaches the reader's positions.
-/
namespace InfluxQL.C05
open InfluxQL Gen

/-! ## Reader positions -/

/-- Line/column bookkeeping stated on its own: a newline starts a new line, any other rune
advances the column. -/
def step (p : Pos) (c : Char) : Pos := if c = '\n' then ⟨p.line + 1, 0⟩ else ⟨p.line, p.char + 1⟩

/-- Position after a sequence of delivered runes, counted from `p`. -/
def posAfter (p : Pos) (pre : List Char) : Pos := pre.foldl step p

/-- **C05 (reader positions).** In NUL-free text the position stamped on a delivered rune is
the line/column reached by the runes delivered before it. -/
theorem reader_pos (pre : List Char) (c : Char) (post : List Char) (p : Pos)
    (h : ∀ x ∈ pre, x ≠ eofRune) :
    (stampRunes (pre ++ c :: post) p false)[pre.length]? = some (c, posAfter p pre) := by
  induction pre generalizing p with
  | nil => simp [stampRunes, posAfter]
  | cons x pre ih =>
    have hx : x ≠ eofRune := h x (by simp)
    have hx' : (x == eofRune) = false := by simpa using hx
    simp only [List.cons_append, stampRunes, hx', Bool.or_false, List.length_cons,
      List.getElem?_cons_succ]
    have : advance x p false = step p x := by simp [advance, step]
    rw [this, ih (step p x) (fun y hy => h y (by simp [hy]))]
    simp [posAfter]

theorem posAfter_append (p : Pos) (a b : List Char) : posAfter p (a ++ b) = posAfter (posAfter p a) b := by
  simp [posAfter, List.foldl_append]

/-- The line number is the number of line breaks delivered so far. -/
theorem posAfter_line (p : Pos) (pre : List Char) : (posAfter p pre).line = p.line + pre.count '\n' := by
  induction pre generalizing p with
  | nil => simp [posAfter]
  | cons x pre ih =>
    have : posAfter p (x :: pre) = posAfter (step p x) pre := rfl
    rw [this, ih]
    by_cases hx : x = '\n'
    · subst hx; simp [step]; omega
    · have hc : List.count '\n' (x :: pre) = List.count '\n' pre :=
        List.count_cons_of_ne (fun e => hx e)
      rw [hc]; simp [step, hx]

/-- Without a line break the column advances by one per rune. -/
theorem posAfter_char_no_newline (p : Pos) (pre : List Char) (h : '\n' ∉ pre) :
    (posAfter p pre).char = p.char + pre.length := by
  induction pre generalizing p with
  | nil => simp [posAfter]
  | cons x pre ih =>
    have hx : x ≠ '\n' := fun e => h (by simp [e])
    have : posAfter p (x :: pre) = posAfter (step p x) pre := rfl
    rw [this, ih _ (fun e => h (by simp [e]))]
    simp [step, hx]; omega

/-- The column is the number of runes since the last line break. -/
theorem posAfter_char_after_newline (p : Pos) (a b : List Char) (h : '\n' ∉ b) :
    (posAfter p (a ++ '\n' :: b)).char = b.length := by
  rw [posAfter_append]
  have : posAfter (posAfter p a) ('\n' :: b) = posAfter (step (posAfter p a) '\n') b := rfl
  rw [this, posAfter_char_no_newline _ _ h]
  simp [step]

/-- CRLF and a lone CR are each delivered as one line break; other runes are untouched. -/
theorem foldCR_crlf (t : List Char) : foldCR ('\r' :: '\n' :: t) = '\n' :: foldCR t := by simp [foldCR]
theorem foldCR_cr (c : Char) (t : List Char) (h : c ≠ '\n') : foldCR ('\r' :: c :: t) = '\n' :: foldCR (c :: t) := by
  simp [foldCR, h]
theorem foldCR_cr_end : foldCR ['\r'] = ['\n'] := by simp [foldCR]
theorem foldCR_other (c : Char) (t : List Char) (h : c ≠ '\r') : foldCR (c :: t) = c :: foldCR t := by
  cases t <;> simp [foldCR, h]

/-! ## Tiling, progress, termination -/

/-- **C05 (tiling).** After a `Scan` the remaining stream is a suffix of the previous one: the
runes a token covers are a contiguous block starting exactly where the previous token
ended — nothing is skipped and nothing is read twice. -/
theorem scan_tiles (r : Cursor) : (scan r).2.rest <:+ r.rest ∧ (scan r).2.fin = r.fin :=
  ⟨(scan_adv r).2.1, (scan_adv r).1⟩

/-- **C05 (progress).** While input remains every token covers at least one rune. -/
theorem scan_consumes (r : Cursor) (h : r.rest ≠ []) : (scan r).2.rest.length < r.rest.length :=
  scan_progress r h

/-- Scanning until EOF with a fuel bound. -/
def scanAll : Nat → Cursor → List Lexeme
  | 0, _ => []
  | fuel + 1, r =>
    if (scan r).1.tok = .EOF then [(scan r).1] else (scan r).1 :: scanAll fuel (scan r).2

/-- **C05 (termination).** Scanning terminates with EOF after at most one token per delivered
rune plus one: with that much fuel the token list ends in EOF and contains no earlier EOF. -/
theorem scanAll_ends_with_EOF (fuel : Nat) (r : Cursor) (h : r.rest.length < fuel) :
    ∃ toks last, scanAll fuel r = toks ++ [last] ∧ last.tok = .EOF ∧ ∀ t ∈ toks, t.tok ≠ .EOF := by
  induction fuel generalizing r with
  | zero => omega
  | succ fuel ih =>
    simp only [scanAll]
    by_cases he : (scan r).1.tok = .EOF
    · exact ⟨[], (scan r).1, by simp [he], he, by simp⟩
    · simp only [he, if_false]
      have hne : r.rest ≠ [] := fun hnil => he (scan_at_end r hnil)
      have := scan_progress r hne
      obtain ⟨toks, last, heq, hl, hall⟩ := ih (scan r).2 (by omega)
      refine ⟨(scan r).1 :: toks, last, by simp [heq], hl, ?_⟩
      intro t ht
      simp at ht
      rcases ht with rfl | ht
      · exact he
      · exact hall t ht

/-! ## Token positions -/

/-- **C05 (positions).** Every token outside the string family (STRING, BADSTRING, BADESCAPE)
is reported at the stamp of the first rune `Scan` reads for it, i.e. by `reader_pos` at the
line and column of its first character. -/
theorem tok_pos_exact (r : Cursor) (h : (scan r).1.tok.isStringFamily = false) :
    (scan r).1.pos = r.read.1.2 := by
  rcases scan_pos r with hp | hs
  · exact hp
  · rw [hs] at h; cases h

/-- What the code does for string literals: `unread(); _, pos = curr()` yields the position of
the rune delivered *before* the opening quote. -/
theorem string_pos_is_previous_rune (r : Cursor) (h : (scanString r).1.tok ≠ .BADESCAPE) :
    (scanString r).1.pos = r.prev.2 := by
  unfold scanString at h ⊢
  dsimp only at h ⊢
  split <;> simp_all

/-- **C05 fails for string literals on the current tree** (known finding, pinned by
`TestScanner_Scan_Multi`): in `a⏎ 'x'` the literal starts at line 1, char 1 but is reported
at line 1, char 0 — the position of the preceding blank. -/
theorem string_pos_counterexample :
    let r0 := Cursor.ofRunes ['a', '\n', ' ', '\'', 'x', '\'']
    let r1 := (scan r0).2          -- after `a`
    let r2 := (scan r1).2          -- after the whitespace
    (scan r2).1.tok = .STRING ∧ (scan r2).1.pos = ⟨1, 0⟩ ∧ r2.read.1 = ('\'', ⟨1, 1⟩) := by
  decide

/-- **C05 fails for NUL on the current tree** (known finding): NUL is the reader's EOF
sentinel, so `Scan` reports EOF while text remains. -/
theorem nul_counterexample :
    let r0 := Cursor.ofRunes [Char.ofNat 0, 'y']
    (scan r0).1.tok = .EOF ∧ (scan r0).2.rest.length = 2 := by
  decide

-- non-vacuity of the hypotheses used above
example : (scan (Cursor.ofRunes "SELECT 1".toList)).1.tok.isStringFamily = false := by decide
example : (Cursor.ofRunes ['a']).rest ≠ [] := by decide

end InfluxQL.C05

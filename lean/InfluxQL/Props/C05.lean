import InfluxQL.Lemmas.ScannerPos
import InfluxQL.Lemmas.Ring
import InfluxQL.Lemmas.ScanOps
import InfluxQL.Lemmas.ScanOpsEq
/-!
# C05 — the lexer partitions its input and reports exact positions

Model: `Cursor` (Model/Reader.lean) and `scan` (Model/Scanner.lean).
The delivered stream of a text is `stampRunes (foldCR text ++ [NUL])`: `foldCR`
is the CRLF / lone-CR folding, `stampRunes` attaches the reader's positions.
-/
namespace InfluxQL.C05
open InfluxQL Gen

/-! ## Reader positions -/

/-- Line/column bookkeeping stated on its own: a newline starts a new line, any other rune
advances the column. -/
def step (p : Pos) (c : Char) : Pos := if c = '\n' then ⟨p.line + 1, 0⟩ else ⟨p.line, p.char + 1⟩

/-- Position after a sequence of delivered runes, counted from `p`. -/
def posAfter (p : Pos) (pre : List Char) : Pos := pre.foldl step p

/-- **C05 (reader positions).** In NUL-free text the position stamped on a delivered rune is
the line/column reached by the runes delivered before it. -/
theorem reader_pos (pre : List Char) (c : Char) (post : List Char) (p : Pos)
    (h : ∀ x ∈ pre, x ≠ eofRune) :
    (stampRunes (pre ++ c :: post) p false)[pre.length]? = some (c, posAfter p pre) := by
  induction pre generalizing p with
  | nil => simp [stampRunes, posAfter]
  | cons x pre ih =>
    have hx : x ≠ eofRune := h x (by simp)
    have hx' : (x == eofRune) = false := by simpa using hx
    simp only [List.cons_append, stampRunes, hx', Bool.or_false, List.length_cons,
      List.getElem?_cons_succ]
    have : advance x p false = step p x := by simp [advance, step]
    rw [this, ih (step p x) (fun y hy => h y (by simp [hy]))]
    simp [posAfter]

theorem posAfter_append (p : Pos) (a b : List Char) : posAfter p (a ++ b) = posAfter (posAfter p a) b := by
  simp [posAfter, List.foldl_append]

/-- The line number is the number of line breaks delivered so far. -/
theorem posAfter_line (p : Pos) (pre : List Char) : (posAfter p pre).line = p.line + pre.count '\n' := by
  induction pre generalizing p with
  | nil => simp [posAfter]
  | cons x pre ih =>
    have : posAfter p (x :: pre) = posAfter (step p x) pre := rfl
    rw [this, ih]
    by_cases hx : x = '\n'
    · subst hx; simp [step]; omega
    · have hc : List.count '\n' (x :: pre) = List.count '\n' pre :=
        List.count_cons_of_ne (fun e => hx e)
      rw [hc]; simp [step, hx]

/-- Without a line break the column advances by one per rune. -/
theorem posAfter_char_no_newline (p : Pos) (pre : List Char) (h : '\n' ∉ pre) :
    (posAfter p pre).char = p.char + pre.length := by
  induction pre generalizing p with
  | nil => simp [posAfter]
  | cons x pre ih =>
    have hx : x ≠ '\n' := fun e => h (by simp [e])
    have : posAfter p (x :: pre) = posAfter (step p x) pre := rfl
    rw [this, ih _ (fun e => h (by simp [e]))]
    simp [step, hx]; omega

/-- The column is the number of runes since the last line break. -/
theorem posAfter_char_after_newline (p : Pos) (a b : List Char) (h : '\n' ∉ b) :
    (posAfter p (a ++ '\n' :: b)).char = b.length := by
  rw [posAfter_append]
  have : posAfter (posAfter p a) ('\n' :: b) = posAfter (step (posAfter p a) '\n') b := rfl
  rw [this, posAfter_char_no_newline _ _ h]
  simp [step]

/-- CRLF and a lone CR are each delivered as one line break; other runes are untouched. -/
theorem foldCR_crlf (t : List Char) : foldCR ('\r' :: '\n' :: t) = '\n' :: foldCR t := by simp [foldCR]
theorem foldCR_cr (c : Char) (t : List Char) (h : c ≠ '\n') : foldCR ('\r' :: c :: t) = '\n' :: foldCR (c :: t) := by
  simp [foldCR, h]
theorem foldCR_cr_end : foldCR ['\r'] = ['\n'] := by simp [foldCR]
theorem foldCR_other (c : Char) (t : List Char) (h : c ≠ '\r') : foldCR (c :: t) = c :: foldCR t := by
  cases t <;> simp [foldCR, h]

/-! ## Tiling, progress, termination -/

/-- **C05 (tiling).** After a `Scan` the remaining stream is a suffix of the previous one: the
runes a token covers are a contiguous block starting exactly where the previous token
ended — nothing is skipped and nothing is read twice. -/
theorem scan_tiles (r : Cursor) : (scan r).2.rest <:+ r.rest ∧ (scan r).2.fin = r.fin :=
  ⟨(scan_adv r).2.1, (scan_adv r).1⟩

/-- **C05 (progress).** While input remains every token covers at least one rune. -/
theorem scan_consumes (r : Cursor) (h : r.rest ≠ []) : (scan r).2.rest.length < r.rest.length :=
  scan_progress r h

/-- Scanning until EOF with a fuel bound. -/
def scanAll : Nat → Cursor → List Lexeme
  | 0, _ => []
  | fuel + 1, r =>
    if (scan r).1.tok = .EOF then [(scan r).1] else (scan r).1 :: scanAll fuel (scan r).2

/-- **C05 (termination).** Scanning terminates with EOF after at most one token per delivered
rune plus one: with that much fuel the token list ends in EOF and contains no earlier EOF. -/
theorem scanAll_ends_with_EOF (fuel : Nat) (r : Cursor) (h : r.rest.length < fuel) :
    ∃ toks last, scanAll fuel r = toks ++ [last] ∧ last.tok = .EOF ∧ ∀ t ∈ toks, t.tok ≠ .EOF := by
  induction fuel generalizing r with
  | zero => omega
  | succ fuel ih =>
    simp only [scanAll]
    by_cases he : (scan r).1.tok = .EOF
    · exact ⟨[], (scan r).1, by simp [he], he, by simp⟩
    · simp only [he, if_false]
      have hne : r.rest ≠ [] := fun hnil => he (scan_at_end r hnil)
      have := scan_progress r hne
      obtain ⟨toks, last, heq, hl, hall⟩ := ih (scan r).2 (by omega)
      refine ⟨(scan r).1 :: toks, last, by simp [heq], hl, ?_⟩
      intro t ht
      simp at ht
      rcases ht with rfl | ht
      · exact he
      · exact hall t ht

/-! ## Token positions -/

/-- **C05 (positions).** Every token outside the string family (STRING, BADSTRING, BADESCAPE)
is reported at the stamp of the first rune `Scan` reads for it, i.e. by `reader_pos` at the
line and column of its first character. -/
theorem tok_pos_exact (r : Cursor) (h : (scan r).1.tok.isStringFamily = false) :
    (scan r).1.pos = r.read.1.2 := by
  rcases scan_pos r with hp | hs
  · exact hp
  · rw [hs] at h; cases h

/-- What the code does for string literals: `unread(); _, pos = curr()` yields the position of
the rune delivered *before* the opening quote. -/
theorem string_pos_is_previous_rune (r : Cursor) (h : (scanString r).1.tok ≠ .BADESCAPE) :
    (scanString r).1.pos = r.prev.2 := by
  unfold scanString at h ⊢
  dsimp only at h ⊢
  split <;> simp_all

/-- **C05 fails for string literals on the current tree** (known finding, pinned by
`TestScanner_Scan_Multi`): in `a⏎ 'x'` the literal starts at line 1, char 1 but is reported
at line 1, char 0 — the position of the preceding blank. -/
theorem string_pos_counterexample :
    let r0 := Cursor.ofRunes ['a', '\n', ' ', '\'', 'x', '\'']
    let r1 := (scan r0).2          -- after `a`
    let r2 := (scan r1).2          -- after the whitespace
    (scan r2).1.tok = .STRING ∧ (scan r2).1.pos = ⟨1, 0⟩ ∧ r2.read.1 = ('\'', ⟨1, 1⟩) := by
  decide

/-- **C05 fails for NUL on the current tree** (known finding): NUL is the reader's EOF
sentinel, so `Scan` reports EOF while text remains. -/
theorem nul_counterexample :
    let r0 := Cursor.ofRunes [Char.ofNat 0, 'y']
    (scan r0).1.tok = .EOF ∧ (scan r0).2.rest.length = 2 := by
  decide

/-! ## The push-back rings (`reader.buf` / `reader.n`, `bufScanner.buf` / `bufScanner.n`)

`Model/Ring.lean` transcribes the two 3-slot rings of scanner.go (`read`/`unread`/`curr`,
`scanFunc`/`Unscan`/`curr`; slot count and function bodies regenerated / pinned by
`extract/gen_ring.go`), with the depth assertion of the `verif` build tag as `currChecked`. -/

/-- The slot counts read from the source are the ones the model is written for. -/
theorem gen_ring_slots : ringSlots = 3 ∧ tokenSlots = 3 := by decide

/-- **C05 (rings = unbounded history).** For any element type, any source, any sequence of
`read(next)` / `unread` / `curr` operations — each `read` with its own producer, as
`bufScanner.scanFunc` is called with `Scan` or `ScanRegex` — that the depth assertion lets through,
the 3-slot ring returns exactly the elements an unbounded history of everything delivered would
return. Push-back therefore never shows a stale or overwritten slot: no rune and no token is
delivered twice or lost by the rings. -/
theorem ring_is_history {α σ : Type} (z : α) (s : σ) (ops : List (Ring.Op α σ)) (outs : List α)
    (r' : Ring.Ring α σ) (hrun : (Ring.Ring.init z s).run ops = some (outs, r')) :
    (Ring.Hist.run z ops (Ring.Hist.init z s)).1 = outs :=
  (Ring.ring_refines_hist z ops _ _ (Ring.sim_init z s) outs r' hrun).1

/-- **C05 (when the assertion passes).** The checked ring gets through an operation sequence
exactly when at most two elements are pushed back whenever `curr()` runs (`depthOK`): the hook
in the implementation panics on precisely the sequences outside this theorem. -/
theorem ring_run_iff_depth {α σ : Type} (z : α) (s : σ) (ops : List (Ring.Op α σ)) :
    ((Ring.Ring.init z s).run ops).isSome = Ring.depthOK ops 0 :=
  Ring.ring_run_isSome ops (Ring.Ring.init z s)

/-- **C05 (the rune reader delivers the stamped stream).** The `j`-th rune `reader.read()` takes
from the underlying reader — with CR/CRLF folding, the position stamped before the rune, the column
frozen after the first NUL/EOF — is the `j`-th entry of the stream the pure cursor of the scanner
model walks over, for every text and every `j` (beyond the end: NUL at the final position). -/
theorem reader_delivers_stream (text : List Char) (j : Nat) :
    Ring.nthItem Ring.readerNext (Ring.src0 text) j = Ring.streamAt text j :=
  Ring.reader_items_streamAt text j

/-- **C05 (the reader's ring is pure look-ahead).** For every text and every sequence of
`read` / `unread` / `curr` calls that never pushes back more than was read and passes the depth
assertion, the reader with its 3-slot ring, position counters and sticky EOF returns exactly what
the look-ahead reading of the scanner model returns: `read` = the rune at the logical position
(then advance), `unread` = step back, `curr` = the rune before the position (the zero slot at the
start). This is what justifies modelling `read`/`unread` pairs as peeking. -/
theorem reader_ring_is_lookahead (text : List Char) (ops : List Ring.ROp)
    (outs : List (Char × Pos)) (r' : Ring.Ring (Char × Pos) Ring.RSrc)
    (hb : Ring.Balanced ops 0 = true)
    (hrun : (Ring.readerInit text).run (ops.map Ring.ROp.toOp) = some (outs, r')) :
    outs = Ring.idxRun text ops 0 := by
  have h1 := (Ring.ring_refines_hist Ring.zeroSlot (ops.map Ring.ROp.toOp) _ _
    (Ring.sim_init Ring.zeroSlot (Ring.src0 text)) outs r' hrun).1
  rw [← h1]
  exact Ring.hist_is_lookahead text ops _ 0 (Ring.win_init text) hb

/-- The depth bound is exact: with three runes pushed back the unchecked `curr()` of the code
returns the *last* rune read (slot `i`) where the history says the zero slot — the reason the hook
asserts `n < len(buf)`. -/
theorem ring_depth3_counterexample :
    let ops : List Ring.ROp := [.read, .read, .read, .unread, .unread, .unread]
    ∃ (outs : List (Char × Pos)) (r : Ring.Ring (Char × Pos) Ring.RSrc),
      (Ring.readerInit ['a', 'b', 'c']).run (ops.map Ring.ROp.toOp) = some (outs, r) ∧
      r.curr = ('c', ⟨0, 2⟩) ∧ r.currChecked = none ∧
      Ring.idxRun ['a', 'b', 'c'] (ops ++ [.curr]) 0 =
        [('a', ⟨0, 0⟩), ('b', ⟨0, 1⟩), ('c', ⟨0, 2⟩), Ring.zeroSlot] := by
  refine ⟨_, _, rfl, ?_, ?_, ?_⟩ <;> decide

/-! ## The scanner stays within the ring

`Model/ScanOps.lean` transcribes scanner.go (and the parser's `peekRune` / `peekComment`) at the
level of the calls `read()` / `unread()` / `curr()` they issue on the reader, line by line. -/

/-- **C05 (the scanner never leaves the ring).** For every text and every sequence of `Scan`,
`ScanRegex` and the parser's `peekRune` / `peekComment` calls, the `read` / `unread` / `curr`
operations issued on the reader never push back more than two runes when `curr()` runs (the depth
assertion of the hook can not fire) and never push back what was not read. -/
theorem scanner_pushback_within_ring (text : List Char) (fuel : Nat) (calls : List ScanOps.Call) :
    Ring.depthOK (((ScanOps.opCalls fuel calls).run text 0).1.map Ring.ROp.toOp) 0 = true ∧
    Ring.Balanced ((ScanOps.opCalls fuel calls).run text 0).1 0 = true := by
  have h := ScanOps.wp_sound text _ 0 0 _ (ScanOps.opCalls_safe text fuel calls 0 0 (by omega))
  exact ⟨h.2.1, h.1⟩

/-- **C05 (scanner on the ring as written = scanner on the pure stream).** Running the transcribed
scanner functions directly on the reader's 3-slot ring as written (`Ring.read readerNext`,
`Ring.unread`, `Ring.currChecked`, from `readerInit text`) never trips the depth assertion and
returns exactly the tokens / runes computed on the pure stream, where `read` is the rune at the
logical position, `unread` a step back and `curr` the rune before the position. -/
theorem scanner_on_ring_is_pure (text : List Char) (fuel : Nat) (calls : List ScanOps.Call) :
    ∃ r', (ScanOps.opCalls fuel calls).runRing (Ring.readerInit text) =
      some (((ScanOps.opCalls fuel calls).run text 0).2.1, r') := by
  obtain ⟨hd, hb⟩ := scanner_pushback_within_ring text fuel calls
  have hs := Ring.ring_run_isSome (((ScanOps.opCalls fuel calls).run text 0).1.map Ring.ROp.toOp)
    (Ring.readerInit text)
  rw [show (Ring.readerInit text).n = 0 from rfl, hd] at hs
  cases hrun : (Ring.readerInit text).run
      (((ScanOps.opCalls fuel calls).run text 0).1.map Ring.ROp.toOp) with
  | none => rw [hrun] at hs; cases hs
  | some res =>
    obtain ⟨outs, r'⟩ := res
    have ho := reader_ring_is_lookahead text _ outs r' hb hrun
    exact ⟨r', ScanOps.runRing_of_trace text _ 0 _ r' outs hrun ho⟩

/-- **C05 (`Scan` of the transcription = `scan` of the model).** Run on the pure stream from any
logical position `k` of any text, the operation-level `Scan` returns the lexeme of the pure-cursor
model and ends at the position where the model's cursor ends (fuel beyond the end of the text: no
loop runs out of it). -/
theorem scanner_ops_compute_scan (text : List Char) (fuel k : Nat) (h : text.length < fuel) :
    scan (ScanOps.curAt text k) =
      (((ScanOps.opScan fuel).run text k).2.1,
        ScanOps.curAt text ((ScanOps.opScan fuel).run text k).2.2) :=
  ScanOps.opScan_eq text fuel k (Nat.lt_of_le_of_lt (ScanOps.L_le text) h)

/-- The same for `ScanRegex` (`ScanDelimited` with its `ReadRune` / `UnreadRune` pass-through of
unknown escapes against the one-rune-at-a-time loop of the model). -/
theorem scanner_ops_compute_scanRegex (text : List Char) (fuel k : Nat) (h : text.length < fuel) :
    scanRegex (ScanOps.curAt text k) =
      (((ScanOps.opScanRegex fuel).run text k).2.1,
        ScanOps.curAt text ((ScanOps.opScanRegex fuel).run text k).2.2) :=
  ScanOps.opScanRegex_eq text fuel k (Nat.lt_of_le_of_lt (ScanOps.L_le text) h)

/-- **C05 (scanner + ring as written = pure-cursor model).** For every text and every sequence of
`Scan` / `ScanRegex` / `peekRune` / `peekComment` calls, the transcribed functions run on the
reader's 3-slot ring as written never trip the depth assertion and return exactly the tokens of
`scan` / `scanRegex` of `Model/Scanner.lean` (and the peeked runes) on the pure cursor. -/
theorem scanner_on_ring_is_model (text : List Char) (calls : List ScanOps.Call) :
    ∃ r', (ScanOps.opCalls (ScanOps.fuelFor text) calls).runRing (Ring.readerInit text) =
      some (ScanOps.pureCalls calls (Cursor.ofRunes text), r') := by
  obtain ⟨r', hr⟩ := scanner_on_ring_is_pure text (ScanOps.fuelFor text) calls
  refine ⟨r', ?_⟩
  rw [hr, ← ScanOps.curAt_zero]
  have := ScanOps.opCalls_eq text (ScanOps.fuelFor text)
    (Nat.lt_of_le_of_lt (ScanOps.L_le text) (by simp [ScanOps.fuelFor])) calls 0
  simp only [ScanOps.Prog.res] at this
  rw [this]

-- non-vacuity: `.5` after a peekComment reaches depth two and comes out as NUMBER
example : (ScanOps.pureCalls [.peekComment, .scan, .scan] (Cursor.ofRunes ['.', '5', '/', '/'])) =
    [.bool false, .tok ⟨.NUMBER, ⟨0, 0⟩, ['.', '5']⟩, .tok ⟨.DIV, ⟨0, 2⟩, []⟩] := by decide

-- non-vacuity: a CRLF text read with look-ahead two deep (read read unread unread read curr)
example : ∃ outs r', Ring.Balanced [.read, .read, .unread, .unread, .read, .curr] 0 = true ∧
    (Ring.readerInit ['x', '\r', '\n', 'y']).run
      ([Ring.ROp.read, .read, .unread, .unread, .read, .curr].map Ring.ROp.toOp) = some (outs, r') ∧
    outs = [('x', ⟨0, 0⟩), ('\n', ⟨0, 1⟩), ('x', ⟨0, 0⟩), ('x', ⟨0, 0⟩)] := by
  refine ⟨_, _, by decide, rfl, by decide⟩

-- non-vacuity of the hypotheses used above
example : (scan (Cursor.ofRunes "SELECT 1".toList)).1.tok.isStringFamily = false := by decide
example : (Cursor.ofRunes ['a']).rest ≠ [] := by decide

end InfluxQL.C05

import InfluxQL.Gen.Sites
import InfluxQL.Lemmas.Total
import InfluxQL.Lemmas.Neutral
import InfluxQL.Lemmas.TotalStmtTop
import InfluxQL.Lemmas.RingTok
/-!
# C04 — parsing is total (lexer, expression parser, statement parser)

Model: `scan` (structural recursion: it terminates by construction), the token plumbing and the
expression parser of `Model/ParserCore.lean`. Mutually recursive functions take a fuel
argument, `Fail.fuel` is "would not have terminated within the bound", `Fail.panic` marks the
`panic("unexpected literal")` site of `parseUnaryExpr`.

Measure (Lemmas/Total.lean): `mu s = |runes not yet scanned| + |pushed-back tokens other than EOF|`.
Ring invariant: `Good s = s.n ≤ |s.buf| ≤ 3` (never more tokens pushed back than the ring of three
remembers).

Statement level (Model/ParserStmt.lean; Lemmas/TotalStmt*.lean): the contract `Tot B m` — started
in any state satisfying the ring invariant with at most one token pushed back and measure `≤ B`,
`m` ends in such a state with a measure that has not grown, or fails with an ordinary parse error —
is closed under `>>=`/`if`/`match`, holds for every clause parser, for `parseSelectStatement` with
subqueries to any depth (induction on the fuel), for each of the 41 handlers of parse_tree.go, for
the descent through the generated dispatch tree, for `ParseStatement` and for the `;` loop of
`ParseQuery`.
-/
namespace InfluxQL.C04
open InfluxQL Gen

theorem wp_run_ok {α : Type} {m : P α} {s s' : PState} {a : α} {Q : α → PState → Prop} {E : Fail → Prop}
    (h : wp m s Q E) (hr : m.run s = .ok (a, s')) : Q a s' := by
  unfold wp at h; rw [hr] at h; exact h

theorem wp_run_error {α : Type} {m : P α} {s : PState} {e : Fail} {Q : α → PState → Prop} {E : Fail → Prop}
    (h : wp m s Q E) (hr : m.run s = .error e) : E e := by
  unfold wp at h; rw [hr] at h; exact h

/-! ## The lexer -/

/-- **C04 (lexer steps are linear).** `Scan` is a total function (structural recursion), and
every token other than EOF consumes at least one rune: `k` successive tokens that are not EOF
need `k ≤ |remaining runes|`. -/
theorem scan_steps_linear (k : Nat) (r : Cursor)
    (h : ∀ i, i < k → (scan (scanN i r)).1.tok ≠ .EOF) : (scanN k r).rest.length + k ≤ r.rest.length := by
  induction k generalizing r with
  | zero => exact Nat.le_refl _
  | succ k ih =>
    have h0 : (scan r).1.tok ≠ .EOF := h 0 (by omega)
    have hne : r.rest ≠ [] := fun hnil => h0 (scan_at_end r hnil)
    have hp := scan_progress r hne
    have := ih (scan r).2 (fun i hi => h (i + 1) (by omega))
    show (scanN k (scan r).2).rest.length + (k + 1) ≤ r.rest.length
    omega

/-- **C04 (EOF is sticky).** Once the stream is exhausted every further `Scan` returns EOF and
the stream stays exhausted. -/
theorem eof_sticky (r : Cursor) (h : r.rest = []) (k : Nat) :
    (scanN k r).rest = [] ∧ (scan (scanN k r)).1.tok = .EOF := by
  induction k generalizing r with
  | zero => exact ⟨h, scan_at_end r h⟩
  | succ k ih =>
    have h1 : (scan r).2.rest = [] := by
      have := (scan_adv r).length_le
      rw [h] at this
      exact List.length_eq_zero_iff.mp (by simpa using this)
    exact ih (scan r).2 h1

/-! ## Token plumbing -/

/-- **C04 (`ScanIgnoreWhitespace` terminates).** The loop bound `n + |rest| + 2` is never hit:
in every state satisfying the ring invariant `scanIW` returns a token, which is neither WS nor
COMMENT, and the resulting state again satisfies the invariant with at least one token of
history to un-scan. -/
theorem scanIW_fuel_suffices (s : PState) (hg : Good s) :
    ∃ lx s', scanIW.run s = .ok (lx, s') ∧ lx.tok ≠ .WS ∧ lx.tok ≠ .COMMENT ∧ Good s' ∧
      s'.n < s'.buf.length ∧ s'.n ≤ s.n - 1 ∧ mu s' ≤ mu s := by
  have h := scanIW_wp s hg
  cases hr : scanIW.run s with
  | error e => exact (wp_run_error h hr).elim
  | ok p =>
    obtain ⟨lx, s'⟩ := p
    obtain ⟨hd, h1, h2⟩ := wp_run_ok h hr
    exact ⟨lx, s', rfl, h1, h2, hd.good, hd.slack, hd.nle, hd.mu_le⟩

/-- **C04 (push-back depth, plumbing).** `Scan` never fails, lowers the push-back count
(`n' ≤ n - 1`), keeps the ring invariant and leaves history to un-scan; an `Unscan` directly after a
delivery keeps the invariant, and the next `Scan` re-delivers the same token. Two `Unscan`s are
covered after two deliveries (`s.n < |s.buf|` ⇒ afterwards `n' + 1 < |buf'|`). -/
theorem tokbuf_depth_plumbing (s : PState) (hg : Good s) :
    ∃ lx s', pscan.run s = .ok (lx, s') ∧ Good s' ∧ s'.n ≤ s.n - 1 ∧ s'.n < s'.buf.length ∧
      (s.n < s.buf.length → s'.n + 1 < s'.buf.length) ∧
      Good (unsc s') ∧ (unsc s').n ≤ max s.n 1 ∧ pscan.run (unsc s') = .ok (lx, s') := by
  have hd := rawNext_deliv s hg
  exact ⟨_, _, pscan_run s, hd.good, hd.nle, hd.slack, hd.slack2, hd.pushback.1.good, hd.pushback.2.1,
    hd.pushback.2.2⟩

/-! ## The expression parser -/

/-- Enough fuel for `parseExpr` in state `s`. -/
def FuelOK (F : Nat) (s : PState) : Prop := 2 * mu s + 4 ≤ F

/-- **C04 (push-back depth, expression parser).** Started with at most one token pushed back
(`ParseVarRef`: at most two) in a state satisfying the ring invariant, every function of the
expression parser ends — if it succeeds — in a state satisfying the invariant with at most one
token pushed back. Inside, the count reaches two only in the `IDENT` path of `parseUnaryExpr`
(two `Unscan`s after two `Scan`s), so the ring of three is never exceeded. -/
theorem tokbuf_depth (F : Nat) (s s' : PState) (hg : Good s) (hf : FuelOK F s) :
    (∀ e, s.n ≤ 1 → (parseExpr F).run s = .ok (e, s') → Good s' ∧ s'.n ≤ 1) ∧
    (∀ e, s.n ≤ 1 → (parseUnaryExpr F).run s = .ok (e, s') → Good s' ∧ s'.n ≤ 1) ∧
    (∀ e name, s.n ≤ 1 → (parseCall F name).run s = .ok (e, s') → Good s' ∧ s'.n ≤ 1) ∧
    (∀ e, s.n ≤ 2 → parseVarRef.run s = .ok (e, s') → Good s' ∧ s'.n ≤ 1) ∧
    (∀ e, s.n ≤ 1 → parseRegex.run s = .ok (e, s') → Good s' ∧ s'.n ≤ 1) ∧
    (∀ e, s.n ≤ 2 → parseSegmentedIdents.run s = .ok (e, s') → Good s' ∧ s'.n ≤ 1) := by
  obtain ⟨hE, _, hU, hC, _⟩ := expr_specs F
  unfold FuelOK at hf
  refine ⟨?_, ?_, ?_, ?_, ?_, ?_⟩
  · intro e hn hr
    have := wp_run_ok (hE s hg hn (by omega)) hr
    exact ⟨this.1.good, this.2.1⟩
  · intro e hn hr
    have := wp_run_ok (hU s hg hn (by omega)) hr
    exact ⟨this.1.good, this.2.1⟩
  · intro e name hn hr
    have := wp_run_ok (hC s name hg hn (by omega)) hr
    exact ⟨this.1.good, this.2.1⟩
  · intro e hn hr
    have := wp_run_ok (parseVarRef_wp s hg hn) hr
    exact ⟨this.1.good, this.2.2.1⟩
  · intro e hn hr
    have := wp_run_ok (parseRegex_wp s hg hn) hr
    exact ⟨this.1.good, this.2.1⟩
  · intro e hn hr
    have := wp_run_ok (parseSegmentedIdents_wp s hg hn) hr
    exact ⟨this.1.good, this.2.2⟩

/-- **C04 (the `panic` after a unary sign is unreachable).** `parseUnaryExpr` never returns the
panic, whatever the parameter map; and when the token it starts with is one of the five kinds
admitted after `+`/`-` (NUMBER, INTEGER, DURATIONVAL, `(`, IDENT — also when that token is the
substitution of a bound parameter), a successful result is one of the seven node kinds the
switch handles (number, integer, unsigned, duration, variable reference, call, parenthesis). -/
theorem unaryMinus_no_panic (F : Nat) (s : PState) (hg : Good s) (hn : s.n ≤ 1) (hf : FuelOK F s) :
    (∀ m, (parseUnaryExpr F).run s ≠ .error (.panic m)) ∧
    (∀ e s', (parseUnaryExpr F).run s = .ok (e, s') → S5 (tok0 s) → Kind7 e) := by
  have h := (expr_specs F).2.2.1 s hg hn (by unfold FuelOK at hf; omega)
  constructor
  · intro m hr
    exact wp_run_error h hr
  · intro e s' hr hs
    exact (wp_run_ok h hr).2.2.2 hs

/-- **C04 (the expression parser terminates within its fuel and does not panic).** In every
state satisfying the ring invariant with at most one token pushed back, with fuel above
`2 * mu s + 4`, `parseExpr`, `parseUnaryExpr` and `parseCall` return a result or an ordinary parse
error — never `Fail.fuel`, never a panic — and a success has consumed at least one token. -/
theorem parseExpr_fuel_suffices_state (F : Nat) (s : PState) (hg : Good s) (hn : s.n ≤ 1)
    (hf : FuelOK F s) :
    (match (parseExpr F).run s with
      | .ok (_, s') => mu s' + 1 ≤ mu s
      | .error f => f.isErr) ∧
    (match (parseUnaryExpr F).run s with
      | .ok (_, s') => mu s' + 1 ≤ mu s
      | .error f => f.isErr) ∧
    (∀ name, match (parseCall F name).run s with
      | .ok (_, s') => mu s' ≤ mu s
      | .error f => f.isErr) := by
  obtain ⟨hE, _, hU, hC, _⟩ := expr_specs F
  unfold FuelOK at hf
  refine ⟨?_, ?_, ?_⟩
  · have h := hE s hg hn (by omega)
    unfold wp at h
    split <;> simp_all
  · have h := hU s hg hn (by omega)
    unfold wp at h
    split <;> simp_all
  · intro name
    have h := hC s name hg hn (by omega)
    unfold wp at h
    split
    · rename_i hr; rw [hr] at h; exact h.1.mu_le
    · rename_i hr; rw [hr] at h; exact h

/-- **C04 (`ParseExpr` is total).** For every text, every parameter map and every lower-casing
table, `ParseExpr` with the fuel `4 * |text| + 100` returns an AST or an ordinary error: the fuel
is never exhausted (the number of recursive calls and loop iterations is linear in the input
length) and the panic site is never reached. -/
theorem parseExpr_fuel_suffices (text : Str) (params : List (Str × BoundValue)) (tbl : List (Char × Char)) :
    parseExprText text params tbl ≠ .error .fuel ∧
    ∀ m, parseExprText text params tbl ≠ .error (.panic m) := by
  have h := parseExprText_total text params tbl
  constructor
  · intro he; rw [he] at h; exact h
  · intro m he; rw [he] at h; exact h

/-! ## The statement parser -/

/-- **C04 (obligation on the generated dispatch tree).** From the root of the tree regenerated
from parse_tree.go every path reaches a leaf within `|tree| + 1` rounds — the number of rounds
`ParseStatement` grants its descent (the tree has no cycle and no dangling subtree index). -/
theorem gen_dispatch_depth : dispatchDepthOK (dispatch.length + 1) 0 = true := by
  decide +kernel

/-- **C04 (`ParseStatement` is total).** For every text, every parameter map and every
lower-casing table, `ParseStatement` with the fuel `4 * |text| + 100` returns a statement or an
ordinary error: never out of fuel (neither the expression/subquery recursion nor any loop of a
clause parser, nor the descent through the dispatch tree), never a panic. All 41 handlers of the
generated table are covered. -/
theorem parseStatement_fuel_suffices (text : Str) (params : List (Str × BoundValue))
    (tbl : List (Char × Char)) :
    parseStatementText text params tbl ≠ .error .fuel ∧
    ∀ m, parseStatementText text params tbl ≠ .error (.panic m) :=
  have h := parseStatementText_total gen_dispatch_depth text params tbl
  ⟨h.ne_fuel, h.ne_panic⟩

/-- **C04 (`ParseQuery` is total).** For every text, every parameter map and every lower-casing
table, `ParseQuery` with the fuel `4 * |text| + 100` and `n + |rest| + 2` rounds of its `;` loop
returns a list of statements or an ordinary error: never out of fuel, never a panic. -/
theorem parseQuery_fuel_suffices (text : Str) (params : List (Str × BoundValue))
    (tbl : List (Char × Char)) :
    parseQueryText text params tbl ≠ .error .fuel ∧
    ∀ m, parseQueryText text params tbl ≠ .error (.panic m) :=
  have h := parseQueryText_total gen_dispatch_depth text params tbl
  ⟨h.ne_fuel, h.ne_panic⟩

/-- The outcome of running `m` in `s`: a value in a state whose measure has not grown, with the
ring invariant and at most one token pushed back; or an ordinary parse error. -/
def Outcome {α : Type} (m : P α) (s : PState) : Prop :=
  match m.run s with
  | .ok (_, s') => Good s' ∧ s'.n ≤ 1 ∧ mu s' ≤ mu s ∧ s'.params = s.params
  | .error f => f.isErr

theorem outcome_of_tot {α : Type} {m : P α} {B : Nat} (h : Tot B m) {s : PState} (hs : Std B s) :
    Outcome m s := by
  have h1 := h s hs
  unfold wp at h1
  unfold Outcome
  cases hr : m.run s with
  | error e => rw [hr] at h1; exact h1
  | ok p =>
    obtain ⟨a, s'⟩ := p
    rw [hr] at h1
    exact ⟨h1.1.good, h1.2, h1.1.mu_le, h1.1.params⟩

/-- **C04 (linear step bound, statement level).** In every state satisfying the ring invariant with
at most one token pushed back, with fuel above `2 * mu s + 4` — `mu s` = runes not yet scanned +
pending tokens, so the number of recursive calls and loop iterations granted is linear in what is
left of the input — `ParseStatement`, `ParseQuery`, every handler of the dispatch table and
`parseSelectStatement` return a result (in a state with the ring invariant, at most one token
pushed back, and a measure that has not grown) or an ordinary parse error: never `Fail.fuel`,
never a panic. The loops of the clause parsers run on their own counters `n + |rest| + 2`
(`stmt_loops_linear`), the dispatch descent on `|tree| + 1`, the option loop of ALTER RETENTION
POLICY on 8. -/
theorem parseStatement_fuel_suffices_state (F : Nat) (s : PState) (hg : Good s) (hn : s.n ≤ 1)
    (hf : FuelOK F s) :
    Outcome (parseStatement F) s ∧ Outcome (parseQuery F) s ∧
    (∀ h, Outcome (runHandler F h) s) ∧ (∀ tr, Outcome (parseSelect F tr) s) := by
  unfold FuelOK at hf
  have hs : Std (mu s) s := ⟨hg, hn, Nat.le_refl _⟩
  have hF : 2 * mu s + 3 ≤ F := by omega
  exact ⟨outcome_of_tot (parseStatement_tot gen_dispatch_depth hF) hs,
    outcome_of_tot (parseQuery_tot gen_dispatch_depth hF) hs,
    fun h => outcome_of_tot (runHandler_tot hF h) hs,
    fun tr => outcome_of_tot (parseSelect_tot F _ tr hF) hs⟩

/-- **C04 (the loops of the clause parsers are linear).** Each list loop of the statement parser —
string lists, identifier lists, sort fields, dimensions, fields, sources (without and with
subqueries), the `;` loop — started with a round counter above the measure of the state
(`loopFuel = n + |rest| + 2` is) never exhausts it: every round that continues has consumed a `,`
(or a `;`, or a statement). The option loop of ALTER RETENTION POLICY stops after at most seven
rounds (six distinct options). -/
theorem stmt_loops_linear (F it : Nat) (s : PState) (hg : Good s) (hn : s.n ≤ 1) (hf : FuelOK F s)
    (hit : mu s + 1 ≤ it) :
    (∀ acc, Outcome (stringListLoop it acc) s) ∧ (∀ acc, Outcome (identListLoop it acc) s) ∧
    (∀ acc, Outcome (sortFieldsLoop it acc) s) ∧ (∀ acc, Outcome (dimLoop F it acc) s) ∧
    (∀ acc, Outcome (fieldsLoop F it acc) s) ∧ (∀ acc, Outcome (sourcesLoop none it acc) s) ∧
    (∀ acc, Outcome (sourcesLoop (some (parseSelect (F - 1) false)) it acc) s) ∧
    (∀ semi acc, Outcome (queryLoop F it semi acc) s) ∧ (∀ o, Outcome (alterLoop 8 [] o) s) := by
  unfold FuelOK at hf
  have hs : Std (mu s) s := ⟨hg, hn, Nat.le_refl _⟩
  refine ⟨fun acc => outcome_of_tot (stringListLoop_tot it _ acc hit) hs,
    fun acc => outcome_of_tot (identListLoop_tot it _ acc hit) hs,
    fun acc => outcome_of_tot (sortFieldsLoop_tot it _ acc hit) hs,
    fun acc => outcome_of_tot (dimLoop_tot it _ acc (by omega) hit) hs,
    fun acc => outcome_of_tot (fieldsLoop_tot it _ acc (by omega) hit) hs,
    fun acc => outcome_of_tot (sourcesLoop_tot none it _ acc SubOK.none hit) hs,
    fun acc => outcome_of_tot (sourcesLoop_tot _ it _ acc ?_ hit) hs,
    fun semi acc => outcome_of_tot (queryLoop_tot gen_dispatch_depth it _ semi acc (by omega) hit) hs,
    fun o => outcome_of_tot (alterLoop_tot 8 [] o (by decide)) hs⟩
  intro p hp hB
  cases hp
  exact parseSelect_tot _ _ _ (by omega)

/-- **C04 (push-back depth, statement parser).** Started with at most one token pushed back in a
state satisfying the ring invariant, every function of the statement parser ends — if it
succeeds — in a state satisfying the invariant with at most one token pushed back: `ParseQuery`,
`ParseStatement`, each handler, `parseSelectStatement`, and the clause parsers (`parseTokens`,
identifier and string lists, integers, durations, condition, dimensions, fill, time zone, ORDER BY,
fields, target, sources, the tag-key clause; segmented identifiers are in `tokbuf_depth`). Inside,
the count exceeds one only where two `Unscan`s follow each other: in the `IDENT` path of
`parseUnaryExpr` (two after two `Scan`s, `tokbuf_depth`) and on the error path of CREATE CONTINUOUS
QUERY (`cqFail_tot`: two after `parseSelectStatement` has left one token pushed back — the count
is 3, the size of the ring, and the function returns an error whatever token is re-delivered). -/
theorem stmt_tokbuf_depth (F : Nat) (s s' : PState) (hg : Good s) (hn : s.n ≤ 1) (hf : FuelOK F s) :
    (∀ r, (parseQuery F).run s = .ok (r, s') → Good s' ∧ s'.n ≤ 1) ∧
    (∀ r, (parseStatement F).run s = .ok (r, s') → Good s' ∧ s'.n ≤ 1) ∧
    (∀ h r, (runHandler F h).run s = .ok (r, s') → Good s' ∧ s'.n ≤ 1) ∧
    (∀ tr r, (parseSelect F tr).run s = .ok (r, s') → Good s' ∧ s'.n ≤ 1) ∧
    (∀ ts r, (parseTokens ts).run s = .ok (r, s') → Good s' ∧ s'.n ≤ 1) ∧
    (∀ r, parseIdentList.run s = .ok (r, s') → Good s' ∧ s'.n ≤ 1) ∧
    (∀ r, parseStringList.run s = .ok (r, s') → Good s' ∧ s'.n ≤ 1) ∧
    (∀ a b r, (parseIntRange a b).run s = .ok (r, s') → Good s' ∧ s'.n ≤ 1) ∧
    (∀ r, parseUInt64.run s = .ok (r, s') → Good s' ∧ s'.n ≤ 1) ∧
    (∀ r, parseDurationTok.run s = .ok (r, s') → Good s' ∧ s'.n ≤ 1) ∧
    (∀ t r, (parseOptTokInt t).run s = .ok (r, s') → Good s' ∧ s'.n ≤ 1) ∧
    (∀ r, (parseCondition F).run s = .ok (r, s') → Good s' ∧ s'.n ≤ 1) ∧
    (∀ r, (parseDimensions F).run s = .ok (r, s') → Good s' ∧ s'.n ≤ 1) ∧
    (∀ r, (parseFill F).run s = .ok (r, s') → Good s' ∧ s'.n ≤ 1) ∧
    (∀ r, (parseLocation F).run s = .ok (r, s') → Good s' ∧ s'.n ≤ 1) ∧
    (∀ r, parseOrderBy.run s = .ok (r, s') → Good s' ∧ s'.n ≤ 1) ∧
    (∀ r, (parseFields F).run s = .ok (r, s') → Good s' ∧ s'.n ≤ 1) ∧
    (∀ req r, (parseTarget req).run s = .ok (r, s') → Good s' ∧ s'.n ≤ 1) ∧
    (∀ r, parseSources.run s = .ok (r, s') → Good s' ∧ s'.n ≤ 1) ∧
    (∀ r, parseTagKeyExpr.run s = .ok (r, s') → Good s' ∧ s'.n ≤ 1) := by
  unfold FuelOK at hf
  have hs : Std (mu s) s := ⟨hg, hn, Nat.le_refl _⟩
  have hF : 2 * mu s + 3 ≤ F := by omega
  have hF2 : 2 * mu s + 2 ≤ F := by omega
  have key : ∀ {α : Type} {m : P α}, Tot (mu s) m → ∀ r, m.run s = .ok (r, s') → Good s' ∧ s'.n ≤ 1 := by
    intro α m h r hr
    have := wp_run_ok (h s hs) hr
    exact ⟨this.1.good, this.2⟩
  exact ⟨key (parseQuery_tot gen_dispatch_depth hF), key (parseStatement_tot gen_dispatch_depth hF),
    fun h => key (runHandler_tot hF h), fun tr => key (parseSelect_tot F _ tr hF),
    fun ts => key (parseTokens_tot ts), key parseIdentList_tot, key parseStringList_tot,
    fun a b => key (parseIntRange_tot a b), key parseUInt64_tot, key parseDurationTok_tot,
    fun t => key (parseOptTokInt_tot t), key (parseCondition_tot hF2), key (parseDimensions_tot hF2),
    key (parseFill_tot hF2), key (parseLocation_tot hF2), key parseOrderBy_tot, key (parseFields_tot hF2),
    fun req => key (parseTarget_tot req), key parseSources_tot, key parseTagKeyExpr_tot⟩

/-- **C04 (the rewind of CREATE CONTINUOUS QUERY stays within the ring).** The one place of the
statement parser where the push-back count exceeds two: after `parseSelectStatement` has returned
(with at most one token pushed back) the error path un-scans twice and scans again. The count is
then at most 3 — the number of slots of the ring (`curr()` indexes `(i - n + 3) % 3` after the
decrement, `n ≤ 2`: in range) — and that scan returns in any case (`ScanIgnoreWhitespace` needs no
invariant to terminate), after which the function returns an ordinary parse error. -/
theorem cq_rewind_within_ring (F : Nat) (s s' : PState) (r : SelectStmt) (hg : Good s) (hn : s.n ≤ 1)
    (hf : FuelOK F s) (hr : (parseSelect F true).run s = .ok (r, s')) :
    (unsc (unsc s')).n ≤ 3 ∧ (unsc (unsc s')).buf.length ≤ 3 ∧
    (∃ lx s'', scanIW.run (unsc (unsc s')) = .ok (lx, s'')) := by
  have h := ((stmt_tokbuf_depth F s s' hg hn hf).2.2.2.1 true r hr)
  refine ⟨by show s'.n + 1 + 1 ≤ 3; have := h.2; omega, h.1.hb, ?_⟩
  have ha := scanIW_any (unsc (unsc s'))
  cases hrun : scanIW.run (unsc (unsc s')) with
  | error e => exact (wp_run_error ha hrun).elim
  | ok p => exact ⟨p.1, p.2, rfl⟩

/-! ## Inventory of panic sites (regenerated from parser.go and scanner.go) -/

/-- **C04 (panic-site inventory).** The places where the Go runtime could panic in parser.go and
scanner.go — explicit `panic`, unchecked type assertions, non-constant index/slice expressions
not guarded by a `range`, integer division by a non-constant — are exactly the reviewed ones
below. A new site in the source makes this obligation fail until it is reviewed. -/
theorem gen_sites_reviewed :
    panicSites = [
      -- `MustParse*` panic by contract on a parse error; not reachable from ParseQuery / ParseStatement / ParseExpr
      ("MustParseStatement".toList, "panic".toList, "panic(err.Error())".toList),
      ("MustParseExpr".toList, "panic".toList, "panic(err.Error())".toList),
      -- `tokens` is the array `[...]string` indexed by every Token; here `tok` is ALL or ANY
      ("Parser.parseCreateSubscriptionStatement".toList, "index".toList, "tokens[tok]".toList),
      -- `rhs` was assigned from `p.parseRegex()`, whose static result type is `*RegexLiteral`: the
      -- interface always holds that dynamic type (possibly a nil pointer), the assertion cannot fail
      ("Parser.ParseExpr".toList, "assert".toList, "rhs.(*RegexLiteral)".toList),
      -- unreachable: `unaryMinus_no_panic`
      ("Parser.parseUnaryExpr".toList, "panic".toList,
        "panic(fmt.Sprintf(\"unexpected literal: %T\", lit))".toList),
      -- `ParseDuration`: every access is guarded by `i < len(a)` / `i+1 < len(a)` in the loop
      -- conditions (modelled as structural recursion over the runes in Model/Duration.lean, C08);
      -- `mult` is one of the non-zero unit constants
      ("ParseDuration".toList, "index".toList, "a[i]".toList),
      ("ParseDuration".toList, "index".toList, "a[i]".toList),
      ("ParseDuration".toList, "slice".toList, "a[start:i]".toList),
      ("ParseDuration".toList, "index".toList, "a[i]".toList),
      ("ParseDuration".toList, "index".toList, "a[i]".toList),
      ("ParseDuration".toList, "index".toList, "a[i+1]".toList),
      ("ParseDuration".toList, "slice".toList, "a[i : i+2]".toList),
      ("ParseDuration".toList, "index".toList, "a[i+1]".toList),
      ("ParseDuration".toList, "slice".toList, "a[i : i+2]".toList),
      ("ParseDuration".toList, "div".toList, "(math.MaxInt64-int64(d))/int64(mult)".toList),
      -- `tokens` array indexed by a Token constant taken from the caller's literal list
      ("Parser.parseTokens".toList, "index".toList, "tokens[expected]".toList),
      -- the token ring: `s.i` is kept in 0..2 by `% len(s.buf)`; `curr` indexes
      -- `(i - n + 3) % 3`, non-negative because `n ≤ 2` (`tokbuf_depth`; asserted by the verif hook)
      ("bufScanner.scanFunc".toList, "index".toList, "s.buf[s.i]".toList),
      ("bufScanner.curr".toList, "index".toList, "s.buf[(s.i-s.n+len(s.buf))%len(s.buf)]".toList),
      -- the rune ring, same shape; the scanner unreads at most 2 runes (pure-cursor model of C05;
      -- asserted by the verif hook on every correspondence run)
      ("reader.read".toList, "index".toList, "r.buf[r.i]".toList),
      ("reader.curr".toList, "index".toList, "r.buf[i]".toList)] := by
  decide +kernel

-- non-vacuity: the hypotheses hold for the initial state of any text
example (text : Str) : Good (PState.init text [] []) ∧ (PState.init text [] []).n ≤ 1 ∧
    FuelOK (fuelFor text) (PState.init text [] []) := by
  obtain ⟨hg, hn, hmu⟩ := init_good text [] []
  exact ⟨hg, by omega, by unfold FuelOK fuelFor; omega⟩

-- non-vacuity (statement level): the model parses concrete statements — a subquery, a statement of
-- the SHOW family, two statements separated by `;` — with the fuel of the theorems
example : (match parseStatementText
      ['S','E','L','E','C','T',' ','a',' ','F','R','O','M',' ','(','S','E','L','E','C','T',' ','b',' ',
       'F','R','O','M',' ','m',')',' ','W','H','E','R','E',' ','a','>','1'] [] [] with
    | .ok (.select _) => true
    | _ => false) = true := by decide +kernel

example : (match parseQueryText
      ['S','H','O','W',' ','D','A','T','A','B','A','S','E','S',';','D','R','O','P',' ','U','S','E','R',' ','u'] [] [] with
    | .ok [.showDatabases, .dropUser _] => true
    | _ => false) = true := by decide +kernel

-- … and rejects a malformed one with an ordinary error
example : (match parseStatementText ['S','H','O','W',' ','T','A','G',' ','(','('] [] [] with
    | .error (.err _) => true
    | _ => false) = true := by decide +kernel

-- the theorems instantiated on concrete texts
example := parseStatement_fuel_suffices
  "SELECT mean(v) FROM (SELECT v FROM m) GROUP BY time(1m) fill(0)".toList [] []
example := parseQuery_fuel_suffices
  "CREATE CONTINUOUS QUERY q ON d BEGIN SELECT max(v) INTO t FROM m END;;".toList [] []

-- non-vacuity of the state-level hypotheses (statement level): the initial state of any text
example (text : Str) (params : List (Str × BoundValue)) :
    Outcome (parseQuery (fuelFor text)) (PState.init text params []) := by
  obtain ⟨hg, hn, hmu⟩ := init_good text params []
  exact (parseStatement_fuel_suffices_state (fuelFor text) _ hg (by omega)
    (by unfold FuelOK fuelFor; omega)).2.1

/-! ## The token ring of `bufScanner` (state `bufScanner.buf` / `bufScanner.n`) -/

/-- **C04 (the parser model's token buffer is the ring of the code).** `Model/Ring.lean` transcribes
`bufScanner.scanFunc` / `Unscan` / `curr` with their 3-slot array (slot count and bodies regenerated
/ pinned by `extract/gen_ring.go`; `currChecked` is the `verif` assertion `n < len(buf)`). For every
text, parameter map and sequence of `Parser.Scan` / `Parser.ScanRegex` / `Parser.Unscan` calls that the
assertion lets through, the parser model — which keeps "the last three tokens and a push-back count" —
returns exactly the tokens that ring returns (followed by the bound-parameter substitution of
`Parser.scan`). Together with `ring_is_history` (C05) no token is lost, duplicated or read from a stale
slot by push-back, whatever the parser does within the depth the hook asserts. -/
theorem parser_token_buffer_is_ring (text : Str) (params : List (Str × BoundValue))
    (tbl : List (Char × Char)) (ops : List Ring.TOp) (outs : List Lexeme)
    (r' : Ring.Ring Lexeme Cursor)
    (hrun : (Ring.Ring.init zeroLexeme (Cursor.ofRunes text)).run (ops.map Ring.TOp.toOp) = some (outs, r')) :
    ∃ s', Ring.runTok ops (PState.init text params tbl) =
      some (outs.map (Ring.substParam params), s') :=
  Ring.tok_run_matches_ring ops _ _ (PState.init text params tbl)
    (Ring.sim_init zeroLexeme (Cursor.ofRunes text))
    (Ring.tokRel_init (Cursor.ofRunes text) params tbl) outs r' hrun

-- non-vacuity: `a b` scanned, pushed back twice, scanned again
example : ∃ outs r', (Ring.Ring.init zeroLexeme (Cursor.ofRunes "a b".toList)).run
    ([Ring.TOp.scan, .scan, .unscan, .unscan, .scan].map Ring.TOp.toOp) = some (outs, r') ∧
    outs.map (·.lit) = ["a".toList, " ".toList, "a".toList] := ⟨_, _, rfl, by decide⟩

end InfluxQL.C04

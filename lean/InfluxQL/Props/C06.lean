import InfluxQL.Lemmas.Quote
import InfluxQL.Lemmas.QuoteConv
import InfluxQL.Lemmas.QuoteSpell
import InfluxQL.Lemmas.Segmented
/-!
# C06 — quoting helpers invert the lexer and cannot be broken out of

Model: `quoteString`, `quoteIdent`, `identNeedsQuotes` (Model/Quote.lean) over the
regenerated replacer tables, and the scanner model. "Delivered form" = what the reader hands
the scanner (`foldCR`: CR and CRLF arrive as LF).
-/
namespace InfluxQL.C06
open InfluxQL Gen

/-! ## Obligations on the regenerated tables -/

/-- Both replacers escape exactly newline, backslash and their own quote character. -/
theorem gen_replacers :
    qsReplacer = [(['\n'], ['\\', 'n']), (['\\'], ['\\', '\\']), (['\''], ['\\', '\''])] ∧
    qiReplacer = [(['\n'], ['\\', 'n']), (['\\'], ['\\', '\\']), (['"'], ['\\', '"'])] := by decide

/-- Delivered form of `QuoteString(s)` followed by `k`. -/
theorem quoteString_delivered (s k : List Char) :
    foldCR (quoteString s ++ k) = '\'' :: (s.flatMap (escF '\'') ++ '\'' :: foldCR k) := by
  rw [quoteString_eq]
  have h := foldCR_escaped '\'' (by decide) s k
  simp only [List.cons_append, List.append_assoc, List.nil_append]
  rw [foldCR_cons_of_ne _ _ (by decide), h]

/-! ## Strings -/

/-- **C06 (strings).** For every expressible `s` (no NUL, no CR), wherever the scanner stands
before the delivered form of `QuoteString(s)` followed by any text `k`, it returns one STRING
token with value `s` and stops exactly before `k`. -/
theorem scan_quoteString (r : Cursor) (s k tail : List Char) (hs : Expressible s)
    (h : r.rest.map Prod.fst = foldCR (quoteString s ++ k) ++ tail) :
    (scan r).1.tok = .STRING ∧ (scan r).1.lit = s ∧ (scan r).2.rest.map Prod.fst = foldCR k ++ tail := by
  rw [quoteString_delivered] at h
  simp only [List.cons_append, List.append_assoc] at h
  rcases scan_quotedString r s (foldCR k ++ tail) h with ⟨_, h1, h2, h3⟩ | ⟨hne, _⟩
  · exact ⟨h1, h2, h3⟩
  · exact absurd hs hne

/-- **C06 (containment).** For *every* `s` whatsoever the quoted value is one literal that ends
exactly at its closing quote, or a bad-string token (hence a parse error): it never ends early
and never absorbs the text that follows. -/
theorem quoteString_contained (r : Cursor) (s k tail : List Char)
    (h : r.rest.map Prod.fst = foldCR (quoteString s ++ k) ++ tail) :
    ((scan r).1.tok = .STRING ∧ (scan r).1.lit = s ∧ (scan r).2.rest.map Prod.fst = foldCR k ++ tail) ∨
    (scan r).1.tok = .BADSTRING := by
  rw [quoteString_delivered] at h
  simp only [List.cons_append, List.append_assoc] at h
  rcases scan_quotedString r s (foldCR k ++ tail) h with ⟨_, h1, h2, h3⟩ | ⟨_, hb⟩
  · exact Or.inl ⟨h1, h2, h3⟩
  · exact Or.inr hb

/-- At the start of a text. -/
theorem scan_quoteString_text (s k : List Char) (hs : Expressible s) :
    let r := Cursor.ofRunes (quoteString s ++ k)
    (scan r).1.tok = .STRING ∧ (scan r).1.lit = s ∧ (scan r).2.rest.map Prod.fst = foldCR k ++ [eofRune] := by
  intro r
  exact scan_quoteString r s k [eofRune] hs (by simp [r, Cursor.ofRunes, stampRunes_map_fst])

/-! ## Identifiers -/

/-- **C06 (quoted identifiers).** The double-quoted form of any expressible name scans as one
identifier with that name and stops exactly after the closing quote; for an arbitrary name it
is that identifier or a bad-string token. -/
theorem scan_quotedIdent_contained (r : Cursor) (s k tail : List Char)
    (h : r.rest.map Prod.fst = foldCR ('"' :: (s.flatMap (esc '"') ++ '"' :: k)) ++ tail) :
    (Expressible s ∧ (scan r).1.tok = .IDENT ∧ (scan r).1.lit = s ∧
        (scan r).2.rest.map Prod.fst = foldCR k ++ tail) ∨
    (¬ Expressible s ∧ (scan r).1.tok = .BADSTRING) := by
  rw [foldCR_cons_of_ne _ _ (by decide), foldCR_escaped '"' (by decide) s k] at h
  simp only [List.cons_append, List.append_assoc] at h
  exact scan_quotedIdent r s (foldCR k ++ tail) h

/-- **C06 (`IdentNeedsQuotes`, soundness of `false`).** For non-empty `s`, if `IdentNeedsQuotes(s)`
is false then `s` written bare, followed by any character that cannot continue an identifier,
scans as the single identifier `s` — and `QuoteIdent(s)` is that bare spelling. -/
theorem bare_ident_scans (r : Cursor) (s : List Char) (x : Char) (t : List Char) (hs : s ≠ [])
    (hn : identNeedsQuotes s = false) (h : r.rest.map Prod.fst = s ++ x :: t)
    (hx : isIdentChar x = false) (hxq : x ≠ '"') (hxe : x ≠ eofRune) :
    quoteIdent [s] = s ∧
    (scan r).1.tok = .IDENT ∧ (scan r).1.lit = s ∧ (scan r).2.rest.map Prod.fst = x :: t := by
  refine ⟨?_, scan_bareIdent r s x t hs hn h hx hxq hxe⟩
  obtain ⟨_, c, tl, rfl, hc, htl⟩ := (identNeedsQuotes_false_iff s hs).mp hn
  rw [quoteIdent_single]
  have : ((c :: tl) == []) = false := rfl
  simp only [hn, this, Bool.or_false, Bool.false_eq_true, if_false]
  apply esc_identChars
  intro y hy
  simp at hy
  rcases hy with rfl | hy
  · exact (isIdentFirstChar_facts hc).2.2.1
  · exact htl y hy

/-- **C06 (`IdentNeedsQuotes`, exactness).** For every non-empty expressible `s` and every
separating follower `x` (a character that can neither continue an identifier nor open a quoted
one, and is not NUL): `IdentNeedsQuotes(s)` is false *exactly when* `s` written bare scans as the
single identifier `s` covering exactly the runes of `s`. -/
theorem identNeedsQuotes_iff (r : Cursor) (s : List Char) (x : Char) (t : List Char) (hs : s ≠ [])
    (hex : Expressible s) (h : r.rest.map Prod.fst = s ++ x :: t)
    (hx : isIdentChar x = false) (hxq : x ≠ '"') (hxe : x ≠ eofRune) :
    identNeedsQuotes s = false ↔
      ((scan r).1.tok = .IDENT ∧ (scan r).1.lit = s ∧ (scan r).2.rest.map Prod.fst = x :: t) := by
  constructor
  · intro hn
    exact scan_bareIdent r s x t hs hn h hx hxq hxe
  · rintro ⟨h1, h2, h3⟩
    have hlen : (scan r).2.rest.length = t.length + 1 := by
      have := congrArg List.length h3
      simpa using this
    exact scan_ident_implies_no_quotes r s x t hs hex h hx hxq hxe h1 h2 hlen

/-- Keywords always need quotes (every generated keyword, in its canonical lower-case spelling). -/
theorem keywords_need_quotes : ∀ p ∈ keywords, identNeedsQuotes p.1 = true := by decide +kernel

-- non-vacuity
example : Expressible "it's a \\ test\n".toList := by decide
example : identNeedsQuotes "cpu_load".toList = false ∧ identNeedsQuotes "select".toList = true ∧
    identNeedsQuotes "1a".toList = true ∧ identNeedsQuotes "a b".toList = true := by decide

/-! ## Multi-part names `database.policy.measurement`

`parseSegmentedIdents` (parser.go) reads `ident ( "." ident? )*`: after every DOT token it looks at the
next *rune* — another `.` means an empty segment. Vocabulary (Lemmas/StmtPieces.lean, Lemmas/Segmented.lean):
`s.Before k` / `s.Around k`: the parser stands before the runes `k` (possibly with `k`'s first significant
token pushed back); `Gap pre`: `pre` is nothing or one blank; `IdentEnd last k`: `k` cannot continue the
last segment when that is written bare; `SegEnd k`: the first raw token of `k` is no DOT (white space, the
end of the input, `,` `)` `;` `=` a keyword … — `SegEnd.ws`, `SegEnd.eof`, `SegEnd.of_scansAs`);
`s'.AfterLook k`: the parser stands before `k` after `Scan` + `Unscan` of `k`'s first raw token, which is
how `parseSegmentedIdents` returns. -/

/-- **C06 (what `QuoteIdent` writes for two and three segments).** Every segment but the last is put
in double quotes whether it needs them or not; an empty first or last segment is written `""`; an
empty **middle** segment is written as *nothing*: `QuoteIdent("db", "", "m")` = `"db"..m`. -/
theorem quoteIdent_segments (a b c : Str) :
    quoteIdent [a, b] = dq a ++ '.' :: quoteIdent [b] ∧
    quoteIdent [a, b, c] = dq a ++ '.' :: ((if b = [] then [] else dq b) ++ '.' :: quoteIdent [c]) := by
  rw [quoteIdent_two, quoteIdent_three]
  simp [dotted]

/-- **C06 (multi-part names).** For every list of one, two or three expressible segments
(`init ++ [last]`, `init` of length ≤ 2; any of them may be empty, in particular the middle one):
from a state standing before `QuoteIdent(segments…)` followed by `k` (after an optional blank),
`parseSegmentedIdents` returns exactly those segments and stands before `k` after its look-ahead of one
raw token. Consequently `ScanIgnoreWhitespace` continues as from a state before `k`, and when `k`
starts with a significant token the state is `Around k`. -/
theorem segmented_quote_parse (s : PState) (pre : Str) (init : List Str) (last k : Str) (hpre : Gap pre)
    (hlen : init.length ≤ 2) (hex : ∀ x ∈ init ++ [last], Expressible x)
    (hlast : IdentEnd last k) (hk : SegEnd k) (hs : s.Around (pre ++ (quoteIdent (init ++ [last]) ++ k))) :
    ∃ s', parseSegmentedIdents.run s = .ok (init ++ [last], s') ∧ s'.AfterLook k ∧
      (∃ s0, s0.Before k ∧ scanIW.run s' = scanIW.run s0) ∧ (SigNext k → s'.Around k) := by
  have hL : SegSpelled last (quoteIdent [last]) (dotted [] ++ k) := segSpelled_quoteIdent _ _ hlast
  have core : ∃ s', parseSegmentedIdents.run s = .ok (init ++ [last], s') ∧ s'.AfterLook k := by
    match init, hlen with
    | [], _ =>
      exact parseSegmentedIdents_spelled s pre last (quoteIdent [last]) [] [] k hpre
        (by simpa using hex) hL trivial (by simp) hk (by simpa [dotted] using hs)
    | [a], _ =>
      rw [show [a] ++ [last] = [a, last] from rfl, quoteIdent_two] at hs
      exact parseSegmentedIdents_spelled s pre a (dq a) [last] [quoteIdent [last]] k hpre
        (by simpa using hex) (Or.inl rfl) ⟨Or.inl hL, trivial⟩ (by simp) hk (by simpa [List.append_assoc] using hs)
    | [a, b], _ =>
      rw [show [a, b] ++ [last] = [a, b, last] from rfl, quoteIdent_three] at hs
      refine parseSegmentedIdents_spelled s pre a (dq a) [b, last] [if b = [] then [] else dq b, quoteIdent [last]]
        k hpre (by simpa using hex) (Or.inl rfl) ⟨?_, Or.inl hL, trivial⟩ (by simp) hk
        (by simpa [List.append_assoc] using hs)
      by_cases hb : b = []
      · exact Or.inr ⟨hb, by simp [hb], by simp⟩
      · exact Or.inl (Or.inl (by simp [hb]))
    | _ :: _ :: _ :: _, h => simp at h
  obtain ⟨s', h1, h2⟩ := core
  exact ⟨s', h1, h2, h2.scanIW_eq, h2.around⟩

/-- The limit of three is the parser's: `QuoteIdent` accepts any number of segments, four are rejected
(`too many segments in "a"."b"."c".d`). -/
theorem segmented_four_rejected :
    quoteIdent ["a".toList, "b".toList, "c".toList, "d".toList] = "\"a\".\"b\".\"c\".d".toList ∧
    (match parseSegmentedIdents.run (PState.init "\"a\".\"b\".\"c\".d".toList [] []) with
     | .error (.err (.at msg _)) => msg == "too many segments in \"a\".\"b\".\"c\".d".toList
     | _ => false) = true := by
  refine ⟨?_, ?_⟩ <;> decide +kernel

/-- **C06 (multi-part names reach the AST slot by slot).** `Measurement.String()` writes
`QuoteIdent(Database) "." QuoteIdent(RetentionPolicy) "." QuoteIdent(Name)`, leaving out what is
empty (`db..m`, `rp.m`, `m`). For every measurement with a name (all three parts expressible, no system
iterator) `parseSource` — with or without sub-queries allowed — on that text followed by `k` returns
the measurement whose Database / RetentionPolicy / Name are exactly the three parts, in all four
shapes, and stands before `k` as `parseSegmentedIdents` leaves it.

`_partial`: `m.name ≠ []` is required. A measurement without a name prints nothing after the last dot
(`a.b.`), or a regular expression when it has one (covered with the statements, C02); this is the
recorded finding `empty-identifier-not-printed` (notes/C02.md); witness
`measurement_empty_name_counterexample`. -/
theorem measurement_print_parse_partial (sub : Option (P SelectStmt)) (s : PState) (pre : Str) (m : Measurement)
    (k : Str) (hpre : Gap pre) (hname : m.name ≠ []) (hsys : m.systemIterator = [])
    (hdb : Expressible m.database) (hrp : Expressible m.retentionPolicy) (hnm : Expressible m.name)
    (hlast : IdentEnd m.name k) (hk : SegEnd k) (hs : s.Around (pre ++ (m.print ++ k))) :
    ∃ s', (parseSourceWith sub).run s =
        .ok (.measurement { database := m.database, retentionPolicy := m.retentionPolicy, name := m.name }, s') ∧
      s'.AfterLook k ∧ (∃ s0, s0.Before k ∧ scanIW.run s' = scanIW.run s0) ∧ (SigNext k → s'.Around k) := by
  obtain ⟨s', h1, h2⟩ := parseSource_print sub s pre m k hpre hname hsys hdb hrp hnm hlast hk hs
  exact ⟨s', h1, h2, h2.scanIW_eq, h2.around⟩

/-- **C06 (multi-part names in `INTO`).** `Target.String()` = `INTO ` + `Measurement.String()`: for a named
measurement, followed by a blank and a rune `c` that is neither white space, NUL nor `:` (in a statement:
` FROM …`), `parseTarget` returns the target with Database / RetentionPolicy / Name = the three parts. The
hypothesis on `c` is real: after `parseSegmentedIdents`, `parseTarget` looks at the *rune reader* for the
`:` of `:MEASUREMENT`, and the reader stands behind the pushed-back blank. `_partial` for the same reason
as `measurement_print_parse_partial` (`m.name ≠ []`; a target without a name prints `db.rp.:MEASUREMENT`,
which is a different branch of the loop). -/
theorem target_print_parse_partial (required : Bool) (s : PState) (m : Measurement) (c : Char) (t : Str)
    (hname : m.name ≠ []) (hsys : m.systemIterator = [])
    (hdb : Expressible m.database) (hrp : Expressible m.retentionPolicy) (hnm : Expressible m.name)
    (hc : isWhitespace c = false) (hce : c ≠ eofRune) (hcc : c ≠ ':')
    (hs : s.Around (' ' :: (printTarget m ++ ' ' :: c :: t))) :
    ∃ s', (parseTarget required).run s =
        .ok (some { database := m.database, retentionPolicy := m.retentionPolicy, name := m.name, isTarget := true },
          s') ∧ s'.AfterLook (' ' :: c :: t) :=
  parseTarget_print required s m c t hname hsys hdb hrp hnm hc hce hcc hs

/-- Why `m.name ≠ []` is needed: the measurement with database `a`, policy `b` and an empty name (the
parser produces it for `a.b.""`) prints as `a.b.`, and that text is rejected (`found EOF, expected
identifier`); likewise `a..` for an empty policy and name. -/
theorem measurement_empty_name_counterexample :
    Measurement.print { database := "a".toList, retentionPolicy := "b".toList, name := [] } = "a.b.".toList ∧
    (match (parseSourceWith none).run (PState.init "a.b.".toList [] []) with
     | .error _ => true
     | .ok _ => false) = true ∧
    Measurement.print { database := "a".toList, name := [] } = "a..".toList ∧
    (match (parseSourceWith none).run (PState.init "a..".toList [] []) with
     | .error _ => true
     | .ok _ => false) = true := by
  refine ⟨?_, ?_, ?_, ?_⟩ <;> decide +kernel

-- non-vacuity: the three spellings asked for, through the theorems and by evaluation
example : quoteIdent ["my db".toList, [], "cpu load".toList] = "\"my db\"..\"cpu load\"".toList ∧
    quoteIdent ["a".toList, "b".toList, "c".toList] = "\"a\".\"b\".c".toList ∧
    quoteIdent ["db".toList, "rp".toList, "x.y".toList] = "\"db\".\"rp\".\"x.y\"".toList ∧
    quoteIdent [[], [], []] = "\"\"..\"\"".toList := by decide +kernel

example : ∃ s', parseSegmentedIdents.run (PState.init "\"my db\"..\"cpu load\"".toList [] []) =
    .ok (["my db".toList, [], "cpu load".toList], s') := by
  have e : foldCR "\"my db\"..\"cpu load\"".toList ++ [eofRune] =
      [] ++ (quoteIdent (["my db".toList, []] ++ ["cpu load".toList]) ++ [eofRune]) := by decide +kernel
  obtain ⟨s', h, _⟩ := segmented_quote_parse (PState.init "\"my db\"..\"cpu load\"".toList [] []) []
    ["my db".toList, []] "cpu load".toList [eofRune] Gap.none (by decide) (by decide) (Or.inl (by decide))
    SegEnd.eof (e ▸ (PState.init_before _ [] []).around)
  exact ⟨s', h⟩

example : Measurement.print { database := "a".toList, retentionPolicy := "b".toList, name := "c".toList } =
      "a.b.c".toList ∧
    Measurement.print { database := "db".toList, retentionPolicy := "rp".toList, name := "x.y".toList } =
      "db.rp.\"x.y\"".toList ∧
    Measurement.print { database := "my db".toList, name := "cpu load".toList } =
      "\"my db\"..\"cpu load\"".toList := by decide +kernel

example : ∃ s', (parseSourceWith none).run (PState.init " db.rp.\"x.y\" WHERE".toList [] []) =
    .ok (.measurement { database := "db".toList, retentionPolicy := "rp".toList, name := "x.y".toList }, s') := by
  have e : foldCR " db.rp.\"x.y\" WHERE".toList ++ [eofRune] =
      [' '] ++ (Measurement.print { database := "db".toList, retentionPolicy := "rp".toList, name := "x.y".toList } ++
        (' ' :: "WHERE".toList ++ [eofRune])) := by decide +kernel
  obtain ⟨s', h, _⟩ := measurement_print_parse_partial none (PState.init " db.rp.\"x.y\" WHERE".toList [] []) [' ']
    { database := "db".toList, retentionPolicy := "rp".toList, name := "x.y".toList }
    (' ' :: "WHERE".toList ++ [eofRune]) Gap.blank (by decide) rfl (by decide) (by decide) (by decide)
    (Or.inl (by decide)) (SegEnd.ws ' ' _ (by decide)) (e ▸ (PState.init_before _ [] []).around)
  exact ⟨s', h⟩

example : ∃ s', (parseSourceWith none).run (PState.init "a.b.c".toList [] []) =
    .ok (.measurement { database := "a".toList, retentionPolicy := "b".toList, name := "c".toList }, s') := by
  have e : foldCR "a.b.c".toList ++ [eofRune] =
      [] ++ (Measurement.print { database := "a".toList, retentionPolicy := "b".toList, name := "c".toList } ++
        [eofRune]) := by decide +kernel
  obtain ⟨s', h, _⟩ := measurement_print_parse_partial none (PState.init "a.b.c".toList [] []) []
    { database := "a".toList, retentionPolicy := "b".toList, name := "c".toList }
    [eofRune] Gap.none (by decide) rfl (by decide) (by decide) (by decide)
    (Or.inr WordEnd.eof) SegEnd.eof (e ▸ (PState.init_before _ [] []).around)
  exact ⟨s', h⟩
example : ∃ s', (parseTarget false).run (PState.init " INTO \"my db\"..\"cpu load\" FROM x".toList [] []) =
    .ok (some { database := "my db".toList, name := "cpu load".toList, isTarget := true }, s') := by
  have e : foldCR " INTO \"my db\"..\"cpu load\" FROM x".toList ++ [eofRune] =
      ' ' :: (printTarget { database := "my db".toList, name := "cpu load".toList } ++
        ' ' :: 'F' :: ("ROM x".toList ++ [eofRune])) := by decide +kernel
  obtain ⟨s', h, _⟩ := target_print_parse_partial false (PState.init " INTO \"my db\"..\"cpu load\" FROM x".toList [] [])
    { database := "my db".toList, name := "cpu load".toList } 'F' ("ROM x".toList ++ [eofRune])
    (by decide) rfl (by decide) (by decide) (by decide) (by decide) (by decide) (by decide)
    (e ▸ (PState.init_before _ [] []).around)
  exact ⟨s', h⟩

end InfluxQL.C06

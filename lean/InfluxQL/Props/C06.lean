import InfluxQL.Lemmas.Quote
import InfluxQL.Lemmas.QuoteConv
import InfluxQL.Lemmas.QuoteSpell
/-!
# C06 — quoting helpers invert the lexer and cannot be broken out of

Model: `quoteString`, `quoteIdent`, `identNeedsQuotes` (Model/Quote.lean) over the
regenerated replacer tables, and the scanner model. "Delivered form" = what the reader hands
the scanner (`foldCR`: CR and CRLF arrive as LF).
-/
namespace InfluxQL.C06
open InfluxQL Gen

/-! ## Obligations on the regenerated tables -/

/-- Both replacers escape exactly newline, backslash and their own quote character. -/
theorem gen_replacers :
    qsReplacer = [(['\n'], ['\\', 'n']), (['\\'], ['\\', '\\']), (['\''], ['\\', '\''])] ∧
    qiReplacer = [(['\n'], ['\\', 'n']), (['\\'], ['\\', '\\']), (['"'], ['\\', '"'])] := by decide

/-- Delivered form of `QuoteString(s)` followed by `k`. -/
theorem quoteString_delivered (s k : List Char) :
    foldCR (quoteString s ++ k) = '\'' :: (s.flatMap (escF '\'') ++ '\'' :: foldCR k) := by
  rw [quoteString_eq]
  have h := foldCR_escaped '\'' (by decide) s k
  simp only [List.cons_append, List.append_assoc, List.nil_append]
  rw [foldCR_cons_of_ne _ _ (by decide), h]

/-! ## Strings -/

/-- **C06 (strings).** For every expressible `s` (no NUL, no CR), wherever the scanner stands
before the delivered form of `QuoteString(s)` followed by any text `k`, it returns one STRING
token with value `s` and stops exactly before `k`. -/
theorem scan_quoteString (r : Cursor) (s k tail : List Char) (hs : Expressible s)
    (h : r.rest.map Prod.fst = foldCR (quoteString s ++ k) ++ tail) :
    (scan r).1.tok = .STRING ∧ (scan r).1.lit = s ∧ (scan r).2.rest.map Prod.fst = foldCR k ++ tail := by
  rw [quoteString_delivered] at h
  simp only [List.cons_append, List.append_assoc] at h
  rcases scan_quotedString r s (foldCR k ++ tail) h with ⟨_, h1, h2, h3⟩ | ⟨hne, _⟩
  · exact ⟨h1, h2, h3⟩
  · exact absurd hs hne

/-- **C06 (containment).** For *every* `s` whatsoever the quoted value is one literal that ends
exactly at its closing quote, or a bad-string token (hence a parse error): it never ends early
and never absorbs the text that follows. -/
theorem quoteString_contained (r : Cursor) (s k tail : List Char)
    (h : r.rest.map Prod.fst = foldCR (quoteString s ++ k) ++ tail) :
    ((scan r).1.tok = .STRING ∧ (scan r).1.lit = s ∧ (scan r).2.rest.map Prod.fst = foldCR k ++ tail) ∨
    (scan r).1.tok = .BADSTRING := by
  rw [quoteString_delivered] at h
  simp only [List.cons_append, List.append_assoc] at h
  rcases scan_quotedString r s (foldCR k ++ tail) h with ⟨_, h1, h2, h3⟩ | ⟨_, hb⟩
  · exact Or.inl ⟨h1, h2, h3⟩
  · exact Or.inr hb

/-- At the start of a text. -/
theorem scan_quoteString_text (s k : List Char) (hs : Expressible s) :
    let r := Cursor.ofRunes (quoteString s ++ k)
    (scan r).1.tok = .STRING ∧ (scan r).1.lit = s ∧ (scan r).2.rest.map Prod.fst = foldCR k ++ [eofRune] := by
  intro r
  exact scan_quoteString r s k [eofRune] hs (by simp [r, Cursor.ofRunes, stampRunes_map_fst])

/-! ## Identifiers -/

/-- **C06 (quoted identifiers).** The double-quoted form of any expressible name scans as one
identifier with that name and stops exactly after the closing quote; for an arbitrary name it
is that identifier or a bad-string token. -/
theorem scan_quotedIdent_contained (r : Cursor) (s k tail : List Char)
    (h : r.rest.map Prod.fst = foldCR ('"' :: (s.flatMap (esc '"') ++ '"' :: k)) ++ tail) :
    (Expressible s ∧ (scan r).1.tok = .IDENT ∧ (scan r).1.lit = s ∧
        (scan r).2.rest.map Prod.fst = foldCR k ++ tail) ∨
    (¬ Expressible s ∧ (scan r).1.tok = .BADSTRING) := by
  rw [foldCR_cons_of_ne _ _ (by decide), foldCR_escaped '"' (by decide) s k] at h
  simp only [List.cons_append, List.append_assoc] at h
  exact scan_quotedIdent r s (foldCR k ++ tail) h

/-- **C06 (`IdentNeedsQuotes`, soundness of `false`).** For non-empty `s`, if `IdentNeedsQuotes(s)`
is false then `s` written bare, followed by any character that cannot continue an identifier,
scans as the single identifier `s` — and `QuoteIdent(s)` is that bare spelling. -/
theorem bare_ident_scans (r : Cursor) (s : List Char) (x : Char) (t : List Char) (hs : s ≠ [])
    (hn : identNeedsQuotes s = false) (h : r.rest.map Prod.fst = s ++ x :: t)
    (hx : isIdentChar x = false) (hxq : x ≠ '"') (hxe : x ≠ eofRune) :
    quoteIdent [s] = s ∧
    (scan r).1.tok = .IDENT ∧ (scan r).1.lit = s ∧ (scan r).2.rest.map Prod.fst = x :: t := by
  refine ⟨?_, scan_bareIdent r s x t hs hn h hx hxq hxe⟩
  obtain ⟨_, c, tl, rfl, hc, htl⟩ := (identNeedsQuotes_false_iff s hs).mp hn
  rw [quoteIdent_single]
  have : ((c :: tl) == []) = false := rfl
  simp only [hn, this, Bool.or_false, Bool.false_eq_true, if_false]
  apply esc_identChars
  intro y hy
  simp at hy
  rcases hy with rfl | hy
  · exact (isIdentFirstChar_facts hc).2.2.1
  · exact htl y hy

/-- **C06 (`IdentNeedsQuotes`, exactness).** For every non-empty expressible `s` and every
separating follower `x` (a character that can neither continue an identifier nor open a quoted
one, and is not NUL): `IdentNeedsQuotes(s)` is false *exactly when* `s` written bare scans as the
single identifier `s` covering exactly the runes of `s`. -/
theorem identNeedsQuotes_iff (r : Cursor) (s : List Char) (x : Char) (t : List Char) (hs : s ≠ [])
    (hex : Expressible s) (h : r.rest.map Prod.fst = s ++ x :: t)
    (hx : isIdentChar x = false) (hxq : x ≠ '"') (hxe : x ≠ eofRune) :
    identNeedsQuotes s = false ↔
      ((scan r).1.tok = .IDENT ∧ (scan r).1.lit = s ∧ (scan r).2.rest.map Prod.fst = x :: t) := by
  constructor
  · intro hn
    exact scan_bareIdent r s x t hs hn h hx hxq hxe
  · rintro ⟨h1, h2, h3⟩
    have hlen : (scan r).2.rest.length = t.length + 1 := by
      have := congrArg List.length h3
      simpa using this
    exact scan_ident_implies_no_quotes r s x t hs hex h hx hxq hxe h1 h2 hlen

/-- Keywords always need quotes (every generated keyword, in its canonical lower-case spelling). -/
theorem keywords_need_quotes : ∀ p ∈ keywords, identNeedsQuotes p.1 = true := by decide +kernel

-- non-vacuity
example : Expressible "it's a \\ test\n".toList := by decide
example : identNeedsQuotes "cpu_load".toList = false ∧ identNeedsQuotes "select".toList = true ∧
    identNeedsQuotes "1a".toList = true ∧ identNeedsQuotes "a b".toList = true := by decide

end InfluxQL.C06

import InfluxQL.Lemmas.SanitizeFriendly
import InfluxQL.Lemmas.SanitizeRe
/-!
# C15 — passwords never appear in printed statements or sanitized query text

Model: `Model/Sanitize.lean` — the two statement printers (driven by the print pieces extracted
from the two `String` methods) and `sanitize`, a matcher specialised by hand to the two regular
expressions of sanitize.go with Go's leftmost-first semantics, run as the two replacement passes
of `Sanitize` (the second on the result of the first).

What is proved for all inputs:
* the printers do not depend on the password (`print_noninterference`);
* `sanitize` returns a text without a match of either pattern unchanged (`sanitize_no_clause_id`),
  in particular every text without the word `password` (`sanitize_no_password_word_id`);
* `sanitize` only replaces capture groups: everything else is copied in order
  (`sanitize_only_literal`), and a replaced stretch is non-empty, free of white space and
  preceded by white space (`replaced_stretch_shape`);
* on regex-friendly texts with any number of password clauses exactly the password literals are
  replaced (`sanitize_multi`), hence the result does not depend on the passwords
  (`sanitize_noninterference_partial`).

The property as stated ("however the statement is laid out", "whatever characters the password
contains") is **false** for the code: the counterexample theorems at the end are evaluated by the
kernel on the model and reproduced on the implementation by the `sanitize.text` stream.
-/
namespace InfluxQL.C15
open InfluxQL Gen InfluxQL.Sanitize

/-! ## Obligations on the regenerated facts -/

/-- The two pattern sources are the ones the matcher was specialised for. -/
theorem gen_patterns :
    sanitizeSetPasswordSource = /- (?i)password\s+for[^=]*=\s+(["']?[^\s"]+["']?) -/ ['(', '?', 'i', ')', 'p', 'a', 's', 's', 'w', 'o', 'r', 'd', '\\', 's', '+', 'f', 'o', 'r', '[', '^', '=', ']', '*', '=', '\\', 's', '+', '(', '[', '"', '\'', ']', '?', '[', '^', '\\', 's', '"', ']', '+', '[', '"', '\'', ']', '?', ')'] ∧
    sanitizeCreatePasswordSource = /- (?i)with\s+password\s+(["']?[^\s"]+["']?) -/ ['(', '?', 'i', ')', 'w', 'i', 't', 'h', '\\', 's', '+', 'p', 'a', 's', 's', 'w', 'o', 'r', 'd', '\\', 's', '+', '(', '[', '"', '\'', ']', '?', '[', '^', '\\', 's', '"', ']', '+', '[', '"', '\'', ']', '?', ')'] := by decide

/-- The same tie at the level of pattern structure: the two atom sequences of
`Lemmas/SanitizeRe.lean` (character classes, greedy `*` `+` `?`, the group parentheses), printed
back to pattern syntax, are the regenerated sources. -/
theorem gen_patterns_atoms :
    reSrc setRe = sanitizeSetPasswordSource ∧ reSrc createRe = sanitizeCreatePasswordSource := by decide

/-- The specialised matchers of the model are the textbook backtracking matcher (alternatives in
priority order, greedy operators consume first, first complete match wins: Go's leftmost-first
semantics at one start position) run on these atom sequences: same success, same extent of
capture group 1 (given as the remaining text at its opening and closing parenthesis).  The
arguments "no backtracking is left" of Model/Sanitize.lean are thereby proved, not assumed. -/
theorem matcher_is_backtracking (xs : List Char) :
    btMatch setRe xs = (matchSetPassword xs).map (fun m => (m.2.1 ++ m.2.2, m.2.2)) ∧
    btMatch createRe xs = (matchCreatePassword xs).map (fun m => (m.2.1 ++ m.2.2, m.2.2)) :=
  ⟨setRe_eq xs, createRe_eq xs⟩

/-- The replacement text and the order of the passes. -/
theorem gen_replacement :
    sanitizeReplacement = /- [REDACTED] -/ ['[', 'R', 'E', 'D', 'A', 'C', 'T', 'E', 'D', ']'] ∧
    sanitizePassOrder = [/- sanitizeSetPassword -/ ['s', 'a', 'n', 'i', 't', 'i', 'z', 'e', 'S', 'e', 't', 'P', 'a', 's', 's', 'w', 'o', 'r', 'd'], /- sanitizeCreatePassword -/ ['s', 'a', 'n', 'i', 't', 'i', 'z', 'e', 'C', 'r', 'e', 'a', 't', 'e', 'P', 'a', 's', 's', 'w', 'o', 'r', 'd']] := by decide

/-- The two `String` methods, statement by statement. -/
theorem gen_printers :
    createUserStringPieces =
      [.lit /- CREATE USER  -/ ['C', 'R', 'E', 'A', 'T', 'E', ' ', 'U', 'S', 'E', 'R', ' '], .quoteIdentName, .lit /-  WITH PASSWORD  -/ [' ', 'W', 'I', 'T', 'H', ' ', 'P', 'A', 'S', 'S', 'W', 'O', 'R', 'D', ' '], .lit /- [REDACTED] -/ ['[', 'R', 'E', 'D', 'A', 'C', 'T', 'E', 'D', ']'],
       .ifAdmin /-  WITH ALL PRIVILEGES -/ [' ', 'W', 'I', 'T', 'H', ' ', 'A', 'L', 'L', ' ', 'P', 'R', 'I', 'V', 'I', 'L', 'E', 'G', 'E', 'S']] ∧
    setPasswordUserStringPieces =
      [.lit /- SET PASSWORD FOR  -/ ['S', 'E', 'T', ' ', 'P', 'A', 'S', 'S', 'W', 'O', 'R', 'D', ' ', 'F', 'O', 'R', ' '], .quoteIdentName, .lit [' ', '=', ' '], .lit /- [REDACTED] -/ ['[', 'R', 'E', 'D', 'A', 'C', 'T', 'E', 'D', ']']] := by decide

/-- Neither `String` method mentions the `Password` field. -/
theorem gen_no_password_reads :
    createUserStringReadsPassword = false ∧ setPasswordUserStringReadsPassword = false := by decide

/-! ## Printed statements -/

/-- **C15 (printers).** The printed text of `CREATE USER` and of `SET PASSWORD` is the same for
any two passwords: it carries no information about the password, hence no fragment of it. -/
theorem print_noninterference (name p p' : List Char) (admin : Bool) :
    printCreateUser name p admin = printCreateUser name p' admin ∧
    printSetPasswordUser name p = printSetPasswordUser name p' := ⟨rfl, rfl⟩

/-- What is printed instead. -/
theorem print_forms (name p : List Char) (admin : Bool) :
    printCreateUser name p admin =
      /- CREATE USER  -/ ['C', 'R', 'E', 'A', 'T', 'E', ' ', 'U', 'S', 'E', 'R', ' '] ++ quoteIdent [name] ++ /-  WITH PASSWORD [REDACTED] -/ [' ', 'W', 'I', 'T', 'H', ' ', 'P', 'A', 'S', 'S', 'W', 'O', 'R', 'D', ' ', '[', 'R', 'E', 'D', 'A', 'C', 'T', 'E', 'D', ']'] ++
        (if admin then /-  WITH ALL PRIVILEGES -/ [' ', 'W', 'I', 'T', 'H', ' ', 'A', 'L', 'L', ' ', 'P', 'R', 'I', 'V', 'I', 'L', 'E', 'G', 'E', 'S'] else []) ∧
    printSetPasswordUser name p = /- SET PASSWORD FOR  -/ ['S', 'E', 'T', ' ', 'P', 'A', 'S', 'S', 'W', 'O', 'R', 'D', ' ', 'F', 'O', 'R', ' '] ++ quoteIdent [name] ++ /-  = [REDACTED] -/ [' ', '=', ' ', '[', 'R', 'E', 'D', 'A', 'C', 'T', 'E', 'D', ']'] := by
  constructor
  · simp [printCreateUser, printPieces, createUserStringPieces]
  · simp [printSetPasswordUser, printPieces, setPasswordUserStringPieces]

/-! ## Sanitize: identity without a clause -/

/-- **C15 (no clause).** A text in which neither pattern matches at any position is returned
unchanged. -/
theorem sanitize_no_clause_id (xs : List Char)
    (h1 : ∀ s, s <:+ xs → matchSetPassword s = none)
    (h2 : ∀ s, s <:+ xs → matchCreatePassword s = none) : sanitize xs = xs := by
  unfold sanitize passSet passCreate
  rw [pass_no_match _ _ _ h1]
  exact pass_no_match _ _ _ h2

/-- Every text that does not contain the word `password` is returned unchanged. -/
theorem sanitize_no_password_word_id (xs : List Char) (h : hasPasswordWord xs = false) :
    sanitize xs = xs := by
  have hp := hasPasswordWord_spec h
  apply sanitize_no_clause_id
  · intro s hs
    apply matchSet_none_of_chain
    simp [chainSet, hp s hs]
  · intro s hs
    apply matchCreate_none_of_chain
    unfold chainCreate
    split
    · rfl
    · rename_i m1 r1 h1
      split
      · rfl
      · rename_i w1 r2 h2
        have a1 := (matchKw_sound _ _ _ _ h1).1
        have a2 := (matchSpaces_sound h2).1
        have : r2 <:+ xs := by
          refine List.IsSuffix.trans ?_ hs
          rw [a1, a2]
          exact ⟨m1 ++ w1, by simp⟩
        rw [hp r2 this]

/-! ## Sanitize: nothing but capture groups is replaced -/

/-- **C15 (only the literal).** `sanitize xs` is obtained in two steps, each of which copies the
text in order and replaces exactly capture group 1 of the successive leftmost matches of one
pattern (`Redacts`): first `sanitizeSetPassword` on `xs`, then `sanitizeCreatePassword` on the
intermediate text.  In particular (`Edit`) each step keeps every character outside the replaced
stretches. -/
theorem sanitize_only_literal (xs : List Char) :
    ∃ mid, Redacts matchSetPassword xs mid ∧ Redacts matchCreatePassword mid (sanitize xs) ∧
      Edit xs mid ∧ Edit mid (sanitize xs) := by
  have h1 := pass_redacts matchSetPassword_ok (xs.length + 1) xs (Nat.lt_succ_self _)
  have h2 := pass_redacts matchCreatePassword_ok ((passSet xs).length + 1) (passSet xs) (Nat.lt_succ_self _)
  exact ⟨passSet xs, h1, h2, h1.edit matchSetPassword_ok, h2.edit matchCreatePassword_ok⟩

/-- What a replaced stretch looks like, for both patterns: it is not empty, contains no white
space, and the text copied before it ends in white space. -/
theorem replaced_stretch_shape (xs pre g rest : List Char)
    (h : matchSetPassword xs = some (pre, g, rest) ∨ matchCreatePassword xs = some (pre, g, rest)) :
    xs = pre ++ g ++ rest ∧ g ≠ [] ∧ (∀ c ∈ g, isSpace c = false) ∧
      ∃ p' w, pre = p' ++ [w] ∧ isSpace w = true := by
  rcases h with h | h
  · have ok := matchSetPassword_ok _ _ _ _ h
    refine ⟨ok.1, ok.2.2, ?_⟩
    unfold matchSetPassword at h
    split at h
    · simp at h
    · split at h
      · simp at h
      · exact spacesGroup_shape h
  · have ok := matchCreatePassword_ok _ _ _ _ h
    refine ⟨ok.1, ok.2.2, ?_⟩
    unfold matchCreatePassword at h
    split at h
    · simp at h
    · exact spacesGroup_shape h

/-! ## Sanitize on regex-friendly texts -/

/-- **C15 (several statements).** On a regex-friendly text with any number of password clauses
(`friendly`, decidable: clause heads spelled with plain white space between and after the
keywords and after `=`, no other position that looks like the beginning of a clause, passwords
written without white space and `"`, each literal followed by white space or the end of the
text) the result is the text with exactly the password literals replaced. -/
theorem sanitize_multi (cs : List Clause) (z : List Char) (hf : friendly cs z = true) :
    sanitize (renderText cs z) = expectedText cs z := sanitize_friendly_eq cs z hf

/-- Non-interference for any number of clauses: with friendly layout and friendly passwords
the sanitized text is the same whatever the passwords are. -/
theorem sanitize_noninterference_multi (cs : List Clause) (bs : List (List Char)) (z : List Char)
    (hf : friendly cs z = true) (hf' : friendly (withBodies cs bs) z = true) :
    sanitize (renderText cs z) = sanitize (renderText (withBodies cs bs) z) := by
  rw [sanitize_multi cs z hf, sanitize_multi _ z hf', expectedText_withBodies]

/-- A password statement as written: its kind and the user name token (bare or quoted). -/
inductive PwStmt where
  | createUser (name : List Char) (admin : Bool)
  | setPassword (name : List Char)

/-- The layout of a statement inside a text: what precedes it, the spellings of its keywords in
order, the gaps between its tokens in order, and what follows it. -/
structure Layout where
  pre : List Char
  kws : List (List Char)
  gaps : List (List Char)
  post : List Char

def Layout.kw (ℓ : Layout) (i : Nat) : List Char := ℓ.kws.getD i []
def Layout.gap (ℓ : Layout) (i : Nat) : List Char := ℓ.gaps.getD i []

/-- The clause of the statement: text before the clause head, and the head. -/
def clauseOf (s : PwStmt) (ℓ : Layout) (p : List Char) : Clause :=
  match s with
  | .createUser name _ =>
    -- pre CREATE g0 USER g1 name g2 | WITH g3 PASSWORD g4 | 'p'
    { create := true,
      before := ℓ.pre ++ ℓ.kw 0 ++ ℓ.gap 0 ++ ℓ.kw 1 ++ ℓ.gap 1 ++ name ++ ℓ.gap 2,
      head := ℓ.kw 2 ++ ℓ.gap 3 ++ ℓ.kw 3 ++ ℓ.gap 4, body := p }
  | .setPassword name =>
    -- pre SET g0 | PASSWORD g1 FOR g2 name g3 = g4 | 'p'
    { create := false,
      before := ℓ.pre ++ ℓ.kw 0 ++ ℓ.gap 0,
      head := ℓ.kw 1 ++ ℓ.gap 1 ++ ℓ.kw 2 ++ ℓ.gap 2 ++ name ++ ℓ.gap 3 ++ ['='] ++ ℓ.gap 4, body := p }

/-- What follows the password literal. -/
def tailOf (s : PwStmt) (ℓ : Layout) : List Char :=
  match s with
  | .createUser _ true => ℓ.gap 5 ++ ℓ.kw 4 ++ ℓ.gap 6 ++ ℓ.kw 5 ++ ℓ.gap 7 ++ ℓ.kw 6 ++ ℓ.post
  | .createUser _ false => ℓ.post
  | .setPassword _ => ℓ.post

/-- The statement `s` written in layout `ℓ` with the password `p` between single quotes. -/
def render (s : PwStmt) (ℓ : Layout) (p : List Char) : List Char :=
  renderText [clauseOf s ℓ p] (tailOf s ℓ)

/-- Regex-friendly layout and password (decidable): see `friendly`. -/
def RegexFriendly (s : PwStmt) (ℓ : Layout) (p : List Char) : Bool :=
  friendly [clauseOf s ℓ p] (tailOf s ℓ)

/-- **C15 (sanitize, partial).** For regex-friendly layouts and passwords the sanitized text of
a `CREATE USER … WITH PASSWORD` or `SET PASSWORD FOR … =` statement does not depend on the
password; it is the text with `[REDACTED]` in place of the literal (`sanitize_render_partial`).
Outside this region the property is false: see the counterexamples below. -/
theorem sanitize_noninterference_partial (s : PwStmt) (ℓ : Layout) (p p' : List Char)
    (h : RegexFriendly s ℓ p = true) (h' : RegexFriendly s ℓ p' = true) :
    sanitize (render s ℓ p) = sanitize (render s ℓ p') := by
  unfold render
  rw [sanitize_multi _ _ h, sanitize_multi _ _ h']
  cases s <;> rfl

theorem sanitize_render_partial (s : PwStmt) (ℓ : Layout) (p : List Char)
    (h : RegexFriendly s ℓ p = true) :
    sanitize (render s ℓ p) =
      (clauseOf s ℓ p).before ++ ((clauseOf s ℓ p).head ++ (/- [REDACTED] -/ ['[', 'R', 'E', 'D', 'A', 'C', 'T', 'E', 'D', ']'] ++ tailOf s ℓ)) := by
  unfold render
  rw [sanitize_multi _ _ h]
  rfl

/-! ### Non-vacuity: ordinary layouts are friendly -/

def plain : Layout :=
  { pre := [], kws := [['C', 'R', 'E', 'A', 'T', 'E'], ['U', 'S', 'E', 'R'], ['W', 'I', 'T', 'H'], /- PASSWORD -/ ['P', 'A', 'S', 'S', 'W', 'O', 'R', 'D'], ['W', 'I', 'T', 'H'], ['A', 'L', 'L'], /- PRIVILEGES -/ ['P', 'R', 'I', 'V', 'I', 'L', 'E', 'G', 'E', 'S']],
    gaps := [[' '], [' '], [' '], [' '], [' '], [' '], [' '], [' ']], post := [] }

def plainSet : Layout :=
  { pre := [], kws := [['S', 'E', 'T'], /- PASSWORD -/ ['P', 'A', 'S', 'S', 'W', 'O', 'R', 'D'], ['F', 'O', 'R']], gaps := [[' '], [' '], [' '], [' '], [' '], [' ']], post := [] }

example : render (.createUser ['u'] true) plain ['p', 'w'] = /- CREATE USER u WITH PASSWORD 'pw' WITH ALL PRIVILEGES -/ ['C', 'R', 'E', 'A', 'T', 'E', ' ', 'U', 'S', 'E', 'R', ' ', 'u', ' ', 'W', 'I', 'T', 'H', ' ', 'P', 'A', 'S', 'S', 'W', 'O', 'R', 'D', ' ', '\'', 'p', 'w', '\'', ' ', 'W', 'I', 'T', 'H', ' ', 'A', 'L', 'L', ' ', 'P', 'R', 'I', 'V', 'I', 'L', 'E', 'G', 'E', 'S'] := by decide
example : RegexFriendly (.createUser ['u'] true) plain ['p', 'w'] = true := by decide
example : render (.setPassword /- "admin user" -/ ['"', 'a', 'd', 'm', 'i', 'n', ' ', 'u', 's', 'e', 'r', '"']) plainSet ['s', '3', 'c', 'r', '=', 't'] = /- SET PASSWORD FOR "admin user" = 's3cr=t' -/ ['S', 'E', 'T', ' ', 'P', 'A', 'S', 'S', 'W', 'O', 'R', 'D', ' ', 'F', 'O', 'R', ' ', '"', 'a', 'd', 'm', 'i', 'n', ' ', 'u', 's', 'e', 'r', '"', ' ', '=', ' ', '\'', 's', '3', 'c', 'r', '=', 't', '\''] := by decide
example : RegexFriendly (.setPassword /- "admin user" -/ ['"', 'a', 'd', 'm', 'i', 'n', ' ', 'u', 's', 'e', 'r', '"']) plainSet ['s', '3', 'c', 'r', '=', 't'] = true := by decide

/-- Odd but friendly: lower case, tabs and line ends as separators, no blank before `=`. -/
def odd : Layout :=
  { pre := /- SHOW USERS ;⏎ -/ ['S', 'H', 'O', 'W', ' ', 'U', 'S', 'E', 'R', 'S', ' ', ';', '\n'], kws := [['s', 'e', 't'], /- PassWord -/ ['P', 'a', 's', 's', 'W', 'o', 'r', 'd'], ['f', 'O', 'R']], gaps := [['\t'], ['\n', '\n'], [' '], [], ['\n', ' '], []], post := /-  ; DROP USER x -/ [' ', ';', ' ', 'D', 'R', 'O', 'P', ' ', 'U', 'S', 'E', 'R', ' ', 'x'] }

example : render (.setPassword ['u']) odd ['a', '\\', '\'', 'b'] = /- SHOW USERS ;⏎set⇥PassWord⏎⏎fOR u=⏎ 'a\'b' ; DROP USER x -/ ['S', 'H', 'O', 'W', ' ', 'U', 'S', 'E', 'R', 'S', ' ', ';', '\n', 's', 'e', 't', '\t', 'P', 'a', 's', 's', 'W', 'o', 'r', 'd', '\n', '\n', 'f', 'O', 'R', ' ', 'u', '=', '\n', ' ', '\'', 'a', '\\', '\'', 'b', '\'', ' ', ';', ' ', 'D', 'R', 'O', 'P', ' ', 'U', 'S', 'E', 'R', ' ', 'x'] := by decide
example : RegexFriendly (.setPassword ['u']) odd ['a', '\\', '\'', 'b'] = true := by decide
example : sanitize (render (.setPassword ['u']) odd ['a', '\\', '\'', 'b']) = /- SHOW USERS ;⏎set⇥PassWord⏎⏎fOR u=⏎ [REDACTED] ; DROP USER x -/ ['S', 'H', 'O', 'W', ' ', 'U', 'S', 'E', 'R', 'S', ' ', ';', '\n', 's', 'e', 't', '\t', 'P', 'a', 's', 's', 'W', 'o', 'r', 'd', '\n', '\n', 'f', 'O', 'R', ' ', 'u', '=', '\n', ' ', '[', 'R', 'E', 'D', 'A', 'C', 'T', 'E', 'D', ']', ' ', ';', ' ', 'D', 'R', 'O', 'P', ' ', 'U', 'S', 'E', 'R', ' ', 'x'] := by decide

/-- Two statements in one text. -/
example : friendly
    [{ create := false, before := ['S', 'E', 'T', ' '], head := /- PASSWORD FOR u =  -/ ['P', 'A', 'S', 'S', 'W', 'O', 'R', 'D', ' ', 'F', 'O', 'R', ' ', 'u', ' ', '=', ' '], body := ['p', '1'] },
     { create := true, before := /-  ; CREATE USER v  -/ [' ', ';', ' ', 'C', 'R', 'E', 'A', 'T', 'E', ' ', 'U', 'S', 'E', 'R', ' ', 'v', ' '], head := /- WITH PASSWORD  -/ ['W', 'I', 'T', 'H', ' ', 'P', 'A', 'S', 'S', 'W', 'O', 'R', 'D', ' '], body := ['p', '2'] }] [' ', ';'] = true := by decide

/-! ## Counterexamples: where the code leaks (kernel-checked on the model, reproduced on the
implementation by the `sanitize.text` stream; classes in known_findings.json) -/

/-- Password containing white space: only the part up to the first blank is replaced,
` secret'` survives. -/
theorem leak_password_whitespace_counterexample :
    sanitize /- SET PASSWORD FOR u = 'my secret' -/ ['S', 'E', 'T', ' ', 'P', 'A', 'S', 'S', 'W', 'O', 'R', 'D', ' ', 'F', 'O', 'R', ' ', 'u', ' ', '=', ' ', '\'', 'm', 'y', ' ', 's', 'e', 'c', 'r', 'e', 't', '\''] = /- SET PASSWORD FOR u = [REDACTED] secret' -/ ['S', 'E', 'T', ' ', 'P', 'A', 'S', 'S', 'W', 'O', 'R', 'D', ' ', 'F', 'O', 'R', ' ', 'u', ' ', '=', ' ', '[', 'R', 'E', 'D', 'A', 'C', 'T', 'E', 'D', ']', ' ', 's', 'e', 'c', 'r', 'e', 't', '\''] ∧
    RegexFriendly (.setPassword ['u']) plainSet /- my secret -/ ['m', 'y', ' ', 's', 'e', 'c', 'r', 'e', 't'] = false := by decide

/-- No white space between `=` and the literal: the pattern requires `\s+` there, nothing is
replaced at all. -/
theorem leak_no_space_after_eq_counterexample :
    sanitize /- SET PASSWORD FOR u='pw' -/ ['S', 'E', 'T', ' ', 'P', 'A', 'S', 'S', 'W', 'O', 'R', 'D', ' ', 'F', 'O', 'R', ' ', 'u', '=', '\'', 'p', 'w', '\''] = /- SET PASSWORD FOR u='pw' -/ ['S', 'E', 'T', ' ', 'P', 'A', 'S', 'S', 'W', 'O', 'R', 'D', ' ', 'F', 'O', 'R', ' ', 'u', '=', '\'', 'p', 'w', '\''] ∧
    sanitize /- CREATE USER u WITH PASSWORD'pw' -/ ['C', 'R', 'E', 'A', 'T', 'E', ' ', 'U', 'S', 'E', 'R', ' ', 'u', ' ', 'W', 'I', 'T', 'H', ' ', 'P', 'A', 'S', 'S', 'W', 'O', 'R', 'D', '\'', 'p', 'w', '\''] = /- CREATE USER u WITH PASSWORD'pw' -/ ['C', 'R', 'E', 'A', 'T', 'E', ' ', 'U', 'S', 'E', 'R', ' ', 'u', ' ', 'W', 'I', 'T', 'H', ' ', 'P', 'A', 'S', 'S', 'W', 'O', 'R', 'D', '\'', 'p', 'w', '\''] := by decide

/-- Password containing a double quote: the group ends at the `"`, `cd'` survives. -/
theorem leak_password_dquote_counterexample :
    sanitize /- SET PASSWORD FOR u = 'ab"cd' -/ ['S', 'E', 'T', ' ', 'P', 'A', 'S', 'S', 'W', 'O', 'R', 'D', ' ', 'F', 'O', 'R', ' ', 'u', ' ', '=', ' ', '\'', 'a', 'b', '"', 'c', 'd', '\''] = /- SET PASSWORD FOR u = [REDACTED]cd' -/ ['S', 'E', 'T', ' ', 'P', 'A', 'S', 'S', 'W', 'O', 'R', 'D', ' ', 'F', 'O', 'R', ' ', 'u', ' ', '=', ' ', '[', 'R', 'E', 'D', 'A', 'C', 'T', 'E', 'D', ']', 'c', 'd', '\''] ∧
    RegexFriendly (.setPassword ['u']) plainSet ['a', 'b', '"', 'c', 'd'] = false := by decide

/-- A comment between the keywords, or between `=` and the literal (there the comment is
replaced and the password stays). -/
theorem leak_comment_counterexample :
    sanitize /- CREATE USER u WITH /*c*/ PASSWORD 'pw' -/ ['C', 'R', 'E', 'A', 'T', 'E', ' ', 'U', 'S', 'E', 'R', ' ', 'u', ' ', 'W', 'I', 'T', 'H', ' ', '/', '*', 'c', '*', '/', ' ', 'P', 'A', 'S', 'S', 'W', 'O', 'R', 'D', ' ', '\'', 'p', 'w', '\''] = /- CREATE USER u WITH /*c*/ PASSWORD 'pw' -/ ['C', 'R', 'E', 'A', 'T', 'E', ' ', 'U', 'S', 'E', 'R', ' ', 'u', ' ', 'W', 'I', 'T', 'H', ' ', '/', '*', 'c', '*', '/', ' ', 'P', 'A', 'S', 'S', 'W', 'O', 'R', 'D', ' ', '\'', 'p', 'w', '\''] ∧
    sanitize /- SET PASSWORD /*c*/ FOR u = 'pw' -/ ['S', 'E', 'T', ' ', 'P', 'A', 'S', 'S', 'W', 'O', 'R', 'D', ' ', '/', '*', 'c', '*', '/', ' ', 'F', 'O', 'R', ' ', 'u', ' ', '=', ' ', '\'', 'p', 'w', '\''] = /- SET PASSWORD /*c*/ FOR u = 'pw' -/ ['S', 'E', 'T', ' ', 'P', 'A', 'S', 'S', 'W', 'O', 'R', 'D', ' ', '/', '*', 'c', '*', '/', ' ', 'F', 'O', 'R', ' ', 'u', ' ', '=', ' ', '\'', 'p', 'w', '\''] ∧
    sanitize /- SET PASSWORD FOR u = /*c*/ 'pw' -/ ['S', 'E', 'T', ' ', 'P', 'A', 'S', 'S', 'W', 'O', 'R', 'D', ' ', 'F', 'O', 'R', ' ', 'u', ' ', '=', ' ', '/', '*', 'c', '*', '/', ' ', '\'', 'p', 'w', '\''] = /- SET PASSWORD FOR u = [REDACTED] 'pw' -/ ['S', 'E', 'T', ' ', 'P', 'A', 'S', 'S', 'W', 'O', 'R', 'D', ' ', 'F', 'O', 'R', ' ', 'u', ' ', '=', ' ', '[', 'R', 'E', 'D', 'A', 'C', 'T', 'E', 'D', ']', ' ', '\'', 'p', 'w', '\''] := by decide

/-- A user name containing `=` stops `[^=]*` too early: nothing is replaced. -/
theorem leak_equals_in_name_counterexample :
    sanitize /- SET PASSWORD FOR "a=b" = 'pw' -/ ['S', 'E', 'T', ' ', 'P', 'A', 'S', 'S', 'W', 'O', 'R', 'D', ' ', 'F', 'O', 'R', ' ', '"', 'a', '=', 'b', '"', ' ', '=', ' ', '\'', 'p', 'w', '\''] = /- SET PASSWORD FOR "a=b" = 'pw' -/ ['S', 'E', 'T', ' ', 'P', 'A', 'S', 'S', 'W', 'O', 'R', 'D', ' ', 'F', 'O', 'R', ' ', '"', 'a', '=', 'b', '"', ' ', '=', ' ', '\'', 'p', 'w', '\''] := by decide

/-- Text that is no password literal is replaced: a string in a query that merely mentions
`password for`, the `;` (and the next keyword) directly behind a literal, part of a quoted user
name. -/
theorem redacts_outside_literal_counterexample :
    sanitize /- SELECT "password for" FROM m WHERE a = 'b' -/ ['S', 'E', 'L', 'E', 'C', 'T', ' ', '"', 'p', 'a', 's', 's', 'w', 'o', 'r', 'd', ' ', 'f', 'o', 'r', '"', ' ', 'F', 'R', 'O', 'M', ' ', 'm', ' ', 'W', 'H', 'E', 'R', 'E', ' ', 'a', ' ', '=', ' ', '\'', 'b', '\''] = /- SELECT "password for" FROM m WHERE a = [REDACTED] -/ ['S', 'E', 'L', 'E', 'C', 'T', ' ', '"', 'p', 'a', 's', 's', 'w', 'o', 'r', 'd', ' ', 'f', 'o', 'r', '"', ' ', 'F', 'R', 'O', 'M', ' ', 'm', ' ', 'W', 'H', 'E', 'R', 'E', ' ', 'a', ' ', '=', ' ', '[', 'R', 'E', 'D', 'A', 'C', 'T', 'E', 'D', ']'] ∧
    sanitize /- SET PASSWORD FOR u = 'pw';DROP USER x -/ ['S', 'E', 'T', ' ', 'P', 'A', 'S', 'S', 'W', 'O', 'R', 'D', ' ', 'F', 'O', 'R', ' ', 'u', ' ', '=', ' ', '\'', 'p', 'w', '\'', ';', 'D', 'R', 'O', 'P', ' ', 'U', 'S', 'E', 'R', ' ', 'x'] = /- SET PASSWORD FOR u = [REDACTED] USER x -/ ['S', 'E', 'T', ' ', 'P', 'A', 'S', 'S', 'W', 'O', 'R', 'D', ' ', 'F', 'O', 'R', ' ', 'u', ' ', '=', ' ', '[', 'R', 'E', 'D', 'A', 'C', 'T', 'E', 'D', ']', ' ', 'U', 'S', 'E', 'R', ' ', 'x'] ∧
    sanitize /- CREATE USER "with password x" WITH PASSWORD 'pw' -/ ['C', 'R', 'E', 'A', 'T', 'E', ' ', 'U', 'S', 'E', 'R', ' ', '"', 'w', 'i', 't', 'h', ' ', 'p', 'a', 's', 's', 'w', 'o', 'r', 'd', ' ', 'x', '"', ' ', 'W', 'I', 'T', 'H', ' ', 'P', 'A', 'S', 'S', 'W', 'O', 'R', 'D', ' ', '\'', 'p', 'w', '\''] = /- CREATE USER "with password [REDACTED] WITH PASSWORD [REDACTED] -/ ['C', 'R', 'E', 'A', 'T', 'E', ' ', 'U', 'S', 'E', 'R', ' ', '"', 'w', 'i', 't', 'h', ' ', 'p', 'a', 's', 's', 'w', 'o', 'r', 'd', ' ', '[', 'R', 'E', 'D', 'A', 'C', 'T', 'E', 'D', ']', ' ', 'W', 'I', 'T', 'H', ' ', 'P', 'A', 'S', 'S', 'W', 'O', 'R', 'D', ' ', '[', 'R', 'E', 'D', 'A', 'C', 'T', 'E', 'D', ']'] := by decide

/-- Case folding is Unicode simple folding: U+017F matches `s` (the scanner does not accept such a
keyword, so this only concerns invalid statements). -/
example : sanitize /- set paſſword for u = 'pw' -/ ['s', 'e', 't', ' ', 'p', 'a', (Char.ofNat 0x17f), (Char.ofNat 0x17f), 'w', 'o', 'r', 'd', ' ', 'f', 'o', 'r', ' ', 'u', ' ', '=', ' ', '\'', 'p', 'w', '\''] = /- set paſſword for u = [REDACTED] -/ ['s', 'e', 't', ' ', 'p', 'a', (Char.ofNat 0x17f), (Char.ofNat 0x17f), 'w', 'o', 'r', 'd', ' ', 'f', 'o', 'r', ' ', 'u', ' ', '=', ' ', '[', 'R', 'E', 'D', 'A', 'C', 'T', 'E', 'D', ']'] := by decide

/-- The second pass sees the result of the first. -/
example : sanitize /- with password for x = pw -/ ['w', 'i', 't', 'h', ' ', 'p', 'a', 's', 's', 'w', 'o', 'r', 'd', ' ', 'f', 'o', 'r', ' ', 'x', ' ', '=', ' ', 'p', 'w'] = /- with password [REDACTED] x = [REDACTED] -/ ['w', 'i', 't', 'h', ' ', 'p', 'a', 's', 's', 'w', 'o', 'r', 'd', ' ', '[', 'R', 'E', 'D', 'A', 'C', 'T', 'E', 'D', ']', ' ', 'x', ' ', '=', ' ', '[', 'R', 'E', 'D', 'A', 'C', 'T', 'E', 'D', ']'] := by decide

end InfluxQL.C15

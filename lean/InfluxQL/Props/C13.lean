import InfluxQL.Gen.SitesAst
import InfluxQL.Gen.RewriteSwitch
import InfluxQL.Model.GroupBy
import InfluxQL.Lemmas.OpsChecked
import InfluxQL.Lemmas.RewriteChecked
import InfluxQL.Lemmas.SourcesCodecChecked
import InfluxQL.Model.ParserStmt
import InfluxQL.Props.C19
import InfluxQL.Props.C20
/-!
# C13 — every operation on a parsed statement is total

Three ingredients:
* the inventory of syntactically visible panic sites of ast.go / utils.go, regenerated from the
  source on every run (`Gen.sitesAst`), must equal the reviewed list below — a new index, slice,
  unchecked assertion, integer division or `panic` call in those files breaks this obligation;
* models in which the sites are *checked* operations (`Model/GroupBy.lean`: `indexOrPanic`,
  `remOrPanic`; `Model/OpsChecked.lean`: `idx`, `setIdx`, `slice…`, `div…`/`rem…`, `goPanic`, the
  type switches of the clone routines read off the regenerated clone table; `Model/Priv.lean`:
  `emptyBase`) with theorems that no panic outcome is reachable — for every input, or for every
  input that satisfies a hypothesis spelled out in the statement (`sort.Interface` indices, `int64`
  range of the integers). `gen_modelled_sites` ties the list of checked sites to the inventory:
  all inventoried sites of a modelled function must be in the list;
* the property oracle of stream `ops.total`, which runs every public operation under `recover`
  on statements of odd shape (correspondence side).

`Rewrite` (13 assertions on what a caller-supplied `Rewriter` answers) is `Model/RewriteChecked.lean`:
no panic under the contract `KindPreserving`, a panic at each site without it; its type switch is
compared with the regenerated `Gen.rewriteSwitch`. The protobuf codec of `Sources` (3 sites) is
`Model/SourcesCodecChecked.lean` (`marshalBinary_no_panic`, `unmarshalBinary_no_panic`); before the
repair `Sources.MarshalBinary` panicked on the sources of `SELECT a FROM (SELECT a FROM m)`.
-/
namespace InfluxQL.C13
open InfluxQL Gen

/-- The reviewed panic-site inventory: (function, kind, expression) and, per entry, why it cannot
fire on statements the parser produces. -/
def reviewedSites : List (String × String × String) := [
  ("CloneExpr", "index", "args[i]"),  -- args is made with len(expr.Args); the final panic(\"unreachable\") needs an Expr type from outside the package (every node type has a case since e3b9ba1)
  ("CloneExpr", "panic", "panic(\"unreachable\")"),  -- args is made with len(expr.Args); the final panic(\"unreachable\") needs an Expr type from outside the package (every node type has a case since e3b9ba1)
  ("CreateContinuousQueryStatement.RequiredPrivileges", "index", "ep[0]"),  -- ep is a one-element literal
  ("Dimensions.Normalize", "index", "expr.Args[0]"),  -- guarded by len(expr.Args) > 0 and a comma-ok assertion (9bb7670)
  ("ExprsToConjunction", "index", "exprs[0]"),  -- guarded by len(exprs) == 0 return
  ("ExprsToConjunction", "slice", "exprs[1:]"),  -- guarded by len(exprs) == 0 return
  ("Fields.Less", "index", "a[i]"),  -- sort.Interface: indices come from package sort
  ("Fields.Less", "index", "a[j]"),  -- sort.Interface: indices come from package sort
  ("Fields.Swap", "index", "a[i]"),  -- sort.Interface
  ("Fields.Swap", "index", "a[j]"),  -- sort.Interface
  ("Rewrite", "assert", "Rewrite(r, d).(*Dimension)"),  -- safe iff the Rewriter answers each node with a node of the same interface kind (rewrite_no_panic / rewrite_needs_contract)
  ("Rewrite", "assert", "Rewrite(r, expr).(Expr)"),  -- safe iff the Rewriter answers each node with a node of the same interface kind (rewrite_no_panic / rewrite_needs_contract)
  ("Rewrite", "assert", "Rewrite(r, f).(*Field)"),  -- safe iff the Rewriter answers each node with a node of the same interface kind (rewrite_no_panic / rewrite_needs_contract)
  ("Rewrite", "assert", "Rewrite(r, n.Dimensions).(Dimensions)"),  -- safe iff the Rewriter answers each node with a node of the same interface kind (rewrite_no_panic / rewrite_needs_contract)
  ("Rewrite", "assert", "Rewrite(r, n.Expr).(Expr)"),  -- safe iff the Rewriter answers each node with a node of the same interface kind (rewrite_no_panic / rewrite_needs_contract)
  ("Rewrite", "assert", "Rewrite(r, n.Fields).(Fields)"),  -- safe iff the Rewriter answers each node with a node of the same interface kind (rewrite_no_panic / rewrite_needs_contract)
  ("Rewrite", "assert", "Rewrite(r, n.LHS).(Expr)"),  -- safe iff the Rewriter answers each node with a node of the same interface kind (rewrite_no_panic / rewrite_needs_contract)
  ("Rewrite", "assert", "Rewrite(r, n.RHS).(Expr)"),  -- safe iff the Rewriter answers each node with a node of the same interface kind (rewrite_no_panic / rewrite_needs_contract)
  ("Rewrite", "assert", "Rewrite(r, n.Sources).(Sources)"),  -- safe iff the Rewriter answers each node with a node of the same interface kind (rewrite_no_panic / rewrite_needs_contract)
  ("Rewrite", "assert", "Rewrite(r, n.Statement).(*SelectStatement)"),  -- safe iff the Rewriter answers each node with a node of the same interface kind (rewrite_no_panic / rewrite_needs_contract)
  ("Rewrite", "assert", "Rewrite(r, n.Statements).(Statements)"),  -- safe iff the Rewriter answers each node with a node of the same interface kind (rewrite_no_panic / rewrite_needs_contract)
  ("Rewrite", "assert", "Rewrite(r, s).(Statement)"),  -- safe iff the Rewriter answers each node with a node of the same interface kind (rewrite_no_panic / rewrite_needs_contract)
  ("Rewrite", "assert", "cond.(Expr)"),  -- safe iff the Rewriter answers each node with a node of the same interface kind (rewrite_no_panic / rewrite_needs_contract)
  ("SelectStatement.ColumnNames", "index", "columnNames[0]"),  -- columnNames has len(columnFields)+offset entries; Args[1:] guarded by len(f.Args) > 1 (7d5f959)
  ("SelectStatement.ColumnNames", "index", "columnNames[i+offset]"),  -- columnNames has len(columnFields)+offset entries; Args[1:] guarded by len(f.Args) > 1 (7d5f959)
  ("SelectStatement.ColumnNames", "slice", "f.Args[1:]"),  -- columnNames has len(columnFields)+offset entries; Args[1:] guarded by len(f.Args) > 1 (7d5f959)
  ("SelectStatement.FieldExprByName", "slice", "call.Args[1 : len(call.Args)-1]"),  -- guarded by len(call.Args) > 2
  ("SelectStatement.GroupByInterval", "index", "call.Args[0]"),  -- guarded by the 1..2 argument count check
  ("SelectStatement.GroupByOffset", "divide", "expr.Val % interval"),  -- Args[1] guarded by len == 2; remainder guarded by interval == 0 (c6aa33b)
  ("SelectStatement.GroupByOffset", "index", "call.Args[1]"),  -- Args[1] guarded by len == 2; remainder guarded by interval == 0 (c6aa33b)
  ("SelectStatement.RewriteFields", "assert", "CloneExpr(expr).(*Call)"),  -- CloneExpr of a *Call is a *Call; Args[0] guarded by the len(call.Args) checks before it
  ("SelectStatement.RewriteFields", "index", "call.Args[0]"),  -- CloneExpr of a *Call is a *Call; Args[0] guarded by the len(call.Args) checks before it
  ("SelectStatement.RewriteRegexConditions", "index", "vals[0]"),  -- vals indices are inside the len(vals) cases; the RHS assertion is comma-ok since 811d75b
  ("SelectStatement.RewriteRegexConditions", "index", "vals[i]"),  -- vals indices are inside the len(vals) cases; the RHS assertion is comma-ok since 811d75b
  ("SelectStatement.RewriteTimeFields", "index", "s.Fields[i]"),  -- i ranges over s.Fields
  ("SelectStatement.RewriteTimeFields", "slice", "s.Fields[:i]"),  -- i ranges over s.Fields
  ("SelectStatement.RewriteTimeFields", "slice", "s.Fields[i+1:]"),  -- i ranges over s.Fields
  ("SelectStatement.TimeAscending", "index", "s.SortFields[0]"),  -- guarded by len(s.SortFields) == 0 ||
  ("Sources.MarshalBinary", "index", "pb.Items[i]"),  -- pb.Items made with len(a); the assertion on the source is comma-ok since the fix: commit (a subquery source is an error)
  ("Sources.UnmarshalBinary", "index", "(*a)[i]"),  -- index within make(len)
  ("TypeValuerEval.evalCallExprType", "index", "args[i]"),  -- args made with len(expr.Args)
  ("ValuerEval.Eval", "index", "args[i]"),  -- args made with len(expr.Args)
  ("ValuerEval.evalBinaryExpr", "divide", "lhs % rhs"),  -- every integer / and % is guarded by rhs == 0 -> return 0
  ("ValuerEval.evalBinaryExpr", "divide", "lhs % uint64(rhs)"),  -- every integer / and % is guarded by rhs == 0 -> return 0
  ("ValuerEval.evalBinaryExpr", "divide", "lhs / rhs"),  -- every integer / and % is guarded by rhs == 0 -> return 0
  ("ValuerEval.evalBinaryExpr", "divide", "lhs / uint64(rhs)"),  -- every integer / and % is guarded by rhs == 0 -> return 0
  ("ValuerEval.evalBinaryExpr", "divide", "uint64(lhs) % rhs"),  -- every integer / and % is guarded by rhs == 0 -> return 0
  ("ValuerEval.evalBinaryExpr", "divide", "uint64(lhs) / rhs"),  -- every integer / and % is guarded by rhs == 0 -> return 0
  ("VarRefs.Less", "index", "a[i]"),  -- sort.Interface
  ("VarRefs.Less", "index", "a[j]"),  -- sort.Interface
  ("VarRefs.Strings", "index", "s[i]"),  -- s made with len(a)
  ("VarRefs.Swap", "index", "a[i]"),  -- sort.Interface
  ("VarRefs.Swap", "index", "a[j]"),  -- sort.Interface
  ("cloneSource", "panic", "panic(\"unreachable\")"),  -- Source has exactly the two implementations handled
  ("matchExactRegex", "index", "re.Sub[0]"),  -- guarded by len(re.Sub) < 2 return
  ("matchExactRegex", "index", "re.Sub[len(re.Sub)-1]"),  -- guarded by len(re.Sub) < 2 return
  ("matchExactRegex", "slice", "re.Sub[1 : len(re.Sub)-1]"),  -- guarded by len(re.Sub) < 2 return
  ("matchRegex", "index", "concat[i*len(vals)+j]"),  -- Sub[0] of capture/concat nodes built by regexp/syntax (never empty); Rune pairs of a class; concat sized len(names)*len(vals); names[0]/vals[0] inside len == 1 branches
  ("matchRegex", "index", "names[0]"),  -- Sub[0] of capture/concat nodes built by regexp/syntax (never empty); Rune pairs of a class; concat sized len(names)*len(vals); names[0]/vals[0] inside len == 1 branches
  ("matchRegex", "index", "re.Rune[i+1]"),  -- Sub[0] of capture/concat nodes built by regexp/syntax (never empty); Rune pairs of a class; concat sized len(names)*len(vals); names[0]/vals[0] inside len == 1 branches
  ("matchRegex", "index", "re.Rune[i]"),  -- Sub[0] of capture/concat nodes built by regexp/syntax (never empty); Rune pairs of a class; concat sized len(names)*len(vals); names[0]/vals[0] inside len == 1 branches
  ("matchRegex", "index", "re.Sub[0]"),  -- Sub[0] of capture/concat nodes built by regexp/syntax (never empty); Rune pairs of a class; concat sized len(names)*len(vals); names[0]/vals[0] inside len == 1 branches
  ("matchRegex", "index", "vals[0]"),  -- Sub[0] of capture/concat nodes built by regexp/syntax (never empty); Rune pairs of a class; concat sized len(names)*len(vals); names[0]/vals[0] inside len == 1 branches
  ("matchRegex", "slice", "re.Sub[1:]"),  -- Sub[0] of capture/concat nodes built by regexp/syntax (never empty); Rune pairs of a class; concat sized len(names)*len(vals); names[0]/vals[0] inside len == 1 branches
  ("reduceBinaryExprDurationLHS", "divide", "lhs.Val / time.Duration(rhs.Val)"),  -- divisor checked after conversion (af66bbd)
  ("reduceBinaryExprIntegerLHS", "divide", "lhs.Val % rhs.Val"),  -- guarded by rhs.Val == 0
  ("reduceBinaryExprUnsignedLHS", "divide", "lhs.Val % rhs.Val"),  -- guarded by rhs.Val == 0
  ("reduceBinaryExprUnsignedLHS", "divide", "lhs.Val / rhs.Val"),  -- guarded by rhs.Val == 0
  ("reduceCall", "index", "argVals[i]"),  -- args / argVals made with len(expr.Args)
  ("reduceCall", "index", "args[i]")   -- args / argVals made with len(expr.Args)
]

/-- The regenerated inventory is exactly the reviewed one. -/
theorem gen_sites_reviewed : sitesAst = reviewedSites := by rfl

/-! ## GROUP BY accessors -/

theorem indexOrPanic_ok {α} (xs : List α) (i : Nat) (site : String) (h : i < xs.length) :
    ∃ x, indexOrPanic xs i site = .ok x := by
  unfold indexOrPanic
  rw [List.getElem?_eq_getElem h]
  exact ⟨_, rfl⟩

/-- **C13 (GroupByInterval).** For every dimension list the result is a value or an error. -/
theorem groupByInterval_no_panic (dims : List Expr) : (groupByInterval dims).isPanic = false := by
  induction dims with
  | nil => rfl
  | cons d rest ih =>
    cases d <;> try exact ih
    rename_i name args
    simp only [groupByInterval]
    split
    · split
      · rfl
      · rename_i hlen
        obtain ⟨x, hx⟩ := indexOrPanic_ok args 0 "GroupByInterval: call.Args[0]" (by omega)
        rw [hx]
        cases x <;> rfl
    · exact ih

theorem groupByOffsetLoop_no_panic (interval : Int) (dims : List Expr) :
    (groupByOffsetLoop interval dims).isPanic = false := by
  induction dims with
  | nil => rfl
  | cons d rest ih =>
    cases d <;> try exact ih
    rename_i name args
    simp only [groupByOffsetLoop]
    split
    · split
      · rename_i hlen
        obtain ⟨x, hx⟩ := indexOrPanic_ok args 1 "GroupByOffset: call.Args[1]" (by omega)
        rw [hx]
        cases x <;> try rfl
        · -- duration offset: the remainder is only taken for a non-zero interval
          rename_i v
          dsimp only
          split
          · rfl
          · rename_i hne
            simp [remOrPanic, hne, OpRes.isPanic]
        · -- time offset
          dsimp only
          split <;> rfl
      · rfl
    · exact ih

/-- **C13 (GroupByOffset).** In particular `GROUP BY time(0s, 1s)` is a value (repaired by c6aa33b). -/
theorem groupByOffset_no_panic (dims : List Expr) : (groupByOffset dims).isPanic = false := by
  unfold groupByOffset
  have h := groupByInterval_no_panic dims
  cases hg : groupByInterval dims with
  | ok interval =>
    dsimp only
    split
    · rfl
    · exact groupByOffsetLoop_no_panic interval dims
  | err m => rfl
  | panic s => rw [hg] at h; cases h

theorem normalizeLoop_no_panic (dims : List Expr) (dur : Int) (tags : List Str) :
    (normalizeLoop dims dur tags).isPanic = false := by
  induction dims generalizing dur tags with
  | nil => rfl
  | cons d rest ih =>
    cases d <;> try exact ih _ _
    rename_i name args
    simp only [normalizeLoop]
    split
    · rename_i hlen
      obtain ⟨x, hx⟩ := indexOrPanic_ok args 0 "Normalize: expr.Args[0]" (by omega)
      rw [hx]
      cases x <;> exact ih _ _
    · exact ih _ _

/-- **C13 (Dimensions.Normalize).** `time()` and `time(5)` included (repaired by 9bb7670). -/
theorem normalize_no_panic (dims : List Expr) : (normalize dims).isPanic = false :=
  normalizeLoop_no_panic dims 0 []

/-! ## Checked models (Model/OpsChecked.lean): which inventoried sites they cover -/

open Checked in
/-- The inventoried sites that are checked primitives of a model, in inventory order. The entries
written `s…` are the very values the primitives of `Model/OpsChecked.lean`, `Model/RewriteChecked.lean`
(`sRw…`) and `Model/SourcesCodecChecked.lean` (`sMarshal…`, `sUnmarshalSlot`) carry; the four
`GROUP BY` sites are the `indexOrPanic` / `remOrPanic` calls of `Model/GroupBy.lean`, and `ep[0]` is
the `emptyBase` failure of `Model/Priv.lean` (`requiredPrivileges_total`). -/
def modelledSites : List Site := [
  sCloneArgs, sCloneUnreachable,
  ("CreateContinuousQueryStatement.RequiredPrivileges", "index", "ep[0]"),
  ("Dimensions.Normalize", "index", "expr.Args[0]"),
  sConj0, sConjTail,
  sFieldsLessI, sFieldsLessJ, sFieldsSwapI, sFieldsSwapJ,
  sRwDimension, sRwArg, sRwField, sRwDimensions, sRwNExpr, sRwFields, sRwLHS, sRwRHS, sRwSources,
  sRwSelect, sRwStatements, sRwStatement, sRwCond,
  sColTime, sColSlot, sColArgs,
  sFieldExprArgs,
  ("SelectStatement.GroupByInterval", "index", "call.Args[0]"),
  ("SelectStatement.GroupByOffset", "divide", "expr.Val % interval"),
  ("SelectStatement.GroupByOffset", "index", "call.Args[1]"),
  sRFAssert, sRFArgs0,
  sRegexVals0, sRegexValsI,
  sTimeFieldsIdx, sTimeFieldsPre, sTimeFieldsPost,
  sTimeAscending,
  sMarshalItems, sUnmarshalSlot,
  sEvalTypeArgs,
  sEvalArgs,
  sEvalMod, sEvalUIMod, sEvalDiv, sEvalUIDiv, sEvalIUMod, sEvalIUDiv,
  sVarRefsLessI, sVarRefsLessJ, sVarRefsStrings, sVarRefsSwapI, sVarRefsSwapJ,
  sCloneSourceUnreachable,
  sMESub0, sMESubLast, sMESubMid,
  sMRConcat, sMRNames0, sMRRuneI1, sMRRuneI, sMRSub0, sMRVals0, sMRSubTail,
  sReduceDurDiv, sReduceIntMod, sReduceUintMod, sReduceUintDiv,
  sReduceCallVals, sReduceCallArgs
]

/-- The functions of ast.go / utils.go that have a checked model (`Rewrite`: `Model/RewriteChecked.lean`). -/
def modelledFunctions : List String := [
  "CloneExpr", "CreateContinuousQueryStatement.RequiredPrivileges", "Dimensions.Normalize",
  "ExprsToConjunction", "Fields.Less", "Fields.Swap", "Rewrite", "SelectStatement.ColumnNames",
  "SelectStatement.FieldExprByName", "SelectStatement.GroupByInterval", "SelectStatement.GroupByOffset",
  "SelectStatement.RewriteFields", "SelectStatement.RewriteRegexConditions", "SelectStatement.RewriteTimeFields",
  "SelectStatement.TimeAscending", "Sources.MarshalBinary", "Sources.UnmarshalBinary",
  "TypeValuerEval.evalCallExprType", "ValuerEval.Eval",
  "ValuerEval.evalBinaryExpr", "VarRefs.Less", "VarRefs.Strings", "VarRefs.Swap", "cloneSource",
  "matchExactRegex", "matchRegex",
  "reduceBinaryExprDurationLHS", "reduceBinaryExprIntegerLHS", "reduceBinaryExprUnsignedLHS", "reduceCall"
]

/-- Every inventoried site of a modelled function is a checked primitive of its model, and
nothing else is claimed: the regenerated inventory restricted to the modelled functions *is*
`modelledSites`. A new index, slice, assertion, division or `panic` in one of these functions
breaks this obligation until the model has a primitive for it. -/
theorem gen_modelled_sites :
    sitesAst.filter (fun s => modelledFunctions.contains s.1) = modelledSites := by decide

/-- All 70 inventoried sites are checked primitives of a model with a theorem that says when they
fire: never, or never under a stated contract (`sort.Interface` indices, `Regex.wf`, `int64`
integers, a kind-preserving `Rewriter`). (The 71st site of the earlier inventory,
`source.(*Measurement)` in `Sources.MarshalBinary`, did fire on a subquery source; the repair made
it a comma-ok assertion, which is not a panic site.) -/
theorem gen_modelled_sites_count : modelledSites.length = 70 ∧ sitesAst.length = 70 := by decide

/-- The 13 sites of `Rewrite` in the inventory are the sites the assertions of
`Model/RewriteChecked.lean` carry. -/
theorem gen_rewrite_sites :
    sitesAst.filter (fun s => s.1 == "Rewrite") = Checked.rewriteSites := by decide

/-- The 2 sites of the `Sources` codec are the sites of `Model/SourcesCodecChecked.lean`. -/
theorem gen_codec_sites :
    sitesAst.filter (fun s => s.1 == "Sources.MarshalBinary" || s.1 == "Sources.UnmarshalBinary")
      = Checked.codecSites := by decide

/-- No function with an inventoried site is without a checked model. -/
theorem gen_unmodelled_functions :
    ((sitesAst.filter (fun s => !modelledFunctions.contains s.1)).map (·.1)).eraseDups = [] := by
  decide

/-- The type switch of `Rewrite` as transcribed in `Model/RewriteChecked.lean`: per case clause the
type and the statements of its body, with the definition that models it. Cases that are *not* here
(`Sources`, `*Measurement`, every statement type but `*SelectStatement`, `SortFields`, `*Target`, …)
are the catch-all rows of `rewriteChecked` / `rewriteStatement` / `rewriteExpr`. -/
def reviewedRewriteSwitch : List (List String × List String) := [
  (["*Query"], ["n.Statements = Rewrite(r, n.Statements).(Statements)"]),  -- rewriteChecked (.query …)
  (["Statements"], ["for i, s := range n { n[i] = Rewrite(r, s).(Statement) }"]),  -- rewriteStatements
  (["*SelectStatement"], ["n.Fields = Rewrite(r, n.Fields).(Fields)",  -- rewriteSelect
    "n.Dimensions = Rewrite(r, n.Dimensions).(Dimensions)",
    "n.Sources = Rewrite(r, n.Sources).(Sources)",
    "if cond := Rewrite(r, n.Condition); cond != nil { n.Condition = cond.(Expr) } else { n.Condition = nil }"]),  -- rewriteCondition
  (["*SubQuery"], ["n.Statement = Rewrite(r, n.Statement).(*SelectStatement)"]),  -- rewriteChecked (.source (.subquery …))
  (["Fields"], ["for i, f := range n { n[i] = Rewrite(r, f).(*Field) }"]),  -- rewriteFields
  (["*Field"], ["n.Expr = Rewrite(r, n.Expr).(Expr)"]),  -- rewriteField
  (["Dimensions"], ["for i, d := range n { n[i] = Rewrite(r, d).(*Dimension) }"]),  -- rewriteDimensions
  (["*Dimension"], ["n.Expr = Rewrite(r, n.Expr).(Expr)"]),  -- rewriteDimension
  (["*BinaryExpr"], ["n.LHS = Rewrite(r, n.LHS).(Expr)", "n.RHS = Rewrite(r, n.RHS).(Expr)"]),  -- rewriteExpr (.binary …)
  (["*ParenExpr"], ["n.Expr = Rewrite(r, n.Expr).(Expr)"]),  -- rewriteExpr (.paren …)
  (["*Call"], ["for i, expr := range n.Args { n.Args[i] = Rewrite(r, expr).(Expr) }"])  -- rewriteExpr (.call …), rewriteArgs
]

/-- The type switch of `Rewrite` in /repo (regenerated: case types and the statements of each case,
comments dropped) is the one the model transcribes, and around it there is only the final call of the
rewriter. A new case, a changed assertion, a moved or removed nil guard breaks this obligation. -/
theorem gen_rewrite_switch :
    Gen.rewriteSwitch = reviewedRewriteSwitch ∧
    Gen.rewriteRest = ["switch n := node.(type) { … }", "return r.Rewrite(node)"] :=
  ⟨rfl, rfl⟩

/-- The bodies of the codec functions as transcribed in `Model/SourcesCodecChecked.lean`. -/
def reviewedCodecBodies : List (String × List String) := [
  ("Sources.MarshalBinary", ["var pb internal.Measurements",
    "pb.Items = make([]*internal.Measurement, len(a))",
    "for i, source := range a { mm, ok := source.(*Measurement) if !ok { return nil, fmt.Errorf(\"cannot encode source of type %T: only measurements can be encoded\", source) } pb.Items[i] = encodeMeasurement(mm) }",  -- marshalItems, marshalOne, errNotMeasurement
    "return proto.Marshal(&pb)"]),
  ("Sources.UnmarshalBinary", ["var pb internal.Measurements",
    "if err := proto.Unmarshal(buf, &pb); err != nil { return err }",
    "*a = make(Sources, len(pb.GetItems()))",
    "for i := range pb.GetItems() { mm, err := decodeMeasurement(pb.GetItems()[i]) if err != nil { return err } (*a)[i] = mm }",  -- unmarshalItems, unmarshalOne
    "return nil"]),
  ("encodeMeasurement", ["pb := &internal.Measurement{ Database: proto.String(mm.Database), RetentionPolicy: proto.String(mm.RetentionPolicy), Name: proto.String(mm.Name), IsTarget: proto.Bool(mm.IsTarget), }",
    "if mm.Regex != nil { pb.Regex = proto.String(mm.Regex.Val.String()) }",
    "return pb"]),
  ("decodeMeasurement", ["mm := &Measurement{ Database: pb.GetDatabase(), RetentionPolicy: pb.GetRetentionPolicy(), Name: pb.GetName(), IsTarget: pb.GetIsTarget(), }",
    "if pb.Regex != nil { regex, err := regexp.Compile(pb.GetRegex()) if err != nil { return nil, fmt.Errorf(\"invalid binary measurement regex: value=%q, err=%s\", pb.GetRegex(), err) } mm.Regex = &RegexLiteral{Val: regex} }",
    "return mm, nil"])
]

/-- The codec functions in /repo are the ones the model transcribes. -/
theorem gen_codec_bodies : Gen.codecBodies = reviewedCodecBodies := by rfl

/-! ## `ColumnNames`, `FieldExprByName`, `TimeAscending`, `ExprsToConjunction`, `RewriteTimeFields` -/

/-- The checked `ColumnNames` (slice `f.Args[1:]`, the stores `columnNames[0]` and
`columnNames[i+offset]` and the read of `columnNames[i+offset]` are bounds-checked) returns, for
every statement, exactly the list the total model of C20 returns — the model the stream
`columns.names` compares with the Go code. -/
theorem columnNames_checked_eq (s : SelectStmt) :
    ∃ out, Checked.columnNames s = .ok out ∧ s.columnNames = some out := by
  obtain ⟨out, h⟩ := C20.columnNames_total s
  refine ⟨out, ?_, h⟩
  unfold SelectStmt.columnNames at h
  unfold Checked.columnNames
  rw [Checked.columnNamesOf_eq, h]

/-- **C13 (ColumnNames).** No panic for any statement; `SELECT top()` included (repaired by 7d5f959). -/
theorem columnNames_no_panic (s : SelectStmt) : (Checked.columnNames s).isPanic = false := by
  obtain ⟨out, h, _⟩ := columnNames_checked_eq s
  exact Checked.isPanic_ok h

/-- **C13 (FieldExprByName).** The slice `call.Args[1 : len(call.Args)-1]` is in range whenever it is
evaluated: the function returns for every field list and name. -/
theorem fieldExprByName_no_panic (name : Str) (fields : List Field) :
    ∃ r, Checked.fieldExprByName name fields = .ok r :=
  Checked.fieldExprByNameLoop_ok name fields 0

/-- **C13 (TimeAscending).** -/
theorem timeAscending_no_panic (sortFields : List SortField) :
    ∃ b, Checked.timeAscending sortFields = .ok b := ⟨_, Checked.timeAscending_eq sortFields⟩

/-- **C13 (ExprsToConjunction).** -/
theorem exprsToConjunction_no_panic (exprs : List Expr) :
    ∃ r, Checked.exprsToConjunction exprs = .ok r := ⟨_, Checked.exprsToConjunction_eq exprs⟩

/-- **C13 (RewriteTimeFields).** The index loop over a slice that shrinks while it runs stays inside
the slice (`s.Fields[i]`, `s.Fields[:i]`, `s.Fields[i+1:]`), and ends. -/
theorem rewriteTimeFields_no_panic (fields : List Field) (timeAlias : Str) :
    ∃ r, Checked.rewriteTimeFields fields timeAlias = .ok r :=
  Checked.rewriteTimeFields_ok fields timeAlias

/-! ## `sort.Interface` of `Fields` / `VarRefs`, `VarRefs.Strings`

`Less(i, j)` and `Swap(i, j)` index the slice with the caller's `i`, `j`. The hypothesis is the
contract of `sort.Interface`: `0 ≤ i, j < Len()`. `Swap` keeps the length, so the contract is
maintained across calls. -/

theorem fieldsLess_no_panic (a : List Field) (i j : Int)
    (hi : 0 ≤ i ∧ i < a.length) (hj : 0 ≤ j ∧ j < a.length) :
    ∃ b, Checked.fieldsLess a i j = .ok b := Checked.fieldsLess_ok a i j hi hj

theorem fieldsSwap_no_panic (a : List Field) (i j : Int)
    (hi : 0 ≤ i ∧ i < a.length) (hj : 0 ≤ j ∧ j < a.length) :
    ∃ a', Checked.fieldsSwap a i j = .ok a' ∧ a'.length = a.length := Checked.fieldsSwap_ok a i j hi hj

theorem varRefsLess_no_panic (a : List ColRef) (i j : Int)
    (hi : 0 ≤ i ∧ i < a.length) (hj : 0 ≤ j ∧ j < a.length) :
    ∃ b, Checked.varRefsLess a i j = .ok b := Checked.varRefsLess_ok a i j hi hj

theorem varRefsSwap_no_panic (a : List ColRef) (i j : Int)
    (hi : 0 ≤ i ∧ i < a.length) (hj : 0 ≤ j ∧ j < a.length) :
    ∃ a', Checked.varRefsSwap a i j = .ok a' ∧ a'.length = a.length := Checked.varRefsSwap_ok a i j hi hj

/-- **C13 (VarRefs.Strings).** -/
theorem varRefsStrings_no_panic (a : List ColRef) :
    Checked.varRefsStrings a = .ok (a.map (·.name)) := Checked.varRefsStrings_eq a

/-! ## Clone routines -/

/-- The model's `Expr` has a constructor for exactly the struct types of ast.go that carry the
`expr()` marker (regenerated list `Gen.exprTypes`), and `Source` for those with `source()`: a new
node type in the Go code breaks this obligation. -/
theorem gen_node_types_modelled :
    (Gen.exprTypes.filterMap (Gen.structNames[·]?)).all (Checked.modelExprTypes.contains ·) = true ∧
    Checked.modelExprTypes.all ((Gen.exprTypes.filterMap (Gen.structNames[·]?)).contains ·) = true ∧
    (Gen.sourceTypes.filterMap (Gen.structNames[·]?)).all (Checked.modelSourceTypes.contains ·) = true ∧
    Checked.modelSourceTypes.all ((Gen.sourceTypes.filterMap (Gen.structNames[·]?)).contains ·) = true := by
  decide

/-- Every constructor of `Expr` stands for one of the listed struct types. -/
theorem exprGoType_mem (e : Expr) : Checked.exprGoType e ∈ Checked.modelExprTypes := by
  cases e <;> simp [Checked.exprGoType, Checked.modelExprTypes]

/-- **C13 (CloneExpr).** For every expression the type switch of `CloneExpr` (as regenerated from
/repo) has a case — `panic("unreachable")` is not reached —, the stores `args[i]` are in range, and
the clone equals the original. -/
theorem cloneExpr_no_panic (e : Expr) : Checked.cloneExpr e = .ok e := Checked.cloneExpr_eq e

/-- **C13 (SelectStatement.Clone, cloneSources, cloneSource, Measurement.Clone).** For every
statement, subqueries at any depth included. (A `Target` without `Measurement` cannot be written
in the model: that nil dereference is outside the inventory.) -/
theorem cloneSelect_no_panic (s : SelectStmt) : Checked.cloneSelect s = .ok s := Checked.cloneSelect_eq s

theorem cloneSource_no_panic (s : Source) : Checked.cloneSource s = .ok s := Checked.cloneSource_eq s

/-! ## `RewriteRegexConditions` -/

/-- **C13 (RewriteRegexConditions).** With the checked reads `vals[0]`, `vals[i]` the rewrite returns,
for every condition and whatever `matchExactRegex` answers (`exact`), what the total model of C11
returns. In particular `host =~ /a/ + 1` is left alone (repaired by 811d75b). -/
theorem rewriteRegexExpr_no_panic (exact : Str → Option (List Str)) (e : Expr) :
    Checked.rewriteRegexExpr exact e = .ok (Rx.rewriteExpr exact e) := Checked.rewriteRegexExpr_eq exact e

theorem rewriteRegexCondition_no_panic (parseRe : Str → Option Rx.Regex) (c : Option Expr) :
    Checked.rewriteRegexCondition (Rx.matchExact parseRe) c = .ok (Rx.rewriteCondition parseRe c) :=
  Checked.rewriteRegexCondition_eq parseRe c

/-- **C13 (matchRegex).** On every tree that satisfies the invariants of `regexp/syntax` output
(`Regex.wf`: a capture has one sub-expression, a concatenation or alternation at least one, a
character class an even number of bounds with `lo ≤ hi`; leaves have none) the checked
`matchRegex` — `re.Sub[0]`, `re.Sub[1:]`, `names[0]`, `vals[0]`, `concat[i*len(vals)+j]`,
`re.Rune[i]`, `re.Rune[i+1]` — does not panic. The hypothesis is a guarantee of the standard
library, not of the parser; the oracle of the C11 streams (`regex.match`, `regex.sem`) checks it on
every tree it is sent. -/
theorem matchRegex_no_panic (re : Rx.Regex) (hw : re.wf = true) :
    (Checked.matchRegex re).isPanic = false := Checked.matchRegex_np re hw

/-- **C13 (matchExactRegex).** `re.Sub[0]`, `re.Sub[len(re.Sub)-1]`, `re.Sub[1 : len(re.Sub)-1]` are
guarded by `len(re.Sub) < 2`; the inner tree handed to `matchRegex` is well-formed again. -/
theorem matchExactRegex_no_panic (re : Rx.Regex) (hw : re.wf = true) :
    (Checked.matchExactTree re).isPanic = false := Checked.matchExactTree_np re hw

/-- The hypothesis of `matchRegex_no_panic` is needed: a capture node without sub-expression (never
built by `regexp/syntax`) makes `re.Sub[0]` panic. -/
theorem matchRegex_needs_wf : (Checked.matchRegex (.mk .capture 0 [] [])).isPanic = true := by decide

/-! ## `RewriteFields`: the two sites of the wildcard expansion of a call field -/

/-- **C13 (RewriteFields, `case *Call:`).** For a field that is a call, `CloneExpr(expr).(*Call)`
holds (the clone of a call is a call), and `call.Args[0]` is read only behind `len(call.Args) > 0`
(in the descent) or after `len(call.Args) == 0` was excluded: no panic, whatever the fuel given to
the descent loop (`.err` = fuel exhausted) … -/
theorem rewriteFieldsCallHead_no_panic (fuel : Nat) (name : Str) (args : List Expr) :
    (Checked.rewriteFieldsCallHead fuel (.call name args)).isPanic = false :=
  Checked.rewriteFieldsCallHead_np fuel name args

/-- … and the descent ends: for some fuel the prologue returns a value. -/
theorem rewriteFieldsCallHead_terminates (name : Str) (args : List Expr) :
    ∃ fuel r, Checked.rewriteFieldsCallHead fuel (.call name args) = .ok r := by
  obtain ⟨fuel, ⟨cn, cargs⟩, h⟩ := Checked.innerCallLoop_terminates name args
  refine ⟨fuel, ?_⟩
  unfold Checked.rewriteFieldsCallHead
  rw [Checked.cloneExpr_eq]
  simp only [Checked.ok_bind, Checked.asCall, Checked.assertT]
  rw [h]
  simp only [Checked.ok_bind]
  by_cases hc : cargs.length = 0
  · rw [if_pos hc]; exact ⟨_, rfl⟩
  · rw [if_neg hc, Checked.idx_of_eq Checked.sRFArgs0 cargs (i := 0) (n := 0) (x := cargs[0]) rfl
      (List.getElem?_eq_getElem (by omega))]
    exact ⟨_, rfl⟩

/-! ## `Rewrite` with a caller-supplied `Rewriter` (`Model/RewriteChecked.lean`)

The 13 unchecked assertions of `Rewrite` store what the rewriter answered for a child into the
field of the parent the child came from. They are safe exactly as far as the rewriter answers
each node with a node of the interface kind of that field. -/

open Checked in
/-- **C13 (Rewrite).** If the rewriter answers every node with a node of the same interface kind
(`KindPreserving`: an expression with any expression, `Fields` with `Fields`, a `*Field` with a
`*Field`, `Dimensions` / `*Dimension` / `Sources` / `Statements` likewise, a SELECT with a SELECT,
another statement with a statement, nil with nil), then `Rewrite` returns for every node — a
query, a statement list, any statement, a subquery source, field and dimension lists and their
elements, any expression, the nil node — and the result has the kind of the argument. SELECT
statements without a condition included: the nil condition is handed to the rewriter as the nil
node and its answer is only asserted when it is not nil. -/
theorem rewrite_no_panic (rw : Node → Node) (h : KindPreserving rw) (node : Node) :
    ∃ m, rewriteChecked rw node = .ok m ∧ m.kind = node.kind := rewriteChecked_kind h node

open Checked in
/-- The same under the weaker contract `Accepts rw`, which lists slot by slot what the assertions
demand: `Statements`, `Statement`, `*SelectStatement` (for a SELECT), `Fields`, `*Field`,
`Dimensions`, `*Dimension`, `Sources`, `Expr` for an expression, and nil or an expression for the
nil node (the answer to a missing condition may be a new condition). Nothing is asked about
`*Query`, `*SubQuery`, `*Measurement`, sort fields, targets. -/
theorem rewrite_no_panic_of_accepts (rw : Node → Node) (h : Accepts rw) (node : Node) :
    ∃ m, rewriteChecked rw node = .ok m := rewriteChecked_ok h node

open Checked in
/-- `KindPreserving` implies `Accepts`. -/
theorem kindPreserving_accepts (rw : Node → Node) (h : KindPreserving rw) : Accepts rw := h.accepts

open Checked in
/-- **C13 (RewriteFunc with the identity).** `RewriteFunc(n, func(n Node) Node { return n })`
returns `n`, for every node. -/
theorem rewrite_identity (node : Node) : rewriteChecked idRewriter node = .ok node :=
  rewriteChecked_id node

open Checked in
/-- **C13 (Rewrite with an expression rewriter).** A rewriter that replaces expressions by
expressions (`fn : Expr → Expr`, total: it never answers nil) and leaves every other node alone
is kind-preserving, so `Rewrite` with it returns for every node and every `fn`. -/
theorem rewrite_exprRewriter_no_panic (fn : Expr → Expr) (node : Node) :
    ∃ m, rewriteChecked (exprRewriter fn) node = .ok m ∧ m.kind = node.kind :=
  rewriteChecked_kind (exprRewriter_kindPreserving fn) node

open Checked in
/-- **C13 (Rewrite, SELECT without a condition).** Spelled out for the case the guard
`if cond := Rewrite(r, n.Condition); cond != nil` exists for: for every kind-preserving rewriter
and every SELECT, with or without condition, the statement case returns a SELECT. -/
theorem rewrite_select_no_panic (rw : Node → Node) (h : KindPreserving rw) (s : SelectStmt) :
    ∃ s', rewriteChecked rw (.statement (.select s)) = .ok (.statement (.select s')) :=
  rewriteSelect_ok h.accepts s

open Checked in
/-- What the guard is for: the unguarded form of the store, `x = Rewrite(r, x).(Expr)`, on a nil
slot panics already with the identity rewriter (`nil.(Expr)` panics); the guarded form returns nil. -/
theorem rewrite_nil_condition_guard :
    (rewriteSlot idRewriter sRwCond none).isPanic = true ∧ rewriteCondition idRewriter none = .ok none := by
  exact ⟨rfl, rfl⟩

private def emptySelect : SelectStmt := default
private def selectWhere (c : Expr) : SelectStmt :=
  .mk [] none [] [] (some c) [] 0 0 0 0 false .null .none none [] false false [] false
private def refX : Expr := .varRef ['x'] .Unknown

open Checked in
/-- **The contract is needed, at every one of the 13 sites**: for each assertion of `Rewrite` there
is a rewriter that is not kind-preserving and a node on which exactly that assertion panics. -/
theorem rewrite_needs_contract :
    ∀ s ∈ rewriteSites, ∃ (rw : Node → Node) (node : Node),
      ¬ KindPreserving rw ∧ rewriteChecked rw node = .panic s.str := by
  have hb : ∀ k, k ≠ Kind.target → ∀ n : Node, n.kind = k → ¬ KindPreserving (breakAt k) := by
    intro k hk n hn hkp
    have := hkp n
    rw [breakAt, if_pos hn, hn] at this
    exact hk this.symm
  have hd : ¬ KindPreserving dropVarRefs := fun hkp => by
    have := hkp (.expr refX)
    cases this
  intro s hs
  simp only [rewriteSites, List.mem_cons, List.not_mem_nil, or_false] at hs
  rcases hs with rfl | rfl | rfl | rfl | rfl | rfl | rfl | rfl | rfl | rfl | rfl | rfl | rfl
  · exact ⟨breakAt .dimension, .dimensions [.integer 1], hb _ (by decide) (.dimension .nil) rfl, rfl⟩
  · exact ⟨dropVarRefs, .expr (.call ['f'] [.integer 1, refX]), hd, rfl⟩
  · exact ⟨breakAt .field, .fields [{ expr := .integer 1 }], hb _ (by decide) (.field default) rfl, rfl⟩
  · exact ⟨breakAt .dimensions, .statement (.select emptySelect), hb _ (by decide) (.dimensions []) rfl, rfl⟩
  · exact ⟨dropVarRefs, .field { expr := refX }, hd, rfl⟩
  · exact ⟨breakAt .fields, .statement (.select emptySelect), hb _ (by decide) (.fields []) rfl, rfl⟩
  · exact ⟨dropVarRefs, .expr (.binary .ADD refX (.integer 1)), hd, rfl⟩
  · exact ⟨dropVarRefs, .expr (.binary .ADD (.integer 1) refX), hd, rfl⟩
  · exact ⟨breakAt .sources, .statement (.select emptySelect), hb _ (by decide) (.sources []) rfl, rfl⟩
  · exact ⟨breakAt .select, .source (.subquery emptySelect), hb _ (by decide)
      (.statement (.select emptySelect)) rfl, rfl⟩
  · exact ⟨breakAt .statements, .query [], hb _ (by decide) (.statements []) rfl, rfl⟩
  · exact ⟨breakAt .statement, .statements [.showDatabases], hb _ (by decide) (.statement .showDatabases) rfl, rfl⟩
  · exact ⟨breakAt .expr, .statement (.select (selectWhere (.boolean true))), hb _ (by decide) (.expr .nil) rfl, rfl⟩

open Checked in
/-- The nil node is part of the contract as well: a rewriter that answers the nil condition with
something that is neither nil nor an expression panics on a SELECT without condition. -/
theorem rewrite_needs_contract_nil :
    rewriteChecked (breakAt .nil) (.statement (.select emptySelect)) = .panic sRwCond.str := rfl

open Checked in
/-- The demand is on what `Rewrite` returns for the child: whenever that is not an expression (for
any rewriter whatever), the assertion in the parent panics. Stated for the child of a `*ParenExpr`. -/
theorem rewrite_contract_necessary (rw : Node → Node) (e : Expr) (m : Node)
    (h : rewriteChecked rw (.expr e) = .ok m) (hm : m.asExpr = none) :
    rewriteChecked rw (.expr (.paren e)) = .panic sRwNExpr.str := by
  simp only [rewriteChecked] at h ⊢
  simp only [rewriteExpr, h, hm, Checked.ok_bind, assertT, Checked.panic_bind]

/-! ## The protobuf codec of `Sources` (`Model/SourcesCodecChecked.lean`)

Between the `Sources` value and the record list handed to / received from the protobuf library. -/

open Checked in
/-- **C13 (Sources.MarshalBinary).** For every `Sources` value the function returns: if all
elements are measurements, the record list of the encoded measurements (the stores `pb.Items[i]`
are in range); if an element is a subquery, the error `cannot encode source of type
*influxql.SubQuery: only measurements can be encoded`. Never a panic.

History: before the repair (`fix:` commit in /repo) the loop asserted `source.(*Measurement)` without
comma-ok and `MarshalBinary` panicked on the sources of `SELECT a FROM (SELECT a FROM m)`
(`interface conversion: influxql.Source is *influxql.SubQuery, not *influxql.Measurement`); this
model then had the theorems `marshalBinary_panics_iff` / `marshalBinary_panics_on_parsed_statement`. -/
theorem marshalBinary_no_panic (a : List Source) :
    ((∀ s ∈ a, (sourceAsMeasurement s).isSome) ∧ marshalItems a = .ok (a.map marshalSlot)) ∨
    ((∃ s ∈ a, ∃ sub, s = .subquery sub) ∧ marshalItems a = .err errNotMeasurement) := by
  by_cases h : ∀ s ∈ a, (sourceAsMeasurement s).isSome
  · exact .inl ⟨h, marshalItems_of_measurements a h⟩
  · simp only [Classical.not_forall] at h
    obtain ⟨s, hs, hn⟩ := h
    cases s with
    | measurement m => exact absurd rfl hn
    | subquery sub => exact .inr ⟨⟨_, hs, sub, rfl⟩, marshalItems_of_subquery a ⟨_, hs, rfl⟩⟩

/-- `SELECT a FROM (SELECT a FROM m)`. -/
def marshalWitnessText : Str :=
  ['S','E','L','E','C','T',' ','a',' ','F','R','O','M',' ','(','S','E','L','E','C','T',' ','a',' ','F','R','O','M',' ','m',')']

/-- "The text parses to a SELECT whose `Sources.MarshalBinary()` returns the error", as a computation. -/
def parsesAndMarshalErrs (r : Except Fail Statement) : Bool :=
  match r with
  | .ok (.select s) =>
    match Checked.marshalItems s.sources with
    | .err m => m == Checked.errNotMeasurement
    | _ => false
  | _ => false

/-- The statement on which the pre-repair code panicked (kernel-evaluated with the model's parser):
`SELECT a FROM (SELECT a FROM m)` is accepted, and `MarshalBinary` on its `Sources` is now the error. -/
theorem marshalBinary_error_on_former_witness :
    parsesAndMarshalErrs (parseStatementText marshalWitnessText [] []) = true := by decide +kernel

open Checked in
/-- **C13 (Sources.UnmarshalBinary).** On every record list the protobuf library can hand back,
and whatever `regexp.Compile` says about the regex texts in it, the stores `(*a)[i]` are in range:
the result is the list of decoded measurements, or the error for a regex that does not compile —
never a panic. -/
theorem unmarshalBinary_no_panic (compiles : Str → Bool) (items : List PbMeasurement) :
    unmarshalItems compiles items = .ok (items.map fun pb => some (.measurement (decodedMeasurement pb))) ∨
    unmarshalItems compiles items = .err errBadRegex := unmarshalItems_cases compiles items

open Checked in
/-- Decoding an encoded measurement returns it, up to `SystemIterator` (not encoded), if its regex
compiles. -/
theorem decode_encode_measurement (compiles : Str → Bool) (m : Measurement)
    (h : ∀ r, m.regex = some r → compiles r = true) :
    decodeMeasurement compiles (encodeMeasurement m) = .ok { m with systemIterator := [] } :=
  decode_encode compiles m h

/-! ## `Reduce`, `Eval` -/

/-- **C13 (Reduce).** With checked integer `/` and `%` (`reduceBinaryExprDurationLHS`, `…IntegerLHS`,
`…UnsignedLHS`) and checked stores `args[i]`, `argVals[i]` (`reduceCall`), `Reduce` returns, for every
expression, every valuer, every float arithmetic and every string oracle, what the total model of
C09 returns. `10s / 0.5` included (repaired by af66bbd). -/
theorem reduce_no_panic {F : Type} (A : FloatAlg F) (S : StrAlg) (V : Valuer F) (e : RExpr F) :
    Checked.Reduce A S V e = .ok (InfluxQL.Reduce A S V e) := Checked.Reduce_eq A S V e

/-- **C13 (Eval).** With the six checked integer `/` `%` of `evalBinaryExpr` and the checked stores
`args[i]`, `Eval` returns what the total model of C09 returns, provided the integers are `int64`s:
`intsOk e` — every integer literal of `e` is in the `int64` range — and `valuerIntsOk V` — so is
every integer the valuer returns. (The model's `Int` is wider than Go's `int64`; the guard
`rhs == 0` before `lhs / uint64(rhs)` protects the division only for an `int64` `rhs`.) -/
theorem eval_no_panic {F : Type} (A : FloatAlg F) (S : StrAlg) (ifd : Bool) (V : Valuer F)
    (hV : Checked.valuerIntsOk V) (e : RExpr F) (he : Checked.intsOk e = true) :
    Checked.eval A S ifd V e = .ok (InfluxQL.eval A S ifd V e) := (Checked.eval_eq A S ifd V hV e he).1

/-- The hypothesis of `eval_no_panic` is needed in the model: an "integer" outside the `int64`
range whose low 64 bits are zero passes the guard and divides by zero. -/
theorem eval_needs_int64 {F : Type} (A : FloatAlg F) (S : StrAlg) :
    (Checked.evalBin A S false .div (.uint 1) (.int 18446744073709551616)).isPanic = true := by
  rfl

/-- **C13 (evalCallExprType).** The stores `args[i]` are in range: if `EvalType` answers on every
argument, so does the loop. -/
theorem evalCallArgTypes_no_panic (evalType : Expr → OpRes DataType) (g : Expr → DataType)
    (args : List Expr) (h : ∀ a ∈ args, evalType a = .ok (g a)) :
    Checked.evalCallArgTypes evalType args = .ok (args.map g) :=
  Checked.evalCallArgTypes_eq evalType g args h

/-! ## Totality results of the other properties, restated -/

/-- `ColumnNames` returns for every statement (the suffix loop cannot run out of candidates). -/
theorem columnNames_total (s : SelectStmt) : ∃ out, s.columnNames = some out := C20.columnNames_total s

/-- `RequiredPrivileges` returns a non-empty list without error for every statement the parser
can produce (`WellFormed`: every SELECT has a source, a continuous query has an INTO target). -/
theorem requiredPrivileges_total (st : Statement) (hwf : C19.WellFormed st) :
    ∃ l, requiredPrivileges st = .ok l ∧ l ≠ [] := C19.nonempty_no_error st hwf

-- the witnesses that used to panic
example : (groupByOffset [.call timeName [.duration 0, .duration 1000000000]]).isPanic = false := by rfl
example : (normalize [.call timeName []]).isPanic = false := by rfl
example : (normalize [.call timeName [.integer 5]]).isPanic = false := by rfl

-- the checked primitives are live: outside the guards of the code they do panic
example : (Checked.sliceFrom Checked.sColArgs ([] : List Expr) 1).isPanic = true := by decide
example : (Checked.idx Checked.sTimeAscending ([] : List SortField) 0).isPanic = true := by decide
example : (Checked.slice Checked.sFieldExprArgs ([] : List Expr) 1 ((0 : Int) - 1)).isPanic = true := by decide
example : (Checked.remI64 Checked.sEvalMod 1 0).isPanic = true := by decide
example : (Checked.caseOrPanic (α := Expr) Checked.sCloneUnreachable Checked.nCloneExpr ['N', 'o', 'p', 'e']
    (.ok .nil)).isPanic = true := by decide

-- the checked `matchExactRegex` computes what the total model of C11 computes (samples through the
-- capture / alternate / literal cases, the three concatenation strategies and a character class)
section
open Rx
private def lit (s : List Nat) : Regex := .mk .literal 0 s []
private def anchored (inner : List Regex) : Regex :=
  .mk .concat 0 [] (.mk .beginText 0 [] [] :: inner ++ [.mk .endText 0 [] []])
example : Checked.matchExactTree (anchored []) = .ok (matchExactTree (anchored [])) := by rfl
example : let t := anchored [.mk .capture 0 [] [.mk .alternate 0 [] [lit [97], lit [98, 99]]], lit [100]]
    Checked.matchExactTree t = .ok (matchExactTree t) := by rfl
example : let t := anchored [lit [100], .mk .alternate 0 [] [lit [97], lit [98, 99]]]
    Checked.matchExactTree t = .ok (matchExactTree t) := by rfl
example : let t := anchored [.mk .charClass 0 [97, 99, 120, 121] [], .mk .alternate 0 [] [lit [49], lit [50], lit [51]]]
    Checked.matchExactTree t = .ok (matchExactTree t) := by rfl
end

end InfluxQL.C13

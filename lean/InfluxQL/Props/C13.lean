import InfluxQL.Gen.SitesAst
import InfluxQL.Model.GroupBy
import InfluxQL.Props.C19
import InfluxQL.Props.C20
/-!
# C13 — every operation on a parsed statement is total

Three ingredients:
* the inventory of syntactically visible panic sites of ast.go / utils.go, regenerated from the
  source on every run (`Gen.sitesAst`), must equal the reviewed list below — a new index, slice,
  unchecked assertion, integer division or `panic` call in those files breaks this obligation;
* models in which the relevant sites are *checked* operations (`indexOrPanic`, `remOrPanic`, the
  fuel of the suffix loop, the nil target of a continuous query) with theorems that no panic
  outcome is reachable for any input;
* the property oracle of stream `ops.total`, which runs every public operation under `recover`
  on statements of odd shape (correspondence side).
-/
namespace InfluxQL.C13
open InfluxQL Gen

/-- The reviewed panic-site inventory: (function, kind, expression) and, per entry, why it cannot
fire on statements the parser produces. -/
def reviewedSites : List (String × String × String) := [
  ("CloneExpr", "index", "args[i]"),  -- args is made with len(expr.Args); the final panic(\"unreachable\") needs an Expr type from outside the package (every node type has a case since e3b9ba1)
  ("CloneExpr", "panic", "panic(\"unreachable\")"),  -- args is made with len(expr.Args); the final panic(\"unreachable\") needs an Expr type from outside the package (every node type has a case since e3b9ba1)
  ("CreateContinuousQueryStatement.RequiredPrivileges", "index", "ep[0]"),  -- ep is a one-element literal
  ("Dimensions.Normalize", "index", "expr.Args[0]"),  -- guarded by len(expr.Args) > 0 and a comma-ok assertion (9bb7670)
  ("ExprsToConjunction", "index", "exprs[0]"),  -- guarded by len(exprs) == 0 return
  ("ExprsToConjunction", "slice", "exprs[1:]"),  -- guarded by len(exprs) == 0 return
  ("Fields.Less", "index", "a[i]"),  -- sort.Interface: indices come from package sort
  ("Fields.Less", "index", "a[j]"),  -- sort.Interface: indices come from package sort
  ("Fields.Swap", "index", "a[i]"),  -- sort.Interface
  ("Fields.Swap", "index", "a[j]"),  -- sort.Interface
  ("Rewrite", "assert", "Rewrite(r, d).(*Dimension)"),  -- each case of Rewrite returns a node of the static type it was given; a Rewriter that changes node kinds is a caller error
  ("Rewrite", "assert", "Rewrite(r, expr).(Expr)"),  -- each case of Rewrite returns a node of the static type it was given; a Rewriter that changes node kinds is a caller error
  ("Rewrite", "assert", "Rewrite(r, f).(*Field)"),  -- each case of Rewrite returns a node of the static type it was given; a Rewriter that changes node kinds is a caller error
  ("Rewrite", "assert", "Rewrite(r, n.Dimensions).(Dimensions)"),  -- each case of Rewrite returns a node of the static type it was given; a Rewriter that changes node kinds is a caller error
  ("Rewrite", "assert", "Rewrite(r, n.Expr).(Expr)"),  -- each case of Rewrite returns a node of the static type it was given; a Rewriter that changes node kinds is a caller error
  ("Rewrite", "assert", "Rewrite(r, n.Fields).(Fields)"),  -- each case of Rewrite returns a node of the static type it was given; a Rewriter that changes node kinds is a caller error
  ("Rewrite", "assert", "Rewrite(r, n.LHS).(Expr)"),  -- each case of Rewrite returns a node of the static type it was given; a Rewriter that changes node kinds is a caller error
  ("Rewrite", "assert", "Rewrite(r, n.RHS).(Expr)"),  -- each case of Rewrite returns a node of the static type it was given; a Rewriter that changes node kinds is a caller error
  ("Rewrite", "assert", "Rewrite(r, n.Sources).(Sources)"),  -- each case of Rewrite returns a node of the static type it was given; a Rewriter that changes node kinds is a caller error
  ("Rewrite", "assert", "Rewrite(r, n.Statement).(*SelectStatement)"),  -- each case of Rewrite returns a node of the static type it was given; a Rewriter that changes node kinds is a caller error
  ("Rewrite", "assert", "Rewrite(r, n.Statements).(Statements)"),  -- each case of Rewrite returns a node of the static type it was given; a Rewriter that changes node kinds is a caller error
  ("Rewrite", "assert", "Rewrite(r, s).(Statement)"),  -- each case of Rewrite returns a node of the static type it was given; a Rewriter that changes node kinds is a caller error
  ("Rewrite", "assert", "cond.(Expr)"),  -- each case of Rewrite returns a node of the static type it was given; a Rewriter that changes node kinds is a caller error
  ("SelectStatement.ColumnNames", "index", "columnNames[0]"),  -- columnNames has len(columnFields)+offset entries; Args[1:] guarded by len(f.Args) > 1 (7d5f959)
  ("SelectStatement.ColumnNames", "index", "columnNames[i+offset]"),  -- columnNames has len(columnFields)+offset entries; Args[1:] guarded by len(f.Args) > 1 (7d5f959)
  ("SelectStatement.ColumnNames", "slice", "f.Args[1:]"),  -- columnNames has len(columnFields)+offset entries; Args[1:] guarded by len(f.Args) > 1 (7d5f959)
  ("SelectStatement.FieldExprByName", "slice", "call.Args[1 : len(call.Args)-1]"),  -- guarded by len(call.Args) > 2
  ("SelectStatement.GroupByInterval", "index", "call.Args[0]"),  -- guarded by the 1..2 argument count check
  ("SelectStatement.GroupByOffset", "divide", "expr.Val % interval"),  -- Args[1] guarded by len == 2; remainder guarded by interval == 0 (c6aa33b)
  ("SelectStatement.GroupByOffset", "index", "call.Args[1]"),  -- Args[1] guarded by len == 2; remainder guarded by interval == 0 (c6aa33b)
  ("SelectStatement.RewriteFields", "assert", "CloneExpr(expr).(*Call)"),  -- CloneExpr of a *Call is a *Call; Args[0] guarded by the len(call.Args) checks before it
  ("SelectStatement.RewriteFields", "index", "call.Args[0]"),  -- CloneExpr of a *Call is a *Call; Args[0] guarded by the len(call.Args) checks before it
  ("SelectStatement.RewriteRegexConditions", "index", "vals[0]"),  -- vals indices are inside the len(vals) cases; the RHS assertion is comma-ok since 811d75b
  ("SelectStatement.RewriteRegexConditions", "index", "vals[i]"),  -- vals indices are inside the len(vals) cases; the RHS assertion is comma-ok since 811d75b
  ("SelectStatement.RewriteTimeFields", "index", "s.Fields[i]"),  -- i ranges over s.Fields
  ("SelectStatement.RewriteTimeFields", "slice", "s.Fields[:i]"),  -- i ranges over s.Fields
  ("SelectStatement.RewriteTimeFields", "slice", "s.Fields[i+1:]"),  -- i ranges over s.Fields
  ("SelectStatement.TimeAscending", "index", "s.SortFields[0]"),  -- guarded by len(s.SortFields) == 0 ||
  ("Sources.MarshalBinary", "assert", "source.(*Measurement)"),  -- binary encoding, outside the operation set of C13; subquery sources are rejected by the type switch before
  ("Sources.MarshalBinary", "index", "pb.Items[i]"),  -- binary encoding, outside the operation set of C13; subquery sources are rejected by the type switch before
  ("Sources.UnmarshalBinary", "index", "(*a)[i]"),  -- index within make(len)
  ("TypeValuerEval.evalCallExprType", "index", "args[i]"),  -- args made with len(expr.Args)
  ("ValuerEval.Eval", "index", "args[i]"),  -- args made with len(expr.Args)
  ("ValuerEval.evalBinaryExpr", "divide", "lhs % rhs"),  -- every integer / and % is guarded by rhs == 0 -> return 0
  ("ValuerEval.evalBinaryExpr", "divide", "lhs % uint64(rhs)"),  -- every integer / and % is guarded by rhs == 0 -> return 0
  ("ValuerEval.evalBinaryExpr", "divide", "lhs / rhs"),  -- every integer / and % is guarded by rhs == 0 -> return 0
  ("ValuerEval.evalBinaryExpr", "divide", "lhs / uint64(rhs)"),  -- every integer / and % is guarded by rhs == 0 -> return 0
  ("ValuerEval.evalBinaryExpr", "divide", "uint64(lhs) % rhs"),  -- every integer / and % is guarded by rhs == 0 -> return 0
  ("ValuerEval.evalBinaryExpr", "divide", "uint64(lhs) / rhs"),  -- every integer / and % is guarded by rhs == 0 -> return 0
  ("VarRefs.Less", "index", "a[i]"),  -- sort.Interface
  ("VarRefs.Less", "index", "a[j]"),  -- sort.Interface
  ("VarRefs.Strings", "index", "s[i]"),  -- s made with len(a)
  ("VarRefs.Swap", "index", "a[i]"),  -- sort.Interface
  ("VarRefs.Swap", "index", "a[j]"),  -- sort.Interface
  ("cloneSource", "panic", "panic(\"unreachable\")"),  -- Source has exactly the two implementations handled
  ("matchExactRegex", "index", "re.Sub[0]"),  -- guarded by len(re.Sub) < 2 return
  ("matchExactRegex", "index", "re.Sub[len(re.Sub)-1]"),  -- guarded by len(re.Sub) < 2 return
  ("matchExactRegex", "slice", "re.Sub[1 : len(re.Sub)-1]"),  -- guarded by len(re.Sub) < 2 return
  ("matchRegex", "index", "concat[i*len(vals)+j]"),  -- Sub[0] of capture/concat nodes built by regexp/syntax (never empty); Rune pairs of a class; concat sized len(names)*len(vals); names[0]/vals[0] inside len == 1 branches
  ("matchRegex", "index", "names[0]"),  -- Sub[0] of capture/concat nodes built by regexp/syntax (never empty); Rune pairs of a class; concat sized len(names)*len(vals); names[0]/vals[0] inside len == 1 branches
  ("matchRegex", "index", "re.Rune[i+1]"),  -- Sub[0] of capture/concat nodes built by regexp/syntax (never empty); Rune pairs of a class; concat sized len(names)*len(vals); names[0]/vals[0] inside len == 1 branches
  ("matchRegex", "index", "re.Rune[i]"),  -- Sub[0] of capture/concat nodes built by regexp/syntax (never empty); Rune pairs of a class; concat sized len(names)*len(vals); names[0]/vals[0] inside len == 1 branches
  ("matchRegex", "index", "re.Sub[0]"),  -- Sub[0] of capture/concat nodes built by regexp/syntax (never empty); Rune pairs of a class; concat sized len(names)*len(vals); names[0]/vals[0] inside len == 1 branches
  ("matchRegex", "index", "vals[0]"),  -- Sub[0] of capture/concat nodes built by regexp/syntax (never empty); Rune pairs of a class; concat sized len(names)*len(vals); names[0]/vals[0] inside len == 1 branches
  ("matchRegex", "slice", "re.Sub[1:]"),  -- Sub[0] of capture/concat nodes built by regexp/syntax (never empty); Rune pairs of a class; concat sized len(names)*len(vals); names[0]/vals[0] inside len == 1 branches
  ("reduceBinaryExprDurationLHS", "divide", "lhs.Val / time.Duration(rhs.Val)"),  -- divisor checked after conversion (af66bbd)
  ("reduceBinaryExprIntegerLHS", "divide", "lhs.Val % rhs.Val"),  -- guarded by rhs.Val == 0
  ("reduceBinaryExprUnsignedLHS", "divide", "lhs.Val % rhs.Val"),  -- guarded by rhs.Val == 0
  ("reduceBinaryExprUnsignedLHS", "divide", "lhs.Val / rhs.Val"),  -- guarded by rhs.Val == 0
  ("reduceCall", "index", "argVals[i]"),  -- args / argVals made with len(expr.Args)
  ("reduceCall", "index", "args[i]")   -- args / argVals made with len(expr.Args)
]

/-- The regenerated inventory is exactly the reviewed one. -/
theorem gen_sites_reviewed : sitesAst = reviewedSites := by rfl

/-! ## GROUP BY accessors -/

theorem indexOrPanic_ok {α} (xs : List α) (i : Nat) (site : String) (h : i < xs.length) :
    ∃ x, indexOrPanic xs i site = .ok x := by
  unfold indexOrPanic
  rw [List.getElem?_eq_getElem h]
  exact ⟨_, rfl⟩

/-- **C13 (GroupByInterval).** For every dimension list the result is a value or an error. -/
theorem groupByInterval_no_panic (dims : List Expr) : (groupByInterval dims).isPanic = false := by
  induction dims with
  | nil => rfl
  | cons d rest ih =>
    cases d <;> try exact ih
    rename_i name args
    simp only [groupByInterval]
    split
    · split
      · rfl
      · rename_i hlen
        obtain ⟨x, hx⟩ := indexOrPanic_ok args 0 "GroupByInterval: call.Args[0]" (by omega)
        rw [hx]
        cases x <;> rfl
    · exact ih

theorem groupByOffsetLoop_no_panic (interval : Int) (dims : List Expr) :
    (groupByOffsetLoop interval dims).isPanic = false := by
  induction dims with
  | nil => rfl
  | cons d rest ih =>
    cases d <;> try exact ih
    rename_i name args
    simp only [groupByOffsetLoop]
    split
    · split
      · rename_i hlen
        obtain ⟨x, hx⟩ := indexOrPanic_ok args 1 "GroupByOffset: call.Args[1]" (by omega)
        rw [hx]
        cases x <;> try rfl
        · -- duration offset: the remainder is only taken for a non-zero interval
          rename_i v
          dsimp only
          split
          · rfl
          · rename_i hne
            simp [remOrPanic, hne, OpRes.isPanic]
        · -- time offset
          dsimp only
          split <;> rfl
      · rfl
    · exact ih

/-- **C13 (GroupByOffset).** In particular `GROUP BY time(0s, 1s)` is a value (repaired by c6aa33b). -/
theorem groupByOffset_no_panic (dims : List Expr) : (groupByOffset dims).isPanic = false := by
  unfold groupByOffset
  have h := groupByInterval_no_panic dims
  cases hg : groupByInterval dims with
  | ok interval =>
    dsimp only
    split
    · rfl
    · exact groupByOffsetLoop_no_panic interval dims
  | err m => rfl
  | panic s => rw [hg] at h; cases h

theorem normalizeLoop_no_panic (dims : List Expr) (dur : Int) (tags : List Str) :
    (normalizeLoop dims dur tags).isPanic = false := by
  induction dims generalizing dur tags with
  | nil => rfl
  | cons d rest ih =>
    cases d <;> try exact ih _ _
    rename_i name args
    simp only [normalizeLoop]
    split
    · rename_i hlen
      obtain ⟨x, hx⟩ := indexOrPanic_ok args 0 "Normalize: expr.Args[0]" (by omega)
      rw [hx]
      cases x <;> exact ih _ _
    · exact ih _ _

/-- **C13 (Dimensions.Normalize).** `time()` and `time(5)` included (repaired by 9bb7670). -/
theorem normalize_no_panic (dims : List Expr) : (normalize dims).isPanic = false :=
  normalizeLoop_no_panic dims 0 []

/-! ## Totality results of the other properties, restated -/

/-- `ColumnNames` returns for every statement (the suffix loop cannot run out of candidates). -/
theorem columnNames_total (s : SelectStmt) : ∃ out, s.columnNames = some out := C20.columnNames_total s

/-- `RequiredPrivileges` returns a non-empty list without error for every statement the parser
can produce (`WellFormed`: every SELECT has a source, a continuous query has an INTO target). -/
theorem requiredPrivileges_total (st : Statement) (hwf : C19.WellFormed st) :
    ∃ l, requiredPrivileges st = .ok l ∧ l ≠ [] := C19.nonempty_no_error st hwf

-- the witnesses that used to panic
example : (groupByOffset [.call timeName [.duration 0, .duration 1000000000]]).isPanic = false := by rfl
example : (normalize [.call timeName []]).isPanic = false := by rfl
example : (normalize [.call timeName [.integer 5]]).isPanic = false := by rfl

end InfluxQL.C13

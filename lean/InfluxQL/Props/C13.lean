import InfluxQL.Gen.SitesAst
import InfluxQL.Model.GroupBy
import InfluxQL.Props.C19
import InfluxQL.Props.C20
/-!
# C13 — every operation on a parsed statement is total

Three ingredients:
* the inventory of syntactically visible panic sites of ast.go / utils.go, regenerated from the
  source on every run (`Gen.sitesAst`), must equal the reviewed list below — a new index, slice,
  unchecked assertion, integer division or `panic` call in those files breaks this obligation;
* models in which the relevant sites are *checked* operations (`indexOrPanic`, `remOrPanic`, the
  fuel of the suffix loop, the nil target of a continuous query) with theorems that no panic
  outcome is reachable for any input;
* the property oracle of stream `ops.total`, which runs every public operation under `recover`
  on statements of odd shape (correspondence side).
-/
namespace InfluxQL.C13
open InfluxQL Gen

/-- The reviewed panic-site inventory: (function, kind, expression) and, per entry, why it cannot
fire on statements the parser produces. -/
def reviewedSites : List (String × String × String) := [
)sgrA.rpxe(nel htiw edam slaVgra / sgra --  ,)"]i[sgra" ,"xedni" ,"llaCecuder"(  
)sgrA.rpxe(nel htiw edam slaVgra / sgra --  ,)"]i[slaVgra" ,"xedni" ,"llaCecuder"(  
0 == laV.shr yb dedraug --  ,)"laV.shr / laV.shl" ,"edivid" ,"SHLdengisnUrpxEyraniBecuder"(  
0 == laV.shr yb dedraug --  ,)"laV.shr % laV.shl" ,"edivid" ,"SHLdengisnUrpxEyraniBecuder"(  
0 == laV.shr yb dedraug --  ,)"laV.shr % laV.shl" ,"edivid" ,"SHLregetnIrpxEyraniBecuder"(  
)dbb66fa( noisrevnoc retfa dekcehc rosivid --  ,)")laV.shr(noitaruD.emit / laV.shl" ,"edivid" ,"SHLnoitaruDrpxEyraniBecuder"(  
sehcnarb 1 == nel edisni ]0[slav/]0[seman ;)slav(nel*)seman(nel dezis tacnoc ;ssalc a fo sriap enuR ;)ytpme reven( xatnys/pxeger yb decudorp sedon tacnoc/erutpac fo ]0[buS --  ,)"]:1[buS.er" ,"ecils" ,"xegeRhctam"(  
sehcnarb 1 == nel edisni ]0[slav/]0[seman ;)slav(nel*)seman(nel dezis tacnoc ;ssalc a fo sriap enuR ;)ytpme reven( xatnys/pxeger yb decudorp sedon tacnoc/erutpac fo ]0[buS --  ,)"]0[slav" ,"xedni" ,"xegeRhctam"(  
sehcnarb 1 == nel edisni ]0[slav/]0[seman ;)slav(nel*)seman(nel dezis tacnoc ;ssalc a fo sriap enuR ;)ytpme reven( xatnys/pxeger yb decudorp sedon tacnoc/erutpac fo ]0[buS --  ,)"]0[buS.er" ,"xedni" ,"xegeRhctam"(  
sehcnarb 1 == nel edisni ]0[slav/]0[seman ;)slav(nel*)seman(nel dezis tacnoc ;ssalc a fo sriap enuR ;)ytpme reven( xatnys/pxeger yb decudorp sedon tacnoc/erutpac fo ]0[buS --  ,)"]i[enuR.er" ,"xedni" ,"xegeRhctam"(  
sehcnarb 1 == nel edisni ]0[slav/]0[seman ;)slav(nel*)seman(nel dezis tacnoc ;ssalc a fo sriap enuR ;)ytpme reven( xatnys/pxeger yb decudorp sedon tacnoc/erutpac fo ]0[buS --  ,)"]1+i[enuR.er" ,"xedni" ,"xegeRhctam"(  
sehcnarb 1 == nel edisni ]0[slav/]0[seman ;)slav(nel*)seman(nel dezis tacnoc ;ssalc a fo sriap enuR ;)ytpme reven( xatnys/pxeger yb decudorp sedon tacnoc/erutpac fo ]0[buS --  ,)"]0[seman" ,"xedni" ,"xegeRhctam"(  
sehcnarb 1 == nel edisni ]0[slav/]0[seman ;)slav(nel*)seman(nel dezis tacnoc ;ssalc a fo sriap enuR ;)ytpme reven( xatnys/pxeger yb decudorp sedon tacnoc/erutpac fo ]0[buS --  ,)"]j+)slav(nel*i[tacnoc" ,"xedni" ,"xegeRhctam"(  
nruter 2 < )buS.er(nel yb dedraug --  ,)"]1-)buS.er(nel : 1[buS.er" ,"ecils" ,"xegeRtcaxEhctam"(  
nruter 2 < )buS.er(nel yb dedraug --  ,)"]1-)buS.er(nel[buS.er" ,"xedni" ,"xegeRtcaxEhctam"(  
nruter 2 < )buS.er(nel yb dedraug --  ,)"]0[buS.er" ,"xedni" ,"xegeRtcaxEhctam"(  
deldnah snoitatnemelpmi owt eht yltcaxe sah ecruoS --  ,)")"\elbahcaernu"\(cinap" ,"cinap" ,"ecruoSenolc"(  
ecafretnI.tros --  ,)"]j[a" ,"xedni" ,"pawS.sfeRraV"(  
ecafretnI.tros --  ,)"]i[a" ,"xedni" ,"pawS.sfeRraV"(  
)a(nel htiw edam s --  ,)"]i[s" ,"xedni" ,"sgnirtS.sfeRraV"(  
ecafretnI.tros --  ,)"]j[a" ,"xedni" ,"sseL.sfeRraV"(  
ecafretnI.tros --  ,)"]i[a" ,"xedni" ,"sseL.sfeRraV"(  
0 nruter → 0 == shr yb dedraug si % dna / regetni yreve --  ,)"shr / )shl(46tniu" ,"edivid" ,"rpxEyraniBlave.lavEreulaV"(  
0 nruter → 0 == shr yb dedraug si % dna / regetni yreve --  ,)"shr % )shl(46tniu" ,"edivid" ,"rpxEyraniBlave.lavEreulaV"(  
0 nruter → 0 == shr yb dedraug si % dna / regetni yreve --  ,)")shr(46tniu / shl" ,"edivid" ,"rpxEyraniBlave.lavEreulaV"(  
0 nruter → 0 == shr yb dedraug si % dna / regetni yreve --  ,)"shr / shl" ,"edivid" ,"rpxEyraniBlave.lavEreulaV"(  
0 nruter → 0 == shr yb dedraug si % dna / regetni yreve --  ,)")shr(46tniu % shl" ,"edivid" ,"rpxEyraniBlave.lavEreulaV"(  
0 nruter → 0 == shr yb dedraug si % dna / regetni yreve --  ,)"shr % shl" ,"edivid" ,"rpxEyraniBlave.lavEreulaV"(  
)sgrA.rpxe(nel htiw edam sgra --  ,)"]i[sgra" ,"xedni" ,"lavE.lavEreulaV"(  
)sgrA.rpxe(nel htiw edam sgra --  ,)"]i[sgra" ,"xedni" ,"epyTrpxEllaClave.lavEreulaVepyT"(  
)nel(ekam nihtiw xedni --  ,)"]i[)a*(" ,"xedni" ,"yraniBlahsramnU.secruoS"(  
)gnidocne yranib( 31C fo tes noitarepo eht edistuo ;stnemerusaem edocne taht srellac hguorht ylno seireuqbus htiw stnemetats desrap morf elbahcaer ton --  ,)"]i[smetI.bp" ,"xedni" ,"yraniBlahsraM.secruoS"(  
)gnidocne yranib( 31C fo tes noitarepo eht edistuo ;stnemerusaem edocne taht srellac hguorht ylno seireuqbus htiw stnemetats desrap morf elbahcaer ton --  ,)")tnemerusaeM*(.ecruos" ,"tressa" ,"yraniBlahsraM.secruoS"(  
|| 0 == )sdleiFtroS.s(nel yb dedraug --  ,)"]0[sdleiFtroS.s" ,"xedni" ,"gnidnecsAemiT.tnemetatStceleS"(  
sdleiF.s revo segnar i --  ,)"]:1+i[sdleiF.s" ,"ecils" ,"sdleiFemiTetirweR.tnemetatStceleS"(  
sdleiF.s revo segnar i --  ,)"]i:[sdleiF.s" ,"ecils" ,"sdleiFemiTetirweR.tnemetatStceleS"(  
sdleiF.s revo segnar i --  ,)"]i[sdleiF.s" ,"xedni" ,"sdleiFemiTetirweR.tnemetatStceleS"(  
sesac )slav(nel edisni era secidni slav ;thgir eht no laretiLxegeR a htiw sedon ~! / ~= sdliub ylno resrap eht --  ,)"]i[slav" ,"xedni" ,"snoitidnoCxegeRetirweR.tnemetatStceleS"(  
sesac )slav(nel edisni era secidni slav ;thgir eht no laretiLxegeR a htiw sedon ~! / ~= sdliub ylno resrap eht --  ,)"]0[slav" ,"xedni" ,"snoitidnoCxegeRetirweR.tnemetatStceleS"(  
sesac )slav(nel edisni era secidni slav ;thgir eht no laretiLxegeR a htiw sedon ~! / ~= sdliub ylno resrap eht --  ,)")laretiLxegeR*(.SHR.eb" ,"tressa" ,"snoitidnoCxegeRetirweR.tnemetatStceleS"(  
skcehc 0 == / 0 > )sgrA.llac(nel yb dedraug ]0[sgrA ;llaC* a si llaC* a fo rpxEenolC --  ,)"]0[sgrA.llac" ,"xedni" ,"sdleiFetirweR.tnemetatStceleS"(  
skcehc 0 == / 0 > )sgrA.llac(nel yb dedraug ]0[sgrA ;llaC* a si llaC* a fo rpxEenolC --  ,)")llaC*(.)rpxe(rpxEenolC" ,"tressa" ,"sdleiFetirweR.tnemetatStceleS"(  
)b33aa6c( 0 == lavretni yb dedraug redniamer ;2 == nel yb dedraug ]1[sgrA --  ,)"]1[sgrA.llac" ,"xedni" ,"tesffOyBpuorG.tnemetatStceleS"(  
)b33aa6c( 0 == lavretni yb dedraug redniamer ;2 == nel yb dedraug ]1[sgrA --  ,)"lavretni % laV.rpxe" ,"edivid" ,"tesffOyBpuorG.tnemetatStceleS"(  
kcehc tnuoc tnemugra 2..1 eht yb dedraug --  ,)"]0[sgrA.llac" ,"xedni" ,"lavretnIyBpuorG.tnemetatStceleS"(  
2 > )sgrA.llac(nel yb dedraug --  ,)"]1-)sgrA.llac(nel : 1[sgrA.llac" ,"ecils" ,"emaNyBrpxEdleiF.tnemetatStceleS"(  
)959f5d7( 1 > )sgrA.f(nel yb dedraug ]:1[sgrA ;seirtne tesffo+)sdleiFnmuloc(nel sah semaNnmuloc --  ,)"]:1[sgrA.f" ,"ecils" ,"semaNnmuloC.tnemetatStceleS"(  
)959f5d7( 1 > )sgrA.f(nel yb dedraug ]:1[sgrA ;seirtne tesffo+)sdleiFnmuloc(nel sah semaNnmuloc --  ,)"]tesffo+i[semaNnmuloc" ,"xedni" ,"semaNnmuloC.tnemetatStceleS"(  
)959f5d7( 1 > )sgrA.f(nel yb dedraug ]:1[sgrA ;seirtne tesffo+)sdleiFnmuloc(nel sah semaNnmuloc --  ,)"]0[semaNnmuloc" ,"xedni" ,"semaNnmuloC.tnemetatStceleS"(  
rorre rellac a si sdnik segnahc taht retirweR a ;)epyt citats emas eht fo edon nettirwer eht snruter esac hcae( nevig saw ti dnik edon eht snruter etirweR --  ,)")rpxE(.dnoc" ,"tressa" ,"etirweR"(  
rorre rellac a si sdnik segnahc taht retirweR a ;)epyt citats emas eht fo edon nettirwer eht snruter esac hcae( nevig saw ti dnik edon eht snruter etirweR --  ,)")tnemetatS(.)s ,r(etirweR" ,"tressa" ,"etirweR"(  
rorre rellac a si sdnik segnahc taht retirweR a ;)epyt citats emas eht fo edon nettirwer eht snruter esac hcae( nevig saw ti dnik edon eht snruter etirweR --  ,)")stnemetatS(.)stnemetatS.n ,r(etirweR" ,"tressa" ,"etirweR"(  
rorre rellac a si sdnik segnahc taht retirweR a ;)epyt citats emas eht fo edon nettirwer eht snruter esac hcae( nevig saw ti dnik edon eht snruter etirweR --  ,)")tnemetatStceleS*(.)tnemetatS.n ,r(etirweR" ,"tressa" ,"etirweR"(  
rorre rellac a si sdnik segnahc taht retirweR a ;)epyt citats emas eht fo edon nettirwer eht snruter esac hcae( nevig saw ti dnik edon eht snruter etirweR --  ,)")secruoS(.)secruoS.n ,r(etirweR" ,"tressa" ,"etirweR"(  
rorre rellac a si sdnik segnahc taht retirweR a ;)epyt citats emas eht fo edon nettirwer eht snruter esac hcae( nevig saw ti dnik edon eht snruter etirweR --  ,)")rpxE(.)SHR.n ,r(etirweR" ,"tressa" ,"etirweR"(  
rorre rellac a si sdnik segnahc taht retirweR a ;)epyt citats emas eht fo edon nettirwer eht snruter esac hcae( nevig saw ti dnik edon eht snruter etirweR --  ,)")rpxE(.)SHL.n ,r(etirweR" ,"tressa" ,"etirweR"(  
rorre rellac a si sdnik segnahc taht retirweR a ;)epyt citats emas eht fo edon nettirwer eht snruter esac hcae( nevig saw ti dnik edon eht snruter etirweR --  ,)")sdleiF(.)sdleiF.n ,r(etirweR" ,"tressa" ,"etirweR"(  
rorre rellac a si sdnik segnahc taht retirweR a ;)epyt citats emas eht fo edon nettirwer eht snruter esac hcae( nevig saw ti dnik edon eht snruter etirweR --  ,)")rpxE(.)rpxE.n ,r(etirweR" ,"tressa" ,"etirweR"(  
rorre rellac a si sdnik segnahc taht retirweR a ;)epyt citats emas eht fo edon nettirwer eht snruter esac hcae( nevig saw ti dnik edon eht snruter etirweR --  ,)")snoisnemiD(.)snoisnemiD.n ,r(etirweR" ,"tressa" ,"etirweR"(  
rorre rellac a si sdnik segnahc taht retirweR a ;)epyt citats emas eht fo edon nettirwer eht snruter esac hcae( nevig saw ti dnik edon eht snruter etirweR --  ,)")dleiF*(.)f ,r(etirweR" ,"tressa" ,"etirweR"(  
rorre rellac a si sdnik segnahc taht retirweR a ;)epyt citats emas eht fo edon nettirwer eht snruter esac hcae( nevig saw ti dnik edon eht snruter etirweR --  ,)")rpxE(.)rpxe ,r(etirweR" ,"tressa" ,"etirweR"(  
rorre rellac a si sdnik segnahc taht retirweR a ;)epyt citats emas eht fo edon nettirwer eht snruter esac hcae( nevig saw ti dnik edon eht snruter etirweR --  ,)")noisnemiD*(.)d ,r(etirweR" ,"tressa" ,"etirweR"(  
ecafretnI.tros --  ,)"]j[a" ,"xedni" ,"pawS.sdleiF"(  
ecafretnI.tros --  ,)"]i[a" ,"xedni" ,"pawS.sdleiF"(  
tros egakcap morf emoc secidni :ecafretnI.tros --  ,)"]j[a" ,"xedni" ,"sseL.sdleiF"(  
tros egakcap morf emoc secidni :ecafretnI.tros --  ,)"]i[a" ,"xedni" ,"sseL.sdleiF"(  
nruter 0 == )srpxe(nel yb dedraug --  ,)"]:1[srpxe" ,"ecils" ,"noitcnujnoCoTsrpxE"(  
nruter 0 == )srpxe(nel yb dedraug --  ,)"]0[srpxe" ,"xedni" ,"noitcnujnoCoTsrpxE"(  
)0767bb9( noitressa ko-ammoc a dna 0 > )sgrA.rpxe(nel yb dedraug --  ,)"]0[sgrA.rpxe" ,"xedni" ,"ezilamroN.snoisnemiD"(  
laretil tnemele-eno a si pe --  ,)"]0[pe" ,"xedni" ,"segelivirPderiuqeR.tnemetatSyreuQsuounitnoCetaerC"(  
)1ab9b3e ecnis esac a sah epyt edon TSA yreve( egakcap eht edistuo epyt rpxE na rof ylno dehcaer si )"elbahcaernu"(cinap lanif eht ;)sgrA.rpxe(nel htiw edam si sgra --  ,)")"\elbahcaernu"\(cinap" ,"cinap" ,"rpxEenolC"(  
)1ab9b3e ecnis esac a sah epyt edon TSA yreve( egakcap eht edistuo epyt rpxE na rof ylno dehcaer si )"elbahcaernu"(cinap lanif eht ;)sgrA.rpxe(nel htiw edam si sgra --  ,)"]i[sgra" ,"xedni" ,"rpxEenolC"(  
]

/-- The regenerated inventory is exactly the reviewed one. -/
theorem gen_sites_reviewed : sitesAst = reviewedSites := by decide +kernel

/-! ## GROUP BY accessors -/

theorem indexOrPanic_ok {α} (xs : List α) (i : Nat) (site : String) (h : i < xs.length) :
    ∃ x, indexOrPanic xs i site = .ok x := by
  unfold indexOrPanic
  rw [List.getElem?_eq_getElem h]
  exact ⟨_, rfl⟩

/-- **C13 (GroupByInterval).** For every dimension list the result is a value or an error. -/
theorem groupByInterval_no_panic (dims : List Expr) : (groupByInterval dims).isPanic = false := by
  induction dims with
  | nil => rfl
  | cons d rest ih =>
    cases d <;> try exact ih
    rename_i name args
    simp only [groupByInterval]
    split
    · split
      · rfl
      · rename_i hlen
        obtain ⟨x, hx⟩ := indexOrPanic_ok args 0 "GroupByInterval: call.Args[0]" (by omega)
        rw [hx]
        cases x <;> rfl
    · exact ih

theorem groupByOffsetLoop_no_panic (interval : Int) (dims : List Expr) :
    (groupByOffsetLoop interval dims).isPanic = false := by
  induction dims with
  | nil => rfl
  | cons d rest ih =>
    cases d <;> try exact ih
    rename_i name args
    simp only [groupByOffsetLoop]
    split
    · split
      · rename_i hlen
        obtain ⟨x, hx⟩ := indexOrPanic_ok args 1 "GroupByOffset: call.Args[1]" (by omega)
        rw [hx]
        cases x <;> try rfl
        · -- duration offset: the remainder is only taken for a non-zero interval
          rename_i v
          dsimp only
          split
          · rfl
          · rename_i hne
            simp [remOrPanic, hne, OpRes.isPanic]
        · -- time offset
          dsimp only
          split <;> rfl
      · rfl
    · exact ih

/-- **C13 (GroupByOffset).** In particular `GROUP BY time(0s, 1s)` is a value (repaired by c6aa33b). -/
theorem groupByOffset_no_panic (dims : List Expr) : (groupByOffset dims).isPanic = false := by
  unfold groupByOffset
  have h := groupByInterval_no_panic dims
  cases hg : groupByInterval dims with
  | ok interval =>
    dsimp only
    split
    · rfl
    · exact groupByOffsetLoop_no_panic interval dims
  | err m => rfl
  | panic s => rw [hg] at h; cases h

theorem normalizeLoop_no_panic (dims : List Expr) (dur : Int) (tags : List Str) :
    (normalizeLoop dims dur tags).isPanic = false := by
  induction dims generalizing dur tags with
  | nil => rfl
  | cons d rest ih =>
    cases d <;> try exact ih _ _
    rename_i name args
    simp only [normalizeLoop]
    split
    · rename_i hlen
      obtain ⟨x, hx⟩ := indexOrPanic_ok args 0 "Normalize: expr.Args[0]" (by omega)
      rw [hx]
      cases x <;> exact ih _ _
    · exact ih _ _

/-- **C13 (Dimensions.Normalize).** `time()` and `time(5)` included (repaired by 9bb7670). -/
theorem normalize_no_panic (dims : List Expr) : (normalize dims).isPanic = false :=
  normalizeLoop_no_panic dims 0 []

/-! ## Totality results of the other properties, restated -/

/-- `ColumnNames` returns for every statement (the suffix loop cannot run out of candidates). -/
theorem columnNames_total (s : SelectStmt) : ∃ out, s.columnNames = some out := C20.columnNames_total s

/-- `RequiredPrivileges` returns a non-empty list without error for every statement the parser
can produce (`WellFormed`: every SELECT has a source, a continuous query has an INTO target). -/
theorem requiredPrivileges_total (st : Statement) (hwf : C19.WellFormed st) :
    ∃ l, requiredPrivileges st = .ok l ∧ l ≠ [] := C19.nonempty_no_error st hwf

-- the witnesses that used to panic
example : (groupByOffset [.call timeName [.duration 0, .duration 1000000000]]).isPanic = false := by rfl
example : (normalize [.call timeName []]).isPanic = false := by rfl
example : (normalize [.call timeName [.integer 5]]).isPanic = false := by rfl

end InfluxQL.C13

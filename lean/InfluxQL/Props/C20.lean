import InfluxQL.Lemmas.Columns
import InfluxQL.Model.ColumnsOfStmt
/-!
# C20 — result column names are complete, stable and unambiguous

Model: `SelectStmt.columnNames` (Model/Columns.lean) = `SelectStatement.ColumnNames` with
`TimeFieldName`, `Field.Name`, `BinaryExprName`. The model returns `none` only when the fuel of the
suffix loop (`len(names) + 1`) runs out; `suffix_loop_terminates` / `columnNames_total` show that it
never does, i.e. the unbounded `for { … }` of the code always exits.

The result is a function of `(Fields, Target == nil, OmitTime, TimeAlias)` only
(`depends_only_on`); purity is definitional in the model and checked on the implementation by the
property oracle of stream `columns.names` (two calls, statement unchanged).
-/
namespace InfluxQL.C20
open InfluxQL

/-- Number of leading time columns. -/
def offset (s : SelectStmt) : Nat := if s.omitTime then 0 else 1

/-- The output columns of a statement apart from time (`columnFields` of the code). -/
def columns (s : SelectStmt) : List Field := columnFields s.target.isSome s.fields

/-- Specification of the extra columns of a field: the arguments after the first of a call to
`top` or `bottom` that are plain references, each as a column without alias. -/
def tagArguments (f : Field) : List Field :=
  match f.expr with
  | .call name (_ :: rest) =>
    if name = topLit ∨ name = bottomLit then
      rest.filterMap refColumn
    else []
  | _ => []

theorem columnNames_eq (s : SelectStmt) :
    s.columnNames = (fieldColumnNames (columns s)).map fun ns =>
      if s.omitTime then ns else timeFieldName s.timeAlias :: ns := rfl

/-- The result depends on the field list, on whether there is an INTO target, and on the two time
settings only. -/
theorem depends_only_on (s t : SelectStmt) (h1 : s.fields = t.fields)
    (h2 : s.target.isSome = t.target.isSome) (h3 : s.omitTime = t.omitTime) (h4 : s.timeAlias = t.timeAlias) :
    s.columnNames = t.columnNames := by
  unfold SelectStmt.columnNames; rw [h1, h2, h3, h4]

/-! ## Termination -/

/-- **C20 (the suffix loop terminates).** For every map, base name and starting count, the fuel the
model gives the loop (`len(names) + 1` iterations) suffices: it returns a count `c` and the
candidate `name_c`. (Pigeonhole: the candidates are pairwise different because decimal printing is
injective; they cannot all be among the `len(names)` keys.) -/
theorem suffix_loop_terminates (names : NameMap) (name : Str) (count : Nat) :
    ∃ c, suffixLoop names name (suffixFuel names) count = some (c, suffixed name c) ∧
      count ≤ c ∧ suffixed name c ∉ names.keys := by
  obtain ⟨c, hc⟩ := suffixLoop_terminates names name count
  obtain ⟨_, h2, h3⟩ := suffixLoop_some hc
  exact ⟨c, hc, h2, h3⟩

/-- Hence `ColumnNames` returns for every statement. -/
theorem columnNames_total (s : SelectStmt) : ∃ out, s.columnNames = some out := by
  obtain ⟨ns, h⟩ := nameLoop_total (columns s) (aliasPass [] (columns s))
  refine ⟨if s.omitTime then ns else timeFieldName s.timeAlias :: ns, ?_⟩
  rw [columnNames_eq]
  unfold fieldColumnNames
  rw [h]; rfl

/-! ## Which columns there are -/

theorem extraColumns_into (f : Field) : extraColumns true f = [] := by
  unfold extraColumns; split <;> simp

theorem extraColumns_no_into (f : Field) : extraColumns false f = tagArguments f := by
  unfold extraColumns tagArguments
  cases f.expr with
  | call name args =>
    cases args with
    | nil => simp
    | cons a rest =>
      cases rest with
      | nil => simp
      | cons b rest' =>
        by_cases h : name = topLit ∨ name = bottomLit
        · simp [h, tagColumns]
        · simp [h]
  | _ => rfl

/-- **C20 (tag columns of top / bottom).** With an INTO target the columns are exactly the fields.
Without one, every field is followed by the reference arguments (after the first argument) of its
`top()` / `bottom()` call, as columns of their own – and by nothing for any other field. (The guard
`len(f.Args) > 1` of the code does not change the result: it only avoids slicing an empty list.) -/
theorem top_bottom_tag_columns (s : SelectStmt) :
    (s.target.isSome = true → columns s = s.fields) ∧
    (s.target.isSome = false → columns s = s.fields.flatMap fun f => f :: tagArguments f) := by
  constructor
  · intro h
    unfold columns; rw [h]
    induction s.fields with
    | nil => rfl
    | cons f fs ih => simp [columnFields, extraColumns_into, ih]
  · intro h
    unfold columns; rw [h]
    induction s.fields with
    | nil => rfl
    | cons f fs ih => simp [columnFields, extraColumns_no_into, ih]

/-- The result is the time column (unless omitted) in front of the field column names. -/
theorem split_out (s : SelectStmt) (out : List Str) (h : s.columnNames = some out) :
    ∃ ns, fieldColumnNames (columns s) = some ns ∧ out.drop (offset s) = ns ∧
      out = (if s.omitTime then ns else timeFieldName s.timeAlias :: ns) := by
  rw [columnNames_eq] at h
  cases hn : fieldColumnNames (columns s) with
  | none => rw [hn] at h; simp at h
  | some ns =>
    rw [hn] at h
    simp only [Option.map_some, Option.some.injEq] at h
    refine ⟨ns, rfl, ?_, h.symm⟩
    subst h
    unfold offset
    cases s.omitTime <;> simp

/-- **C20 (one name per column, in order).** The result has one name per output column – the time
column (unless omitted) followed by the columns of `columns s` in field order – and the name at the
position of a column is the one permitted for that column: its alias, or its base name
(`Field.Name`), possibly followed by `_<decimal number>`. -/
theorem columns_length_order (s : SelectStmt) (out : List Str) (h : s.columnNames = some out) :
    out.length = offset s + (columns s).length ∧
    ∀ i (hi : i < (columns s).length), ∃ n, out[offset s + i]? = some n ∧ NamedFor (columns s)[i] n := by
  obtain ⟨ns, hn, hd, ho⟩ := split_out s out h
  obtain ⟨hl, hz⟩ := nameLoop_shape (columns s) _ ns hn
  have hlen : out.length = offset s + (columns s).length := by
    rw [ho]; unfold offset; cases s.omitTime <;> simp [hl]; omega
  refine ⟨hlen, ?_⟩
  intro i hi
  have hi' : i < ns.length := by omega
  refine ⟨ns[i], ?_, hz _ (zip_index (columns s) ns i hi hi')⟩
  have : out[offset s + i]? = ns[i]? := by rw [← hd, List.getElem?_drop]
  rw [this, List.getElem?_eq_getElem hi']

/-- **C20 (aliases verbatim).** A column with an explicit alias is named exactly by that alias. -/
theorem aliases_verbatim (s : SelectStmt) (out : List Str) (h : s.columnNames = some out)
    (i : Nat) (hi : i < (columns s).length) (ha : (columns s)[i].alias ≠ []) :
    out[offset s + i]? = some (columns s)[i].alias := by
  obtain ⟨n, hn, hnf⟩ := (columns_length_order s out h).2 i hi
  simp only [NamedFor, if_pos ha] at hnf
  rw [hn, hnf]

/-- A column without alias is named by its base name or by that name with a numeric suffix. -/
theorem generated_names (s : SelectStmt) (out : List Str) (h : s.columnNames = some out)
    (i : Nat) (hi : i < (columns s).length) (ha : (columns s)[i].alias = []) :
    ∃ n, out[offset s + i]? = some n ∧
      (n = (columns s)[i].expr.fieldName ∨ ∃ k, n = (columns s)[i].expr.fieldName ++ '_' :: natDigits k) := by
  obtain ⟨n, hn, hnf⟩ := (columns_length_order s out h).2 i hi
  have hne : ¬ (columns s)[i].alias ≠ [] := by simp [ha]
  simp only [NamedFor, if_neg hne, Field.name, suffixed] at hnf
  exact ⟨n, hn, hnf⟩

/-- **C20 (time first unless omitted).** Unless `OmitTime` is set the first name is the time column:
the time alias if there is one, else `time`; with `OmitTime` there is no such column (the result
is exactly the field column names). -/
theorem time_first_unless_omitted (s : SelectStmt) (out : List Str) (h : s.columnNames = some out) :
    (s.omitTime = false → out.head? = some (if s.timeAlias ≠ [] then s.timeAlias else timeLit) ∧
      out.length = 1 + (columns s).length) ∧
    (s.omitTime = true → out.length = (columns s).length ∧ fieldColumnNames (columns s) = some out) := by
  obtain ⟨ns, hn, _, ho⟩ := split_out s out h
  have hl := (columns_length_order s out h).1
  unfold offset at hl
  constructor
  · intro hf
    rw [hf] at ho hl
    simp only [Bool.false_eq_true, if_false] at ho hl
    exact ⟨by rw [ho]; rfl, hl⟩
  · intro ht
    rw [ht] at ho hl
    simp only [if_true] at ho hl
    exact ⟨by omega, by rw [ho]; exact hn⟩

/-- **C20 (distinct).** Whenever the explicit aliases of the fields are pairwise distinct, all field
column names (everything after the time column, tag columns included) are pairwise distinct. -/
theorem distinct (s : SelectStmt) (out : List Str) (h : s.columnNames = some out)
    (hal : (aliasesOf s.fields).Pairwise (· ≠ ·)) :
    (out.drop (offset s)).Pairwise (· ≠ ·) := by
  obtain ⟨ns, hn, hd, _⟩ := split_out s out h
  rw [hd]
  have hal' : (aliasesOf (columns s)).Pairwise (· ≠ ·) := by
    unfold columns; rw [aliasesOf_columnFields]; exact hal
  exact (nameLoop_distinct (columns s) _ ns hn (aliasPass_keys [] (columns s)).2 hal').1

/-! ## End to end from the statement text (`columnsOfText` = `ParseStatement`, the two settings, `ColumnNames`)

Executed against the implementation by the stream `columns.text`. -/

theorem withTimeSettings_fields (s : SelectStmt) (o : Bool) (ta : Str) :
    (s.withTimeSettings o ta).fields = s.fields ∧ (s.withTimeSettings o ta).target = s.target ∧
    (s.withTimeSettings o ta).omitTime = o ∧ (s.withTimeSettings o ta).timeAlias = ta := by
  cases s; exact ⟨rfl, rfl, rfl, rfl⟩

/-- What the composition computes: when the text parses to a SELECT `s`, the names are `ColumnNames` of
the field list and INTO target the parser built, under the caller's two settings — nothing else of
the text matters (sources, conditions, grouping, limits). -/
theorem columns_text_eq (text : Str) (params : List (Str × BoundValue)) (tbl : List (Char × Char))
    (o : Bool) (ta : Str) (s : SelectStmt) (hp : parseStatementText text params tbl = .ok (.select s)) :
    ∃ out, columnNamesOf s.fields s.target.isSome o ta = some out ∧ columnsOfText text params tbl o ta = .ok out := by
  obtain ⟨h1, h2, h3, h4⟩ := withTimeSettings_fields s o ta
  obtain ⟨out, ho⟩ := columnNames_total (s.withTimeSettings o ta)
  refine ⟨out, ?_, ?_⟩
  · rw [← ho]; unfold SelectStmt.columnNames; rw [h1, h2, h3, h4]
  · unfold columnsOfText; rw [hp]; simp only [ho]

/-- **C20 end to end (total, complete, time first).** Every text the parser accepts as a SELECT gets a
column list (the suffix loop never runs out of fuel); the list has one name per output column after the
time column, and starts with the time column unless it is omitted. -/
theorem columns_text_total (text : Str) (params : List (Str × BoundValue)) (tbl : List (Char × Char))
    (o : Bool) (ta : Str) (s : SelectStmt) (hp : parseStatementText text params tbl = .ok (.select s)) :
    ∃ out, columnsOfText text params tbl o ta = .ok out ∧
      out.length = (if o then 0 else 1) + (columnFields s.target.isSome s.fields).length ∧
      (o = false → out.head? = some (if ta ≠ [] then ta else timeLit)) := by
  obtain ⟨h1, h2, h3, h4⟩ := withTimeSettings_fields s o ta
  obtain ⟨out, ho⟩ := columnNames_total (s.withTimeSettings o ta)
  refine ⟨out, by unfold columnsOfText; rw [hp]; simp only [ho], ?_, ?_⟩
  · have := (columns_length_order _ out ho).1
    simpa only [offset, columns, h1, h2, h3] using this
  · intro ho'
    have := (time_first_unless_omitted _ out ho).1 (by rw [h3]; exact ho')
    simpa only [h4] using this.1

/-- **C20 end to end (unambiguous).** If the explicit aliases written in the text are pairwise distinct,
the field column names computed from the text are pairwise distinct. -/
theorem columns_text_distinct (text : Str) (params : List (Str × BoundValue)) (tbl : List (Char × Char))
    (o : Bool) (ta : Str) (s : SelectStmt) (hp : parseStatementText text params tbl = .ok (.select s))
    (hal : (aliasesOf s.fields).Pairwise (· ≠ ·)) :
    ∃ out, columnsOfText text params tbl o ta = .ok out ∧ (out.drop (if o then 0 else 1)).Pairwise (· ≠ ·) := by
  obtain ⟨h1, h2, h3, h4⟩ := withTimeSettings_fields s o ta
  obtain ⟨out, ho⟩ := columnNames_total (s.withTimeSettings o ta)
  refine ⟨out, by unfold columnsOfText; rw [hp]; simp only [ho], ?_⟩
  have := distinct _ out ho (by rw [h1]; exact hal)
  simpa only [offset, h3] using this

/-! ## Non-vacuity and the corner cases of the property text, evaluated by the kernel -/

private def ref (n : Str) : Field := { expr := .varRef n .Unknown }
private def refAs (n a : Str) : Field := { expr := .varRef n .Unknown, alias := a }

-- SELECT a, a, a AS a_1  ⇒  time, a, a_2, a_1
example : columnNamesOf [ref ['a'], ref ['a'], refAs ['a'] ['a', '_', '1']] false false [] =
    some [timeLit, ['a'], ['a', '_', '2'], ['a', '_', '1']] := by decide

-- SELECT a, a_1, a, a_1  ⇒  a, a_1, a_2, a_1_1   (time omitted)
example : columnNamesOf [ref ['a'], ref ['a', '_', '1'], ref ['a'], ref ['a', '_', '1']] false true [] =
    some [['a'], ['a', '_', '1'], ['a', '_', '2'], ['a', '_', '1', '_', '1']] := by decide

-- SELECT top(v, host, 2), host  ⇒  t, top, host, host_1 without INTO; t, top, host with INTO
example :
    let top : Field := { expr := .call topLit [.varRef ['v'] .Unknown, .varRef ['h'] .Unknown, .integer 2] }
    columnNamesOf [top, ref ['h']] false false ['t'] = some [['t'], topLit, ['h'], ['h', '_', '1']] ∧
    columnNamesOf [top, ref ['h']] true false ['t'] = some [['t'], topLit, ['h']] := by decide

-- top() without arguments (the repaired guard) and arithmetic: a + mean(b) * (c - 2)  ⇒  a_mean_c
example :
    columnNamesOf [{ expr := .call topLit [] },
      { expr := .binary .ADD (.varRef ['a'] .Unknown)
          (.binary .MUL (.call ['m'] [.varRef ['b'] .Unknown])
            (.paren (.binary .SUB (.varRef ['c'] .Unknown) (.integer 2)))) }] false true [] =
    some [topLit, ['a', '_', 'm', '_', 'c']] := by decide

-- duplicate aliases are kept verbatim (the hypothesis of `distinct` is needed)
example : columnNamesOf [refAs ['a'] ['x'], refAs ['b'] ['x']] false true [] = some [['x'], ['x']] := by decide

end InfluxQL.C20

import InfluxQL.Lemmas.Priv
import InfluxQL.Model.PrivOfStmt
import InfluxQL.Lemmas.ParsedWF
/-!
# C19 — required privileges cover everything a statement touches

Model: `requiredPrivileges` (Model/Priv.lean), the interpreter of the table `Gen.privTable`
regenerated from every `RequiredPrivileges` method of ast.go on each run (one `PrivRule` per
statement type + the constants of `Sources.RequiredPrivileges` and of the target entry of
`SelectStatement.RequiredPrivileges`).

`selectMeasurements s` = every measurement `s` reads at any subquery depth; `readOn db` /
`writeOn db` = the non-admin read / write privilege on database `db`.

Hypothesis used for non-emptiness (`WellFormed`): every SELECT, at any depth, has at least one
source, and the SELECT of a CREATE CONTINUOUS QUERY has an INTO target. Both are guaranteed by the
parser (`parseSources` returns at least one source or fails; `parseSelectStatement(targetRequired)`)
but not by the Go types, so they are explicit.
-/
namespace InfluxQL.C19
open InfluxQL Gen

/-! ## Obligations on the regenerated table -/

/-- A measurement source contributes a non-admin read privilege (on `source.Database`). -/
theorem gen_sources_entry : sourcesMeasurementAdmin = false ∧ sourcesMeasurementPriv = .ReadPrivilege := by
  decide

/-- The INTO target contributes a non-admin write privilege (on `s.Target.Measurement.Database`). -/
theorem gen_select_target_entry : selectTargetAdmin = false ∧ selectTargetPriv = .WritePrivilege := by
  decide

/-- SELECT has the select rule, EXPLAIN delegates to its statement. -/
theorem gen_select_explain_rules :
    lookupRule .SelectStatement privTable = some .select ∧
    lookupRule .ExplainStatement privTable = some .explain := by decide

/-- Every statement type has a row. -/
theorem gen_table_complete : StmtKind.all.all (fun k => (lookupRule k privTable).isSome) = true := by
  decide

/-- The shapes that make a list non-empty: literal lists are non-empty, no type delegates to its
source list unconditionally (the defect repaired for the cardinality statements), and the rules that
read a SELECT occur only on the three types that have one. -/
def ruleOK (k : StmtKind) : PrivRule → Bool
  | .literal es => !es.isEmpty
  | .sources => false
  | .literalIfNoSources _ es => !es.isEmpty
  | .continuousQuery base _ _ _ => !base.isEmpty && k == .CreateContinuousQueryStatement
  | .select => k == .SelectStatement
  | .explain => k == .ExplainStatement

theorem gen_rules_ok : privTable.all (fun p => ruleOK p.1 p.2) = true := by decide

/-- The administrative statements named in the property text: user and privilege management,
CREATE / DROP DATABASE, CREATE / ALTER RETENTION POLICY, subscriptions, DROP SHARD, DROP MEASUREMENT,
KILL QUERY, SHOW USERS / GRANTS / SHARDS / SHARD GROUPS / STATS / DIAGNOSTICS / SUBSCRIPTIONS. -/
def adminKinds : List StmtKind := [
  .CreateUserStatement, .DropUserStatement, .SetPasswordUserStatement,
  .GrantStatement, .GrantAdminStatement, .RevokeStatement, .RevokeAdminStatement,
  .CreateDatabaseStatement, .DropDatabaseStatement,
  .CreateRetentionPolicyStatement, .AlterRetentionPolicyStatement,
  .CreateSubscriptionStatement, .DropSubscriptionStatement,
  .DropShardStatement, .DropMeasurementStatement, .KillQueryStatement,
  .ShowUsersStatement, .ShowGrantsForUserStatement, .ShowShardsStatement, .ShowShardGroupsStatement,
  .ShowStatsStatement, .ShowDiagnosticsStatement, .ShowSubscriptionsStatement]

/-- Each of them has the literal rule "admin, all privileges, no database". -/
theorem gen_admin_rows :
    adminKinds.all (fun k => lookupRule k privTable == some (.literal [⟨true, .empty, .AllPrivileges⟩])) = true := by
  decide

/-- Conversely, no other statement type mentions `Admin: true` anywhere in its rule. -/
def ruleMentionsAdmin : PrivRule → Bool
  | .literal es => es.any (·.admin)
  | .sources => false
  | .literalIfNoSources _ es => es.any (·.admin)
  | .continuousQuery base _ tAdmin _ => base.any (·.admin) || tAdmin
  | .select => selectTargetAdmin || sourcesMeasurementAdmin
  | .explain => selectTargetAdmin || sourcesMeasurementAdmin

theorem gen_admin_exactly :
    privTable.all (fun p => ruleMentionsAdmin p.2 == adminKinds.contains p.1) = true := by decide

/-! ## SELECT: reads at every depth, write on the target -/

theorem select_privileges (s : SelectStmt) : requiredPrivileges (.select s) = .ok (selectPrivs s) := by
  unfold requiredPrivileges
  rw [show (Statement.select s).kind = .SelectStatement from rfl, gen_select_explain_rules.1]
  rfl

/-- **C19 (reads).** For every SELECT, `RequiredPrivileges` succeeds and lists a read privilege on
the database of every measurement read at any subquery depth. -/
theorem select_reads_all (s : SelectStmt) (m : Measurement) (hm : m ∈ selectMeasurements s) :
    ∃ l, requiredPrivileges (.select s) = .ok l ∧ readOn m.database ∈ l :=
  ⟨_, select_privileges s, select_reads gen_sources_entry.1 gen_sources_entry.2 s m hm⟩

/-- **C19 (write).** … and a write privilege on the database of the INTO target. -/
theorem select_writes_target (s : SelectStmt) (t : Measurement) (ht : s.target = some t) :
    ∃ l, requiredPrivileges (.select s) = .ok l ∧ writeOn t.database ∈ l := by
  refine ⟨_, select_privileges s, ?_⟩
  rw [selectPrivs_eq, ht, gen_select_target_entry.1, gen_select_target_entry.2]
  exact List.mem_append_right _ (List.mem_singleton.2 rfl)

/-- EXPLAIN [ANALYZE] [VERBOSE] requires exactly what its SELECT requires. -/
theorem explain_same (s : SelectStmt) (analyze verbose : Bool) :
    requiredPrivileges (.explain s analyze verbose) = requiredPrivileges (.select s) := by
  rw [select_privileges]
  unfold requiredPrivileges
  rw [show (Statement.explain s analyze verbose).kind = .ExplainStatement from rfl, gen_select_explain_rules.2]
  rfl

/-- **C19 (reads, through EXPLAIN).** -/
theorem explain_reads_all (s : SelectStmt) (analyze verbose : Bool) (m : Measurement)
    (hm : m ∈ selectMeasurements s) :
    ∃ l, requiredPrivileges (.explain s analyze verbose) = .ok l ∧ readOn m.database ∈ l := by
  rw [explain_same]; exact select_reads_all s m hm

/-- **C19 (write, through EXPLAIN).** -/
theorem explain_writes_target (s : SelectStmt) (analyze verbose : Bool) (t : Measurement)
    (ht : s.target = some t) :
    ∃ l, requiredPrivileges (.explain s analyze verbose) = .ok l ∧ writeOn t.database ∈ l := by
  rw [explain_same]; exact select_writes_target s t ht

/-- A subquery's own requirements (its sources at any depth and its target, if it has one) are part
of the enclosing statement's requirements: nesting never loses a privilege. -/
theorem subquery_included (s sub : SelectStmt) (hs : Source.subquery sub ∈ s.sources) (p : ExecPriv)
    (hp : p ∈ selectPrivs sub) : p ∈ selectPrivs s := by
  rw [selectPrivs_eq]
  refine List.mem_append_left _ ?_
  generalize s.sources = l at hs
  induction l with
  | nil => simp at hs
  | cons x xs ih =>
    rw [sourcesPrivs_cons]
    rcases List.mem_cons.1 hs with h | h
    · subst h; rw [sourcePrivs_subquery]; exact List.mem_append_left _ hp
    · exact List.mem_append_right _ (ih h)

/-! ## Every statement kind: a non-empty list, no error -/

/-- What the parser guarantees and the Go types do not: every SELECT the statement contains (itself,
under EXPLAIN, as the source of a continuous query, as a subquery of any source list) has at least
one source at every depth; the SELECT of CREATE CONTINUOUS QUERY has an INTO target. -/
def WellFormed (st : Statement) : Prop :=
  sourcesWF st.sources = true ∧
  (∀ sel, st.selectStmt? = some sel → selectWF sel = true) ∧
  (∀ sel, st.kind = .CreateContinuousQueryStatement → st.selectStmt? = some sel → sel.target.isSome = true)

theorem rule_of_kind (st : Statement) : ∃ r, lookupRule st.kind privTable = some r ∧ ruleOK st.kind r = true := by
  have hc := List.all_eq_true.1 gen_table_complete st.kind (mem_all_kinds st.kind)
  cases hr : lookupRule st.kind privTable with
  | none => rw [hr] at hc; simp at hc
  | some r => exact ⟨r, rfl, List.all_eq_true.1 gen_rules_ok (st.kind, r) (lookupRule_mem hr)⟩

/-- **C19 (non-empty, no error).** Every statement of every kind that satisfies the parser's
guarantees reports a non-empty privilege list without error. -/
theorem nonempty_no_error (st : Statement) (hwf : WellFormed st) :
    ∃ l, requiredPrivileges st = .ok l ∧ l ≠ [] := by
  obtain ⟨r, hr, hok⟩ := rule_of_kind st
  obtain ⟨hsrc, hsel, hcq⟩ := hwf
  unfold requiredPrivileges
  rw [hr]
  cases r with
  | literal es =>
    refine ⟨_, rfl, ?_⟩
    cases es with
    | nil => simp [ruleOK] at hok
    | cons e es => simp
  | sources => simp [ruleOK] at hok
  | literalIfNoSources b es =>
    simp only [interpRule]
    split
    · refine ⟨_, rfl, ?_⟩
      cases es with
      | nil => simp [ruleOK] at hok
      | cons e es => simp
    · rename_i hc
      refine ⟨_, rfl, sources_nonempty _ ?_ hsrc⟩
      intro e
      rw [e] at hc
      simp at hc
  | continuousQuery base reset ta tp =>
    simp only [ruleOK, Bool.and_eq_true, beq_iff_eq] at hok
    obtain ⟨sel, hs⟩ := selectStmt?_of_kind st (Or.inr (Or.inr hok.2))
    have ht := hcq sel hok.2 hs
    simp only [interpRule, hs]
    cases htt : sel.target with
    | none => rw [htt] at ht; simp at ht
    | some t =>
      cases base with
      | nil => simp at hok
      | cons e es =>
        simp only [List.map_cons]
        split
        · exact ⟨_, rfl, by simp⟩
        · exact ⟨_, rfl, by simp⟩
  | select =>
    simp only [ruleOK, beq_iff_eq] at hok
    obtain ⟨sel, hs⟩ := selectStmt?_of_kind st (Or.inl hok)
    simp only [interpRule, hs]
    exact ⟨_, rfl, select_nonempty sel (hsel sel hs)⟩
  | explain =>
    simp only [ruleOK, beq_iff_eq] at hok
    obtain ⟨sel, hs⟩ := selectStmt?_of_kind st (Or.inr (Or.inl hok))
    simp only [interpRule, hs]
    exact ⟨_, rfl, select_nonempty sel (hsel sel hs)⟩

/-- Every kind of the table is the kind of some statement value (so "every statement kind" above
really ranges over all rows). -/
theorem every_kind_inhabited (k : StmtKind) : ∃ st : Statement, st.kind = k :=
  ⟨Statement.skeleton k [] false [] default, kind_skeleton k _ _ _ _⟩

/-! ## Administrative statements -/

/-- **C19 (admin).** Every administrative statement named in the property requires exactly
"admin" (`Admin: true`, all privileges, no database). -/
theorem admin_statements (st : Statement) (h : st.kind ∈ adminKinds) :
    requiredPrivileges st = .ok [⟨true, [], .all⟩] := by
  have hr := List.all_eq_true.1 gen_admin_rows st.kind h
  simp only [beq_iff_eq] at hr
  unfold requiredPrivileges
  rw [hr]
  rfl

/-! ## End to end from the statement text (`privOfText` = `ParseStatement` then `RequiredPrivileges`)

The stream `priv.text` executes `privOfText` against `ParseStatement(text).RequiredPrivileges()`; the
statements below carry the theorems above, proved for every `Statement` value, over to the composition. -/

/-- The decidable test the oracle evaluates on every parsed statement implies `WellFormed`. -/
theorem wellFormed_of_test (st : Statement) (h : st.privWellFormed = true) : WellFormed st := by
  unfold Statement.privWellFormed at h
  simp only [Bool.and_eq_true] at h
  refine ⟨h.1, ?_, ?_⟩
  · intro sel hs
    rw [hs] at h
    simp only [Bool.and_eq_true] at h
    exact h.2.1
  · intro sel hk hs
    rw [hs] at h
    simp only [Bool.and_eq_true] at h
    cases st <;> simp [Statement.kind] at hk
    exact h.2.2

/-- The composition never loses the parser's answer: whatever the text, `privOfText` is the parser's
error, or `RequiredPrivileges` of exactly the statement the parser built. -/
theorem priv_text_compose (text : Str) (params : List (Str × BoundValue)) (tbl : List (Char × Char)) :
    (∃ f, parseStatementText text params tbl = .error f ∧ privOfText text params tbl = .parseFail f) ∨
    (∃ st, parseStatementText text params tbl = .ok st ∧
      ((∃ l, requiredPrivileges st = .ok l ∧ privOfText text params tbl = .ok l) ∨
       (∃ f, requiredPrivileges st = .error f ∧ privOfText text params tbl = .privFail f))) := by
  unfold privOfText
  cases hp : parseStatementText text params tbl with
  | error f => exact Or.inl ⟨f, rfl, rfl⟩
  | ok st =>
    refine Or.inr ⟨st, rfl, ?_⟩
    cases hr : requiredPrivileges st with
    | error f => exact Or.inr ⟨f, rfl, by simp only [hr]⟩
    | ok l => exact Or.inl ⟨l, rfl, by simp only [hr]⟩

/-- **The parser's guarantees, proved**: every statement `ParseStatement` returns — for every text, bound
parameters and lower table, through all 41 handlers — is `WellFormed` (every SELECT at any depth has at least
one source; the SELECT of CREATE CONTINUOUS QUERY has an INTO target). The hypothesis of `nonempty_no_error`
holds for everything that comes out of the parser (Lemmas/ParsedWF.lean: `parseStatementText_wf`). -/
theorem parsed_wellFormed (text : Str) (params : List (Str × BoundValue)) (tbl : List (Char × Char)) (st : Statement)
    (hp : parseStatementText text params tbl = .ok st) : WellFormed st :=
  wellFormed_of_test st (parseStatementText_wf text params tbl st hp)

/-- **C19 end to end (non-empty, no error), no hypothesis on the statement.** Every text the parser accepts
gets a non-empty privilege list and no error — every text, every statement kind. In particular the nil
dereference of `CreateContinuousQueryStatement.RequiredPrivileges` is unreachable through the parser. -/
theorem priv_text_total (text : Str) (params : List (Str × BoundValue)) (tbl : List (Char × Char)) (st : Statement)
    (hp : parseStatementText text params tbl = .ok st) :
    ∃ l, privOfText text params tbl = .ok l ∧ l ≠ [] := by
  obtain ⟨l, hl, hne⟩ := nonempty_no_error st (parsed_wellFormed text params tbl st hp)
  refine ⟨l, ?_, hne⟩
  unfold privOfText
  rw [hp]
  simp only [hl]

/-- The same without naming the statement: `privOfText` is a parse failure or a non-empty list; it is never
an error of `RequiredPrivileges` and never the empty list. -/
theorem priv_text_outcomes (text : Str) (params : List (Str × BoundValue)) (tbl : List (Char × Char)) :
    (∃ f, privOfText text params tbl = .parseFail f) ∨ (∃ l, privOfText text params tbl = .ok l ∧ l ≠ []) := by
  cases hp : parseStatementText text params tbl with
  | error f => exact Or.inl ⟨f, by unfold privOfText; rw [hp]⟩
  | ok st => exact Or.inr (priv_text_total text params tbl st hp)

/-- **C19 end to end (reads at every depth, write on the target).** When the text parses to a SELECT, or
to EXPLAIN of a SELECT, the list computed from the text holds a read privilege on the database of every
measurement of the parsed tree at any subquery depth, and a write privilege on the database of the INTO
target. -/
theorem priv_text_reads_writes (text : Str) (params : List (Str × BoundValue)) (tbl : List (Char × Char))
    (s : SelectStmt) (a v : Bool)
    (hp : parseStatementText text params tbl = .ok (.select s) ∨ parseStatementText text params tbl = .ok (.explain s a v)) :
    ∃ l, privOfText text params tbl = .ok l ∧
      (∀ m, m ∈ selectMeasurements s → readOn m.database ∈ l) ∧
      (∀ t, s.target = some t → writeOn t.database ∈ l) := by
  refine ⟨selectPrivs s, ?_, fun m hm => select_reads gen_sources_entry.1 gen_sources_entry.2 s m hm, ?_⟩
  · unfold privOfText
    rcases hp with hp | hp
    · rw [hp]; simp only [select_privileges]
    · rw [hp]; simp only [explain_same, select_privileges]
  · intro t ht
    have := select_writes_target s t ht
    rw [select_privileges] at this
    obtain ⟨l, hl, hm⟩ := this
    cases hl
    exact hm

/-- **C19 end to end (admin).** A text that parses to one of the 23 administrative kinds requires
exactly admin. -/
theorem priv_text_admin (text : Str) (params : List (Str × BoundValue)) (tbl : List (Char × Char)) (st : Statement)
    (hp : parseStatementText text params tbl = .ok st) (h : st.kind ∈ adminKinds) :
    privOfText text params tbl = .ok [⟨true, [], .all⟩] := by
  unfold privOfText
  rw [hp]
  simp only [admin_statements st h]

/-! ## Non-vacuity: kernel-evaluated examples -/

private def meas (db : Str) : Source := .measurement { database := db }
private def sel (srcs : List Source) (target : Option Measurement) : SelectStmt :=
  .mk [] target [] srcs none [] 0 0 0 0 false .null .none none [] false false [] false

-- SELECT … INTO t.. FROM (SELECT … FROM a.., (SELECT … FROM b..)), c..
example :
    requiredPrivileges (.select (sel [.subquery (sel [meas ['a'], .subquery (sel [meas ['b']] none)] none), meas ['c']]
      (some { database := ['t'], isTarget := true }))) =
    .ok [readOn ['a'], readOn ['b'], readOn ['c'], writeOn ['t']] := rfl

-- SHOW SERIES EXACT CARDINALITY ON d            ⇒ read on d   (the repaired case: no FROM)
-- SHOW SERIES EXACT CARDINALITY ON d FROM x..m  ⇒ read on x
-- SHOW SERIES CARDINALITY ON d FROM x..m        ⇒ read on d
example :
    requiredPrivileges (.showSeriesCardinality ['d'] true [] none [] 0 0) = .ok [readOn ['d']] ∧
    requiredPrivileges (.showSeriesCardinality ['d'] true [meas ['x']] none [] 0 0) = .ok [readOn ['x']] ∧
    requiredPrivileges (.showSeriesCardinality ['d'] false [meas ['x']] none [] 0 0) = .ok [readOn ['d']] :=
  ⟨rfl, rfl, rfl⟩

-- CREATE CONTINUOUS QUERY … ON d BEGIN SELECT … INTO o.. FROM m END ⇒ read on d, write on o;
-- without an INTO target the Go code dereferences nil.
example :
    requiredPrivileges (.createContinuousQuery [] ['d'] (sel [meas []] (some { database := ['o'] })) 0 0) =
      .ok [readOn ['d'], writeOn ['o']] ∧
    requiredPrivileges (.createContinuousQuery [] ['d'] (sel [meas []] (some { database := [] })) 0 0) =
      .ok [readOn ['d']] ∧
    requiredPrivileges (.createContinuousQuery [] ['d'] (sel [meas []] none) 0 0) = .error .nilTarget :=
  ⟨rfl, rfl, rfl⟩

-- A SELECT without sources (not producible by the parser) has an empty list: the hypothesis of
-- `nonempty_no_error` is needed.
example : requiredPrivileges (.select (sel [] none)) = .ok [] := rfl

end InfluxQL.C19

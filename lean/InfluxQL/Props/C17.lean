/-
C17 — Independent parses and read-only use of a shared AST are safe under concurrency.

**What is proved, and what is not.**  The theorems below are about *footprints extracted from the
source*, not about executions of the compiled program.  `Model/Sched.lean` has operations as
sequences of atomic steps with read / write footprints over abstract locations (package-level
data, the shared AST, per-goroutine private data) and a schedule is any interleaving of those
steps.  In that model: if no operation writes a location another operation can access, then every
schedule is free of data races and every operation ends with the result of the same call made
alone — for any number of goroutines, any number of steps, any schedule (induction on the
schedule).  The hypothesis is discharged by `decide` on facts regenerated from /repo on every run:

* no function outside `init` (and package-level initialisers) stores to a package-level variable
  or through one; every other mention of one is a read or a call of a method on the reviewed list
  of library objects documented as safe for concurrent use (`Gen/Globals.lean`);
* every heap store with a non-fresh base in the functions reachable from the operations the
  property allows on a shared AST goes to an object that is fresh or derived from a clone
  (`Gen/Stores.lean`, reviewed in `Props/C14.lean` — this is where C14's disjointness is used).

The Go memory model, the scheduler, the compiler and the runtime are outside Lean; so is the step
from "the source has these stores" to "an execution has these accesses" (no alias analysis, user
supplied `Valuer` / `FieldMapper` / `Visitor` implementations excluded).  The property is therefore
claimed **partial** in that sense.  The tie is supported dynamically: `harness/stream_conc.go`
runs 16–64 goroutines over the operation mix under the race detector (`go build -race`) and
compares every result with its sequential twin.
-/
import InfluxQL.Lemmas.Sched
import InfluxQL.Gen.Globals
import InfluxQL.Props.C14

namespace InfluxQL.Props.C17
open InfluxQL.Sched InfluxQL.CloneTable

/-! ### The schedule theorems (any number of goroutines and steps) -/

/-- **Race freedom.** If no operation writes a location that another operation reads or writes,
then in every schedule, from every configuration, no two executed steps of different goroutines
conflict.  (Footprint model: see the header.) -/
theorem no_shared_writes_race_free {σ : Type} {ps : List (Prog σ)} (h : NoSharedWrites ps)
    (c : Config σ) (sch : List Nat) : ¬ Race (trace ps c sch) :=
  race_free_of_noSharedWrites h c sch

/-- **Sequential consistency.** Under the same hypothesis, after any schedule every goroutine's
local state is exactly the state the same operation reaches alone on the initial memory after as
many steps; in particular, once it has finished, it holds the result of the call made alone. -/
theorem sequentially_consistent {σ : Type} {ps : List (Prog σ)} (h : NoSharedWrites ps) (m0 : Mem)
    (sch : List Nat) {g : Nat} {p : Prog σ} {s : σ} {pc : Nat} (hp : ps[g]? = some p)
    (hl : (run ps (initial ps m0) sch).locals[g]? = some (s, pc)) :
    s = (p.alone m0 pc).1 ∧ (p.steps.length ≤ pc → s = p.result m0) := by
  obtain ⟨pc', hloc, _⟩ := inv_run h sch _ (inv_initial ps m0) g p hp
  rw [hl] at hloc
  have e := Prod.mk.inj (Option.some.inj hloc)
  have hpc : pc = pc' := e.2
  subst hpc
  refine ⟨e.1, fun hfin => ?_⟩
  rw [e.1, Prog.result, alone_ge p m0 pc hfin]

/-- The ownership discipline implies the hypothesis: goroutines that write only what they allocated
themselves and read only that, the shared AST and package-level data. -/
theorem confined_no_shared_writes {σ : Type} {ps : List (Prog σ)}
    (h : ∀ (g : Nat) (p : Prog σ), ps[g]? = some p → ConfinedProg g p) : NoSharedWrites ps :=
  confined_noSharedWrites h

/-! ### The regenerated facts -/

/-- No store to or through a package-level variable outside `init`, and the package's own methods
that are called on package-level variables (`ParseTree.Parse` on `Language`) do not store through
their receiver. -/
theorem gen_no_global_writes : Gen.globalWrites = [] ∧ Gen.globalMethodStores = [] := by decide

/-- Reviewed: methods called on package-level variables, by the variable's type.  `regexp.Regexp`:
"safe for concurrent use by multiple goroutines, except for configuration methods, such as
Longest"; `strings.Replacer`: "safe for concurrent use by multiple goroutines"; `sync.Map`: safe by
design (only used by the `-tags verif` instrumentation); `*ParseTree.Parse` is the package's own
method and is covered by `gen_no_global_writes`. -/
def safeCalls : List (List Char × List (List Char)) := [
  ("*regexp.Regexp".toList, ["call MatchString".toList, "call FindAllStringSubmatchIndex".toList]),
  ("*strings.Replacer".toList, ["call Replace".toList]),
  ("sync.Map".toList, ["call Load".toList, "call LoadOrStore".toList, "call Delete".toList]),
  ("*ParseTree".toList, ["call Parse".toList])
]

def useOK (vars : List (List Char × List Char)) (u : List Char × List Char × List Char) : Bool :=
  u.2.2 == "read".toList ||
  match vars.lookup u.2.1 with
  | some ty => safeCalls.any fun (t, ms) => t == ty && ms.contains u.2.2
  | none => false

/-- Every mention of a package-level variable outside `init` is a read (map and array lookups
included) or a call on the reviewed list; no address of one is taken. -/
theorem gen_global_uses_reviewed : (Gen.globalUses.all (useOK Gen.globalVars)) = true := by decide

/-- The kinds of package-level data (what the reads above read): error values, boxed zero values,
two times, the parse tree, two replacers, four compiled regular expressions, the token table, the
keyword map, and the instrumentation counter map. -/
theorem gen_global_vars_reviewed :
    Gen.globalVars.map (·.1) =
      ["ErrInvalidTime", "zeroFloat64", "zeroInt64", "zeroUint64", "zeroString", "zeroBoolean", "zeroTime",
       "zeroDuration", "minTime", "maxTime", "Language", "qsReplacer", "qiReplacer", "dateStringRegexp",
       "dateTimeStringRegexp", "ErrInvalidDuration", "sanitizeSetPassword", "sanitizeCreatePassword",
       "errBadString", "errBadEscape", "tokens", "keywords", "verifDelivered"].map String.toList := by
  decide

/-- Abstract region of a location. -/
inductive Region where
  | global | shared | priv
  deriving DecidableEq, Repr

def regionOf : Loc → Region
  | .global _ => .global
  | .shared _ => .shared
  | .priv _ _ => .priv

/-- Where a store of the reviewed inventory lands. -/
def storeRegion (s : Store) (v : C14.Verdict) : Region :=
  if s.base == .global then .global
  else match v with
    | .fresh => .priv
    | .cloneDerived => .priv

/-- The write footprint, by region, of everything reachable from the operations the property allows
on a shared AST (print, clone, walk, evaluate, reduce, expand wildcards, names, privileges), and of
every function of the package as far as package-level data is concerned. -/
def writeRegions : List Region :=
  C14.reviewedStores.map (fun e => storeRegion e.1 e.2) ++
  Gen.globalWrites.map (fun _ => Region.global) ++ Gen.globalMethodStores.map (fun _ => Region.global)

/-- All of it is private to the goroutine that runs the operation. (The inventory behind
`C14.reviewedStores` is re-checked against /repo by `C14.gen_readOnly_stores_reviewed`.) -/
theorem gen_write_regions_private : (writeRegions.all (· == .priv)) = true := by decide

/-- The inventory this rests on is the regenerated one. -/
theorem gen_shared_ast_stores_reviewed : Gen.readOnlyStores = C14.reviewedStores.map (·.1) :=
  C14.gen_readOnly_stores_reviewed

/-- An operation whose steps write only into the given regions (its private locations being its
own) and read only what is visible to it. -/
def ConformsTo {σ : Type} (g : Nat) (p : Prog σ) (wr : List Region) : Prop :=
  ∀ s : Step σ, s ∈ p.steps →
    (∀ l : Loc, l ∈ s.writes → regionOf l ∈ wr ∧ (regionOf l = .priv → l.ownedBy g = true)) ∧
    (∀ l : Loc, l ∈ s.reads → l.visibleTo g = true)

theorem conforms_confined {σ : Type} {g : Nat} {p : Prog σ} {wr : List Region}
    (hwr : (wr.all (· == .priv)) = true) (h : ConformsTo g p wr) : ConfinedProg g p := by
  intro s hs
  refine ⟨fun l hl => ?_, (h s hs).2⟩
  obtain ⟨hin, hown⟩ := (h s hs).1 l hl
  have := List.all_eq_true.mp hwr _ hin
  exact hown (by simpa using this)

/-- **C17, footprint form.** Any number of goroutines run operations whose footprints are the
extracted ones (writes only into `writeRegions`, i.e. private data; reads of private data, the
shared AST and package-level data).  Then every schedule is race-free and every finished operation
holds the result of the same call made alone. -/
theorem extracted_footprints_safe {σ : Type} {ps : List (Prog σ)}
    (h : ∀ (g : Nat) (p : Prog σ), ps[g]? = some p → ConformsTo g p writeRegions) (m0 : Mem) (sch : List Nat) :
    ¬ Race (trace ps (initial ps m0) sch) ∧
    ∀ (g : Nat) (p : Prog σ) (s : σ) (pc : Nat), ps[g]? = some p →
      (run ps (initial ps m0) sch).locals[g]? = some (s, pc) → p.steps.length ≤ pc → s = p.result m0 := by
  have hns : NoSharedWrites ps :=
    confined_noSharedWrites fun g p hp => conforms_confined gen_write_regions_private (h g p hp)
  exact ⟨no_shared_writes_race_free hns _ sch,
    fun g p s pc hp hl hfin => (sequentially_consistent hns m0 sch hp hl).2 hfin⟩

/-! ### Non-vacuity -/

/-- Reads the shared cell 0, adds `k`, stores the sum in its own cell. -/
def reader (g : Nat) (k : Int) : Prog Int :=
  { init := 0,
    steps := [
      { reads := [.shared 0], writes := [], act := fun _ m => (m (.shared 0), m) },
      { reads := [], writes := [.priv g 0], act := fun s _ => (s + k, fun _ => s + k) } ] }

def mem0 : Mem := fun l => if l = .shared 0 then 40 else 0

/-- Three goroutines, one interleaving: everybody ends with its sequential result. -/
example :
    let ps := [reader 0 1, reader 1 2, reader 2 3]
    (run ps (initial ps mem0) [2, 0, 1, 1, 2, 0, 0]).locals = [(41, 2), (42, 2), (43, 2)] := by decide

example : ConfinedProg 1 (reader 1 2) := by
  intro s hs
  simp only [reader, List.mem_cons, List.mem_nil_iff, or_false] at hs
  rcases hs with rfl | rfl <;> simp [Loc.ownedBy, Loc.visibleTo]

/-- A writer to the shared cell: the hypothesis is necessary — the reader scheduled after it ends
with a result different from the one it computes alone. -/
def writer : Prog Int :=
  { init := 0, steps := [{ reads := [], writes := [.shared 0], act := fun s _ => (s, fun _ => 7) }] }

example :
    let ps := [writer, reader 1 2]
    (run ps (initial ps mem0) [0, 1, 1]).locals[1]? = some (9, 2) ∧ (reader 1 2).result mem0 = 42 := by
  decide

end InfluxQL.Props.C17

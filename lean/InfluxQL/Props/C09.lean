import InfluxQL.Lemmas.ReduceEval
import InfluxQL.Lemmas.ReduceIdem
import InfluxQL.Model.TimeLit
import InfluxQL.Gen.TimeLit
/-
C09 — constant folding never changes the value of an expression.

Model: `Model/Eval.lean` (`ValuerEval.Eval`), `Model/Reduce.lean` (`Reduce`), generic in the
floating-point operations (`FloatAlg F`) and in what is asked of strings (`StrAlg`: `IsTimeLiteral`,
`ToTimeLiteral`, regular-expression matching). All theorems below hold for *every* `FloatAlg` and
`StrAlg` unless they name the executable instances (`goStrAlg` of `Model/TimeLit.lean`), i.e. they
use no law of IEEE arithmetic and no property of the date parser.

Typing: `HasType Γ e τ` (`Lemmas/ReduceEval.lean`) is the well-typed class of the property:
integer, unsigned, float, boolean and string literals and variables; `AND OR & | ^ = !=` on
booleans; `+ - * / %`, `< <= > >=`, `= !=` on numbers of any two kinds, `& | ^` on integers and
unsigned; `= !=` on strings. `EnvOk Γ env`: every variable is bound to a value of its kind
(`int64` values in the `int64` range).
-/
namespace InfluxQL.C09
open Gen

variable {F : Type} (A : FloatAlg F) (S : StrAlg)

/-- The induction behind `eval_reduce_partial`: for a well-typed `e`, `reduce e env₁` evaluates
under `env₂` to the value of `e` under all bindings; it is the literal of that value or not a
literal at all; the value has the kind of `e`. -/
theorem eval_reduce_core {Γ : Str → Option Ty} {env₁ env₂ : Str → Option (Value F)}
    (henv : EnvOk Γ (envUnion env₁ env₂)) {e : RExpr F} {τ : Ty} (ht : HasType Γ e τ)
    (hd : dateSafe A S (Valuer.map (envUnion env₁ env₂)) e = true) :
    eval A S true (Valuer.map env₂) (reduce A S (Valuer.map env₁) e)
        = eval A S true (Valuer.map (envUnion env₁ env₂)) e ∧
    (reduce A S (Valuer.map env₁) e = asLiteral (eval A S true (Valuer.map (envUnion env₁ env₂)) e) ∨
      inert (reduce A S (Valuer.map env₁) e) = true) ∧
    tyOf (eval A S true (Valuer.map (envUnion env₁ env₂)) e) = some τ ∧
    okVal (eval A S true (Valuer.map (envUnion env₁ env₂)) e) := by
  induction ht with
  | bool b => simp [reduce, eval, asLiteral, tyOf, okVal]
  | int v h => simp [reduce, eval, asLiteral, tyOf, okVal, h]
  | uint v => simp [reduce, eval, asLiteral, tyOf, okVal]
  | num v => simp [reduce, eval, asLiteral, tyOf, okVal]
  | str s => simp [reduce, eval, asLiteral, tyOf, okVal]
  | var x dt τ hx =>
    obtain ⟨v, hv, hty, hok⟩ := henv x τ hx
    cases h1 : env₁ x with
    | some v1 =>
      have : v1 = v := by simpa [envUnion, h1] using hv
      subst this
      simp [reduce, eval, Valuer.map, h1, hv, hty, hok, eval_asLiteral A S hty]
    | none =>
      have h2 : env₂ x = some v := by simpa [envUnion, h1] using hv
      simp [reduce, eval, Valuer.map, h1, h2, hv, hty, hok, inert]
  | paren e τ _ ih =>
    have hd' : dateSafe A S (Valuer.map (envUnion env₁ env₂)) e = true := by
      simpa [dateSafe] using hd
    obtain ⟨h1, h2, h3, h4⟩ := ih hd'
    by_cases hb : (reduce A S (Valuer.map env₁) e).isBinary = true
    · simp [reduce, eval, hb, h1, h3, h4, inert]
    · simp [reduce, eval, hb, h1, h2, h3, h4]
  | binary tok l r τl τr τ _ _ hop ihl ihr =>
    simp only [dateSafe, Bool.and_eq_true] at hd
    obtain ⟨⟨hdl, hdr⟩, hdo⟩ := hd
    obtain ⟨l1, l2, l3, _⟩ := ihl hdl
    obtain ⟨r1, r2, r3, r4⟩ := ihr hdr
    have step := binary_step A S l3 r3 hop hdo r4 (Valuer.map env₂) l1 r1 l2 r2
      ((Valuer.map env₁).zone.getD 0)
    simp only [reduce, eval]
    refine ⟨step.1, step.2, evalBin_ty A S l3 r3 hop, ?_⟩
    exact evalBin_ok A S l3 r3 hop (by obtain ⟨_, _, _, h⟩ := ihl hdl; exact h)

/-- **Constant folding never changes the value** (integer division as float division, division and
modulo by zero as zero — the semantics of `ValuerEval{IntegerFloatDivision: true}`).

Full statement of the property: for every well-typed `e`, every assignment `env₁ ∪ env₂` of values
of the right kinds to its variables and every split of it,
`Eval(Reduce(e, env₁), env₂) = Eval(e, env₁ ∪ env₂)`.
The code violates it in one place (`eval_reduce_counterexample`): `Reduce` compares two *strings*
that both look like dates as instants, `Eval` compares them as strings. This theorem is the
statement for every expression in which no `=`/`!=` meets two such strings (`dateSafe`, a
computable check on the expression and the bindings); it needs no other hypothesis and holds for
every floating-point structure. -/
theorem eval_reduce_partial {Γ : Str → Option Ty} {env₁ env₂ : Str → Option (Value F)}
    (henv : EnvOk Γ (envUnion env₁ env₂)) {e : RExpr F} {τ : Ty} (ht : HasType Γ e τ)
    (hd : dateSafe A S (Valuer.map (envUnion env₁ env₂)) e = true) :
    eval A S true (Valuer.map env₂) (Reduce A S (Valuer.map env₁) e)
      = eval A S true (Valuer.map (envUnion env₁ env₂)) e := by
  have h := (eval_reduce_core A S henv ht hd).1
  unfold Reduce
  split
  · rename_i x hx
    rw [hx] at h
    simpa [eval] using h
  · exact h

/-- Without a string equality in it an expression is `dateSafe` whatever the bindings: the
unconditional form of the theorem for the numeric and boolean part of the class. -/
theorem eval_reduce_no_string_eq {Γ : Str → Option Ty} {env₁ env₂ : Str → Option (Value F)}
    (henv : EnvOk Γ (envUnion env₁ env₂)) {e : RExpr F} {τ : Ty} (ht : HasType Γ e τ)
    (hns : ∀ x τ', Γ x = some τ' → τ' ≠ .str) (hnl : noStrLit e = true) :
    eval A S true (Valuer.map env₂) (Reduce A S (Valuer.map env₁) e)
      = eval A S true (Valuer.map (envUnion env₁ env₂)) e := by
  apply eval_reduce_partial A S henv ht
  exact dateSafe_of_noStr A S henv ht hns hnl

/-- The values of well-typed expressions have the kind of the expression (type soundness of
`Eval` with integer division as float division). -/
theorem eval_hasType {Γ : Str → Option Ty} {env : Str → Option (Value F)}
    (henv : EnvOk Γ env) {e : RExpr F} {τ : Ty} (ht : HasType Γ e τ) :
    tyOf (eval A S true (Valuer.map env) e) = some τ :=
  eval_ty A S henv ht

/-- The per-cell lemma, all sixteen operators × all pairs of operand kinds of the class: folding
two literals gives the literal of what `evalBinaryExpr` computes from the two values, or a node
that evaluates to it. -/
theorem fold_cell {tok : Token} {a b : Value F} {τa τb τ : Ty}
    (ha : tyOf a = some τa) (hb : tyOf b = some τb)
    (hop : opTy (BinOp.ofToken tok) τa τb = some τ)
    (hd : dateOk S (BinOp.ofToken tok) a b = true) (okb : okVal b) (V : Valuer F) (loc : Int) :
    eval A S true V (reduceBinary A S loc tok (asLiteral a) (asLiteral b))
      = evalBin A S true (BinOp.ofToken tok) a b := by
  rcases cell A S ha hb hop hd okb V loc with h | ⟨_, h⟩
  · rw [h]
    exact eval_asLiteral A S (evalBin_ty A S ha hb hop) V true
  · exact h

mutual
  /-- **Reducing twice gives the same result as reducing once** — for every expression (typed or
  not) and every valuer. -/
  theorem reduce_idem (V : Valuer F) : ∀ e : RExpr F,
      reduce A S V (reduce A S V e) = reduce A S V e
    | .binary tok l r => by
      simp only [reduce]
      exact reduceBinary_fix A S V tok _ _ (reduce_idem V l) (reduce_idem V r)
    | .paren e => by
      have ih := reduce_idem V e
      by_cases hb : (reduce A S V e).isBinary = true
      · simp [reduce, hb, ih]
      · simp [reduce, hb, ih]
    | .call name args => by
      have ih := reduceArgs_idem V args
      simp only [reduce]
      split
      · rename_i hall
        split
        · rename_i f hf
          split
          · exact isLit_fix A S V (asLiteral_isLit _)
          · rename_i hnone
            simp only [reduce, ih, hall, hf, hnone, if_true]
        · rename_i hf
          simp only [reduce, ih, hall, hf, if_true]
      · rename_i hall
        simp only [reduce, ih, hall]
        simp
    | .varRef val ty => by
      simp only [reduce]
      split
      · exact isLit_fix A S V (asLiteral_isLit _)
      · rename_i h
        simp [reduce, h]
    | .distinct _ | .wildcard _ | .regex _ | .str _ | .num _ | .int _ | .uint _ | .bool _
    | .dur _ | .time _ | .nil | .list _ | .boundParam _ => by simp [reduce]
  theorem reduceArgs_idem (V : Valuer F) : ∀ args : List (RExpr F),
      reduceArgs A S V (reduceArgs A S V args) = reduceArgs A S V args
    | [] => by simp [reduceArgs]
    | a :: rest => by
      simp only [reduceArgs]
      rw [reduce_idem V a, reduceArgs_idem V rest]
end

/-- `reduce` keeps parentheses only around a binary node, and that node is already reduced. -/
theorem reduce_paren (V : Valuer F) : ∀ (e x : RExpr F), reduce A S V e = .paren x →
    x.isBinary = true ∧ reduce A S V x = x
  | .binary tok l r, x, h => by
    simp only [reduce] at h
    rcases reduceBinary_paren A S h with h' | h'
    · exact reduce_paren V l x h'
    · exact reduce_paren V r x h'
  | .paren e, x, h => by
    simp only [reduce] at h
    by_cases hb : (reduce A S V e).isBinary = true
    · simp only [hb, if_true] at h
      injection h with h
      subst h
      exact ⟨hb, reduce_idem A S V e⟩
    · simp only [hb] at h
      exact reduce_paren V e x (by simpa using h)
  | .call name args, x, h => by
    simp only [reduce] at h
    split at h
    · split at h
      · split at h
        · have := asLiteral_isLit (F := F) ‹_›
          rw [h] at this
          simp [RExpr.isLiteral] at this
        · cases h
      · cases h
    · cases h
  | .varRef val ty, x, h => by
    simp only [reduce] at h
    split at h
    · have := asLiteral_isLit (F := F) ‹_›
      rw [h] at this
      simp [RExpr.isLiteral] at this
    · cases h
  | .distinct _, _, h | .wildcard _, _, h | .regex _, _, h | .str _, _, h | .num _, _, h
  | .int _, _, h | .uint _, _, h | .bool _, _, h | .dur _, _, h | .time _, _, h | .nil, _, h
  | .list _, _, h | .boundParam _, _, h => by simp [reduce] at h

/-- Idempotence of the exported `Reduce` (which also drops one outer pair of parentheses). -/
theorem Reduce_idem (V : Valuer F) (e : RExpr F) :
    Reduce A S V (Reduce A S V e) = Reduce A S V e := by
  have h := reduce_idem A S V e
  unfold Reduce
  cases hx : reduce A S V e with
  | paren x =>
    obtain ⟨hb, hxx⟩ := reduce_paren A S V e x hx
    simp only [hxx]
    revert hb
    cases x <;> simp [RExpr.isBinary]
  | _ => simp only [hx] at h ⊢ <;> simp [h]

/-! ### Time arithmetic folds to the exact instant, duration or truth value

Instants are exact `Int` nanoseconds (Go's `time.Time` covers a far wider range than `int64`
nanoseconds, `Time.Add` is exact there); durations are `int64`. -/

/-- instant `+` duration, duration `+` instant. -/
theorem fold_time_add (loc t d : Int) :
    reduceBinary A S loc .ADD (.time t) (.dur d) = .time (t + d) ∧
    reduceBinary A S loc .ADD (.dur d) (.time t) = .time (t + d) := by
  simp [reduceBinary, BinOp.ofToken, reduceDispatch, reduceTimeLHS, reduceTimeLHS₀,
    reduceDurLHS, reduceDurLHS₀]

/-- instant `-` duration.

Full statement: the result is the instant `t - d`. The code computes `t.Add(-d)` and the negation
of the duration `MinInt64` wraps (`fold_time_sub_counterexample`), so this is the statement for
every other `int64` duration. -/
theorem fold_time_sub_partial (loc t d : Int) (hd : minInt64 < d ∧ d ≤ maxInt64) :
    reduceBinary A S loc .SUB (.time t) (.dur d) = .time (t - d) := by
  have : wrap64 (-d) = -d := by
    apply wrap64_id <;> (unfold minInt64 maxInt64 at *; omega)
  simp [reduceBinary, BinOp.ofToken, reduceDispatch, reduceTimeLHS, reduceTimeLHS₀, this]
  omega

/-- `t - MinInt64ns` folds to the instant `2^63` ns *before* `t` instead of after it. -/
theorem fold_time_sub_counterexample (loc t : Int) :
    reduceBinary A S loc .SUB (.time t) (.dur minInt64) = .time (t - 9223372036854775808) ∧
    t - minInt64 = t + 9223372036854775808 := by
  have : wrap64 (-minInt64) = minInt64 := by decide
  simp [reduceBinary, BinOp.ofToken, reduceDispatch, reduceTimeLHS, reduceTimeLHS₀, this]
  unfold minInt64
  omega

/-- The difference of two instants is the exact duration whenever it is a duration at all
(`int64` nanoseconds, about ±292 years); beyond that `Time.Sub` saturates. -/
theorem fold_time_diff (loc t u : Int) :
    reduceBinary A S loc .SUB (.time t) (.time u) = .dur (timeSub t u) ∧
    (minInt64 ≤ t - u ∧ t - u ≤ maxInt64 → timeSub t u = t - u) := by
  constructor
  · simp [reduceBinary, BinOp.ofToken, reduceDispatch, reduceTimeLHS, reduceTimeLHS₀]
  · intro h
    unfold timeSub
    simp only []
    split
    · omega
    · split <;> omega

/-- The six comparisons of two instants fold to their truth value. -/
theorem fold_time_cmp (loc t u : Int) :
    reduceBinary A S loc .EQ (.time t) (.time u) = .bool (decide (t = u)) ∧
    reduceBinary A S loc .NEQ (.time t) (.time u) = .bool (decide (t ≠ u)) ∧
    reduceBinary A S loc .LT (.time t) (.time u) = .bool (decide (t < u)) ∧
    reduceBinary A S loc .LTE (.time t) (.time u) = .bool (decide (t ≤ u)) ∧
    reduceBinary A S loc .GT (.time t) (.time u) = .bool (decide (t > u)) ∧
    reduceBinary A S loc .GTE (.time t) (.time u) = .bool (decide (t ≥ u)) := by
  refine ⟨?_, ?_, ?_, ?_, ?_, ?_⟩ <;>
    simp [reduceBinary, BinOp.ofToken, reduceDispatch, reduceTimeLHS, reduceTimeLHS₀] <;>
    (first | done | omega | (rw [Bool.eq_iff_iff]; simp <;> omega))

/-- An integer next to a duration is a timestamp in nanoseconds: `n ± d` folds to the instant;
an integer next to an instant is a duration. -/
theorem fold_timestamp (loc n d t : Int) (hd : minInt64 < d ∧ d ≤ maxInt64) :
    reduceBinary A S loc .ADD (.int n) (.dur d) = .time (n + d) ∧
    reduceBinary A S loc .SUB (.int n) (.dur d) = .time (n - d) ∧
    reduceBinary A S loc .ADD (.time t) (.int d) = .time (t + d) ∧
    reduceBinary A S loc .SUB (.time t) (.int d) = .time (t - d) ∧
    reduceBinary A S loc .ADD (.int d) (.time t) = .time (t + d) := by
  have : wrap64 (-d) = -d := by
    apply wrap64_id <;> (unfold minInt64 maxInt64 at *; omega)
  refine ⟨?_, ?_, ?_, ?_, ?_⟩ <;>
    simp [reduceBinary, BinOp.ofToken, reduceDispatch, reduceIntLHS, reduceTimeLHS, reduceTimeLHS₀,
      reduceDurLHS, reduceDurLHS₀, RExpr.isBinary, this] <;>
    (first | done | omega | (rw [Bool.eq_iff_iff]; simp <;> omega))

/-- `now() ± d` with a `NowValuer` folds to the instant. -/
theorem fold_now (now : Int) (zone : Option Int) (d : Int) (hd : minInt64 < d ∧ d ≤ maxInt64) :
    reduce A S (Valuer.now now zone) (.binary .SUB (.call ['n', 'o', 'w'] []) (.dur d))
      = .time (now - d) ∧
    reduce A S (Valuer.now now zone) (.binary .ADD (.call ['n', 'o', 'w'] []) (.dur d))
      = .time (now + d) := by
  have : wrap64 (-d) = -d := by
    apply wrap64_id <;> (unfold minInt64 maxInt64 at *; omega)
  constructor <;>
    simp [reduce, reduceArgs, Valuer.now, asLiteral, reduceBinary, BinOp.ofToken, reduceDispatch,
      reduceTimeLHS, reduceTimeLHS₀, this] <;>
    (first | done | omega | (rw [Bool.eq_iff_iff]; simp <;> omega))

/-- A string that converts to an instant (`ToTimeLiteral`) behaves as that instant next to a
duration or an instant. -/
theorem fold_date_string (loc : Int) (s : Str) (t d u : Int) (hs : S.toTime loc s = some t)
    (hd : minInt64 < d ∧ d ≤ maxInt64) :
    reduceBinary A S loc .ADD (.str s) (.dur d) = .time (t + d) ∧
    reduceBinary A S loc .SUB (.str s) (.dur d) = .time (t - d) ∧
    reduceBinary A S loc .SUB (.str s) (.time u) = .dur (timeSub t u) ∧
    reduceBinary A S loc .LT (.time u) (.str s) = .bool (decide (u < t)) ∧
    reduceBinary A S loc .GTE (.str s) (.time u) = .bool (decide (t ≥ u)) := by
  have : wrap64 (-d) = -d := by
    apply wrap64_id <;> (unfold minInt64 maxInt64 at *; omega)
  refine ⟨?_, ?_, ?_, ?_, ?_⟩ <;>
    simp [reduceBinary, BinOp.ofToken, reduceDispatch, reduceStrLHS, reduceStrAsTime, hs,
      reduceTimeLHS, reduceTimeLHS₀, RExpr.isBinary, this] <;>
    (first | done | omega | (rw [Bool.eq_iff_iff]; simp <;> omega))

/-! ### The executable date reader on concrete strings (kernel-evaluated) -/

/-- `2000-01-01`, `2000-01-01 00:00:00` and `2000-01-01T00:00:00Z` are the same instant in UTC;
fractions, explicit offsets and the location are honoured; impossible dates are rejected. -/
theorem toTime_examples :
    toTimeLiteral 0 ['2','0','0','0','-','0','1','-','0','1'] = some 946684800000000000 ∧
    toTimeLiteral 0 ['2','0','0','0','-','0','1','-','0','1',' ','0','0',':','0','0',':','0','0']
      = some 946684800000000000 ∧
    toTimeLiteral 0 ['2','0','0','0','-','0','1','-','0','1','T','0','0',':','0','0',':','0','0','Z']
      = some 946684800000000000 ∧
    toTimeLiteral 0 ['2','0','0','0','-','0','1','-','0','1','T','0','1',':','0','0',':','0','0','.','5','+','0','1',':','0','0']
      = some 946684800500000000 ∧
    toTimeLiteral 3600 ['2','0','0','0','-','0','1','-','0','1'] = some 946681200000000000 ∧
    toTimeLiteral 0 ['2','0','0','0','-','0','2','-','3','0'] = none ∧
    toTimeLiteral 0 ['1','9','7','0','-','0','1','-','0','1'] = some 0 := by
  decide

/-- Obligation on the facts regenerated from parser.go / ast.go on every run: the date reader of
`Model/TimeLit.lean` is written against exactly these two layouts and these two patterns (the
extractor also checks that `IsTimeLiteral`, `ToTimeLiteral`, `isDateString` and `isDateTimeString`
still have the bodies the model mirrors). -/
theorem gen_date_formats :
    Gen.dateFormat = ['2','0','0','6','-','0','1','-','0','2'] ∧
    Gen.dateTimeFormat = ['2','0','0','6','-','0','1','-','0','2',' ','1','5',':','0','4',':','0','5',
      '.','9','9','9','9','9','9'] ∧
    Gen.dateStringPattern =
      ['^','\\','d','{','4','}','-','\\','d','{','2','}','-','\\','d','{','2','}','$'] ∧
    Gen.dateTimeStringPattern =
      ['^','\\','d','{','4','}','-','\\','d','{','2','}','-','\\','d','{','2','}','.','+'] := by
  decide

/-- Obligation on the token table regenerated from token.go: the operators `Eval`/`Reduce`
distinguish (`BinOp.ofToken t ≠ other`) are exactly the tokens between `operatorBeg` and
`operatorEnd`, and no two of them are identified. -/
theorem gen_operator_tokens :
    (∀ t ∈ Token.all, (BinOp.ofToken t != .other) = t.isOperator) ∧
    (∀ t ∈ Token.all, ∀ u ∈ Token.all, t.isOperator = true → BinOp.ofToken t = BinOp.ofToken u → t = u) := by
  decide +kernel

/-! ### Where the code violates the full statement -/

def cxA : Str := ['2','0','0','0','-','0','1','-','0','1']
def cxB : Str := ['2','0','0','0','-','0','1','-','0','1',' ','0','0',':','0','0',':','0','0']

/-- The bindings `a ↦ "2000-01-01"`, `b ↦ "2000-01-01 00:00:00"`. -/
def cxEnv : Str → Option (Value F) := fun x =>
  if x = ['a'] then some (.str cxA) else if x = ['b'] then some (.str cxB) else none

def cxΓ : Str → Option Ty := fun x => if x = ['a'] ∨ x = ['b'] then some .str else none

/-- `a = b`. -/
def cxExpr : RExpr F := .binary .EQ (.varRef ['a'] .Unknown) (.varRef ['b'] .Unknown)

/-- **Counterexample to the unrestricted statement** (with the executable date reader, for every
floating-point structure): `a = b` is well typed (two strings), `a ↦ "2000-01-01"`,
`b ↦ "2000-01-01 00:00:00"`; `Reduce` with both bindings folds it to `true` (the two strings are
the same instant), `Eval` under the same bindings gives `false` (they are different strings). -/
theorem eval_reduce_counterexample :
    HasType (F := F) cxΓ cxExpr .bool ∧
    EnvOk cxΓ (envUnion (cxEnv (F := F)) (fun _ => none)) ∧
    eval A goStrAlg true (Valuer.map (fun _ => none)) (Reduce A goStrAlg (Valuer.map cxEnv) cxExpr)
      = .bool true ∧
    eval A goStrAlg true (Valuer.map (envUnion cxEnv (fun _ => none))) cxExpr = .bool false ∧
    dateSafe A goStrAlg (Valuer.map (envUnion cxEnv (fun _ => none))) (cxExpr (F := F)) = false := by
  have ta : toTimeLiteral 0 cxA = some 946684800000000000 := by decide
  have tb : toTimeLiteral 0 cxB = some 946684800000000000 := by decide
  have la : isTimeLiteral cxA = true := by decide
  have lb : isTimeLiteral cxB = true := by decide
  have ne : (cxA == cxB) = false := by decide
  refine ⟨?_, ?_, ?_, ?_, ?_⟩
  · exact HasType.binary _ _ _ .str .str .bool
      (HasType.var _ _ _ (by simp [cxΓ])) (HasType.var _ _ _ (by simp [cxΓ])) (by simp [BinOp.ofToken, opTy])
  · intro x τ h
    unfold cxΓ at h
    by_cases hx : x = ['a']
    · subst hx
      simp at h
      subst h
      exact ⟨.str cxA, by simp [envUnion, cxEnv], by simp [tyOf], by simp [okVal]⟩
    · by_cases hy : x = ['b']
      · subst hy
        simp at h
        subst h
        exact ⟨.str cxB, by simp [envUnion, cxEnv], by simp [tyOf], by simp [okVal]⟩
      · simp [hx, hy] at h
  · simp [Reduce, cxExpr, reduce, Valuer.map, cxEnv, asLiteral, reduceBinary, BinOp.ofToken,
      reduceDispatch, reduceStrLHS, reduceStrEq, goStrAlg, la, lb, ta, tb, reduceTimeLHS,
      reduceTimeLHS₀, RExpr.isBinary, eval]
  · simp [cxExpr, eval, Valuer.map, envUnion, cxEnv, BinOp.ofToken, evalBin, nilCast, evalStrLHS, ne]
  · simp [cxExpr, dateSafe, eval, Valuer.map, envUnion, cxEnv, BinOp.ofToken, dateOk, goStrAlg, la, lb]

/-- The property is stated "with integer division as float division": with
`IntegerFloatDivision` off it fails, `Reduce` folds `7 / 2` to the float quotient while `Eval`
gives the integer `3`. -/
theorem eval_reduce_needs_float_division (V : Valuer F) :
    eval A S false V (Reduce A S V (.binary .DIV (.int 7) (.int 2)))
      = .float (A.div (A.ofInt 7) (A.ofInt 2)) ∧
    eval A S false V (.binary .DIV (.int 7) (.int 2)) = .int 3 := by
  constructor
  · simp [Reduce, reduce, reduceBinary, BinOp.ofToken, reduceDispatch, reduceIntLHS, eval]
  · simp [eval, BinOp.ofToken, evalBin, nilCast, evalIntLHS]
    decide

/-! ### Non-vacuity -/

/-- A well-typed expression with every kind of value in it:
`(i + 1) * u > f / 2 AND s = 'x' OR NOT-free b`. -/
example : HasType (F := F)
    (fun x => if x = ['i'] then some .int else if x = ['u'] then some .uint
      else if x = ['f'] then some .float else if x = ['s'] then some .str
      else if x = ['b'] then some .bool else none)
    (.binary .OR
      (.binary .AND
        (.binary .GT
          (.binary .MUL (.paren (.binary .ADD (.varRef ['i'] .Unknown) (.int 1))) (.varRef ['u'] .Unknown))
          (.binary .DIV (.varRef ['f'] .Unknown) (.int 2)))
        (.binary .EQ (.varRef ['s'] .Unknown) (.str ['x'])))
      (.varRef ['b'] .Unknown))
    .bool := by
  refine HasType.binary _ _ _ .bool .bool .bool ?_ (HasType.var _ _ _ (by simp)) (by simp [BinOp.ofToken, opTy])
  refine HasType.binary _ _ _ .bool .bool .bool ?_ ?_ (by simp [BinOp.ofToken, opTy])
  · refine HasType.binary _ _ _ .uint .float .bool ?_ ?_ (by simp [BinOp.ofToken, opTy, numJoin])
    · refine HasType.binary _ _ _ .int .uint .uint ?_ (HasType.var _ _ _ (by simp)) (by simp [BinOp.ofToken, opTy, numJoin])
      exact HasType.paren _ _ (HasType.binary _ _ _ .int .int .int (HasType.var _ _ _ (by simp))
        (HasType.int _ (by decide)) (by simp [BinOp.ofToken, opTy, numJoin]))
    · exact HasType.binary _ _ _ .float .int .float (HasType.var _ _ _ (by simp))
        (HasType.int _ (by decide)) (by simp [BinOp.ofToken, opTy, numJoin])
  · exact HasType.binary _ _ _ .str .str .bool (HasType.var _ _ _ (by simp)) (HasType.str _)
      (by simp [BinOp.ofToken, opTy])

/-- `dateSafe` is satisfiable on string equalities (`'x' = 'x'`). -/
example : dateSafe A goStrAlg (Valuer.map (fun _ => none))
    (.binary .EQ (.str ['x']) (.str ['x']) : RExpr F) = true := by
  have : isTimeLiteral ['x'] = false := by decide
  simp [dateSafe, eval, BinOp.ofToken, dateOk, goStrAlg, this]

end InfluxQL.C09

import InfluxQL.Lemmas.ReduceEval
import InfluxQL.Lemmas.ReduceIdem
import InfluxQL.Model.TimeLit
/-
C09 — constant folding never changes the value of an expression.

Model: `Model/Eval.lean` (`ValuerEval.Eval`), `Model/Reduce.lean` (`Reduce`), generic in the
floating-point operations (`FloatAlg F`) and in what is asked of strings (`StrAlg`: `IsTimeLiteral`,
`ToTimeLiteral`, regular-expression matching). All theorems below hold for *every* `FloatAlg` and
`StrAlg` unless they name the executable instances (`goStrAlg` of `Model/TimeLit.lean`), i.e. they
use no law of IEEE arithmetic and no property of the date parser.

Typing: `HasType Γ e τ` (`Lemmas/ReduceEval.lean`) is the well-typed class of the property:
integer, unsigned, float, boolean and string literals and variables; `AND OR & | ^ = !=` on
booleans; `+ - * / %`, `< <= > >=`, `= !=` on numbers of any two kinds, `& | ^` on integers and
unsigned; `= !=` on strings. `EnvOk Γ env`: every variable is bound to a value of its kind
(`int64` values in the `int64` range).
-/
namespace InfluxQL.C09
open Gen

variable {F : Type} (A : FloatAlg F) (S : StrAlg)

/-- The induction behind `eval_reduce_partial`: for a well-typed `e`, `reduce e env₁` evaluates
under `env₂` to the value of `e` under all bindings; it is the literal of that value or not a
literal at all; the value has the kind of `e`. -/
theorem eval_reduce_core {Γ : Str → Option Ty} {env₁ env₂ : Str → Option (Value F)}
    (henv : EnvOk Γ (envUnion env₁ env₂)) {e : RExpr F} {τ : Ty} (ht : HasType Γ e τ)
    (hd : dateSafe A S (Valuer.map (envUnion env₁ env₂)) e = true) :
    eval A S true (Valuer.map env₂) (reduce A S (Valuer.map env₁) e)
        = eval A S true (Valuer.map (envUnion env₁ env₂)) e ∧
    (reduce A S (Valuer.map env₁) e = asLiteral (eval A S true (Valuer.map (envUnion env₁ env₂)) e) ∨
      inert (reduce A S (Valuer.map env₁) e) = true) ∧
    tyOf (eval A S true (Valuer.map (envUnion env₁ env₂)) e) = some τ ∧
    okVal (eval A S true (Valuer.map (envUnion env₁ env₂)) e) := by
  induction ht with
  | bool b => simp [reduce, eval, asLiteral, tyOf, okVal]
  | int v h => simp [reduce, eval, asLiteral, tyOf, okVal, h]
  | uint v => simp [reduce, eval, asLiteral, tyOf, okVal]
  | num v => simp [reduce, eval, asLiteral, tyOf, okVal]
  | str s => simp [reduce, eval, asLiteral, tyOf, okVal]
  | var x dt τ hx =>
    obtain ⟨v, hv, hty, hok⟩ := henv x τ hx
    cases h1 : env₁ x with
    | some v1 =>
      have : v1 = v := by simpa [envUnion, h1] using hv
      subst this
      simp [reduce, eval, Valuer.map, h1, hv, hty, hok, eval_asLiteral A S hty]
    | none =>
      have h2 : env₂ x = some v := by simpa [envUnion, h1] using hv
      simp [reduce, eval, Valuer.map, h1, h2, hv, hty, hok, inert]
  | paren e τ _ ih =>
    have hd' : dateSafe A S (Valuer.map (envUnion env₁ env₂)) e = true := by
      simpa [dateSafe] using hd
    obtain ⟨h1, h2, h3, h4⟩ := ih hd'
    by_cases hb : (reduce A S (Valuer.map env₁) e).isBinary = true
    · simp [reduce, eval, hb, h1, h3, h4, inert]
    · simp [reduce, eval, hb, h1, h2, h3, h4]
  | binary tok l r τl τr τ _ _ hop ihl ihr =>
    simp only [dateSafe, Bool.and_eq_true] at hd
    obtain ⟨⟨hdl, hdr⟩, hdo⟩ := hd
    obtain ⟨l1, l2, l3, _⟩ := ihl hdl
    obtain ⟨r1, r2, r3, r4⟩ := ihr hdr
    have step := binary_step A S l3 r3 hop hdo r4 (Valuer.map env₂) l1 r1 l2 r2
      ((Valuer.map env₁).zone.getD 0)
    simp only [reduce, eval]
    refine ⟨step.1, step.2, evalBin_ty A S l3 r3 hop, ?_⟩
    exact evalBin_ok A S l3 r3 hop (by obtain ⟨_, _, _, h⟩ := ihl hdl; exact h)

/-- **Constant folding never changes the value** (integer division as float division, division and
modulo by zero as zero — the semantics of `ValuerEval{IntegerFloatDivision: true}`).

Full statement of the property: for every well-typed `e`, every assignment `env₁ ∪ env₂` of values
of the right kinds to its variables and every split of it,
`Eval(Reduce(e, env₁), env₂) = Eval(e, env₁ ∪ env₂)`.
The code violates it in one place (`eval_reduce_counterexample`): `Reduce` compares two *strings*
that both look like dates as instants, `Eval` compares them as strings. This theorem is the
statement for every expression in which no `=`/`!=` meets two such strings (`dateSafe`, a
computable check on the expression and the bindings); it needs no other hypothesis and holds for
every floating-point structure. -/
theorem eval_reduce_partial {Γ : Str → Option Ty} {env₁ env₂ : Str → Option (Value F)}
    (henv : EnvOk Γ (envUnion env₁ env₂)) {e : RExpr F} {τ : Ty} (ht : HasType Γ e τ)
    (hd : dateSafe A S (Valuer.map (envUnion env₁ env₂)) e = true) :
    eval A S true (Valuer.map env₂) (Reduce A S (Valuer.map env₁) e)
      = eval A S true (Valuer.map (envUnion env₁ env₂)) e := by
  have h := (eval_reduce_core A S henv ht hd).1
  unfold Reduce
  split
  · rename_i x hx
    rw [hx] at h
    simpa [eval] using h
  · exact h

/-- Without a string equality in it an expression is `dateSafe` whatever the bindings: the
unconditional form of the theorem for the numeric and boolean part of the class. -/
theorem eval_reduce_no_string_eq {Γ : Str → Option Ty} {env₁ env₂ : Str → Option (Value F)}
    (henv : EnvOk Γ (envUnion env₁ env₂)) {e : RExpr F} {τ : Ty} (ht : HasType Γ e τ)
    (hns : ∀ x τ', Γ x = some τ' → τ' ≠ .str) (hnl : noStrLit e = true) :
    eval A S true (Valuer.map env₂) (Reduce A S (Valuer.map env₁) e)
      = eval A S true (Valuer.map (envUnion env₁ env₂)) e := by
  apply eval_reduce_partial A S henv ht
  exact dateSafe_of_noStr A S henv ht hns hnl

/-- The values of well-typed expressions have the kind of the expression (type soundness of
`Eval` with integer division as float division). -/
theorem eval_hasType {Γ : Str → Option Ty} {env : Str → Option (Value F)}
    (henv : EnvOk Γ env) {e : RExpr F} {τ : Ty} (ht : HasType Γ e τ) :
    tyOf (eval A S true (Valuer.map env) e) = some τ :=
  eval_ty A S henv ht

/-- The per-cell lemma, all sixteen operators × all pairs of operand kinds of the class: folding
two literals gives the literal of what `evalBinaryExpr` computes from the two values, or a node
that evaluates to it. -/
theorem fold_cell {tok : Token} {a b : Value F} {τa τb τ : Ty}
    (ha : tyOf a = some τa) (hb : tyOf b = some τb)
    (hop : opTy (BinOp.ofToken tok) τa τb = some τ)
    (hd : dateOk S (BinOp.ofToken tok) a b = true) (okb : okVal b) (V : Valuer F) (loc : Int) :
    eval A S true V (reduceBinary A S loc tok (asLiteral a) (asLiteral b))
      = evalBin A S true (BinOp.ofToken tok) a b := by
  rcases cell A S ha hb hop hd okb V loc with h | ⟨_, h⟩
  · rw [h]
    exact eval_asLiteral A S (evalBin_ty A S ha hb hop) V true
  · exact h

mutual
  /-- **Reducing twice gives the same result as reducing once** — for every expression (typed or
  not) and every valuer. -/
  theorem reduce_idem (V : Valuer F) : ∀ e : RExpr F,
      reduce A S V (reduce A S V e) = reduce A S V e
    | .binary tok l r => by
      simp only [reduce]
      exact reduceBinary_fix A S V tok _ _ (reduce_idem V l) (reduce_idem V r)
    | .paren e => by
      have ih := reduce_idem V e
      by_cases hb : (reduce A S V e).isBinary = true
      · simp [reduce, hb, ih]
      · simp [reduce, hb, ih]
    | .call name args => by
      have ih := reduceArgs_idem V args
      simp only [reduce]
      split
      · rename_i hall
        split
        · rename_i f hf
          split
          · exact isLit_fix A S V (asLiteral_isLit _)
          · rename_i hnone
            simp only [reduce, ih, hall, hf, hnone, if_true]
        · rename_i hf
          simp only [reduce, ih, hall, hf, if_true]
      · rename_i hall
        simp only [reduce, ih, hall, if_false]
        simp
    | .varRef val ty => by
      simp only [reduce]
      split
      · exact isLit_fix A S V (asLiteral_isLit _)
      · rename_i h
        simp [reduce, h]
    | .distinct _ | .wildcard _ | .regex _ | .str _ | .num _ | .int _ | .uint _ | .bool _
    | .dur _ | .time _ | .nil | .list _ | .boundParam _ => by simp [reduce]
  theorem reduceArgs_idem (V : Valuer F) : ∀ args : List (RExpr F),
      reduceArgs A S V (reduceArgs A S V args) = reduceArgs A S V args
    | [] => by simp [reduceArgs]
    | a :: rest => by
      simp only [reduceArgs]
      rw [reduce_idem V a, reduceArgs_idem V rest]
end

/-- `reduce` keeps parentheses only around a binary node, and that node is already reduced. -/
theorem reduce_paren (V : Valuer F) : ∀ (e x : RExpr F), reduce A S V e = .paren x →
    x.isBinary = true ∧ reduce A S V x = x
  | .binary tok l r, x, h => by
    simp only [reduce] at h
    rcases reduceBinary_paren A S h with h' | h'
    · exact reduce_paren V l x h'
    · exact reduce_paren V r x h'
  | .paren e, x, h => by
    simp only [reduce] at h
    by_cases hb : (reduce A S V e).isBinary = true
    · simp only [hb, if_true] at h
      injection h with h
      subst h
      exact ⟨hb, reduce_idem A S V e⟩
    · simp only [hb] at h
      exact reduce_paren V e x (by simpa using h)
  | .call name args, x, h => by
    simp only [reduce] at h
    split at h
    · split at h
      · split at h
        · have := asLiteral_isLit (F := F) ‹_›
          rw [h] at this
          simp [RExpr.isLiteral] at this
        · cases h
      · cases h
    · cases h
  | .varRef val ty, x, h => by
    simp only [reduce] at h
    split at h
    · have := asLiteral_isLit (F := F) ‹_›
      rw [h] at this
      simp [RExpr.isLiteral] at this
    · cases h
  | .distinct _, _, h | .wildcard _, _, h | .regex _, _, h | .str _, _, h | .num _, _, h
  | .int _, _, h | .uint _, _, h | .bool _, _, h | .dur _, _, h | .time _, _, h | .nil, _, h
  | .list _, _, h | .boundParam _, _, h => by simp [reduce] at h

/-- Idempotence of the exported `Reduce` (which also drops one outer pair of parentheses). -/
theorem Reduce_idem (V : Valuer F) (e : RExpr F) :
    Reduce A S V (Reduce A S V e) = Reduce A S V e := by
  have h := reduce_idem A S V e
  unfold Reduce
  cases hx : reduce A S V e with
  | paren x =>
    obtain ⟨hb, hxx⟩ := reduce_paren A S V e x hx
    simp only [hxx]
    revert hb
    cases x <;> simp [RExpr.isBinary]
  | _ => simp only [hx] at h ⊢ <;> simp [h]

end InfluxQL.C09

import InfluxQL.Gen.Params
import InfluxQL.Lemmas.Bind
import InfluxQL.Lemmas.BindSim
import InfluxQL.Lemmas.Inline
import InfluxQL.Lemmas.InlineSimExpr
/-!
# C07 — bound parameters are substituted as single tokens, never re-lexed

Model: `Model/Bind.lean` (`BindValue`, `bindObjectValue`, `jsonNumberToValue`, the `Value` types),
the `$` branch of `scan`, the substitution in `pscanWith` (`Parser.scan`), `parseUnaryExpr`.
`rawNext` (Lemmas/PMonad.lean) is `bufScanner.scanFunc` — the raw token and the state after it;
`substTok params` is the substitution step; `pscan` delivers `substTok params (rawNext …)`.
-/
namespace InfluxQL.C07
open InfluxQL Gen

/-! ## Obligations on the tables regenerated from params.go -/

/-- Token kind of every `Value` type. -/
theorem gen_value_token_kinds :
    valueTokenTypes =
      [("Identifier".toList, [.IDENT]), ("StringValue".toList, [.STRING]), ("RegexValue".toList, [.REGEX]),
       ("NumberValue".toList, [.NUMBER]), ("IntegerValue".toList, [.INTEGER]),
       ("BooleanValue".toList, [.TRUE, .FALSE]), ("DurationValue".toList, [.DURATIONVAL]),
       ("ErrorValue".toList, [.BOUNDPARAM])] := by decide +kernel

/-- `Value()` of every `Value` type: the underlying string, the two `strconv` formats, and the
empty text for booleans. -/
theorem gen_value_texts :
    valueTexts =
      [("Identifier".toList, "string(v)".toList), ("StringValue".toList, "string(v)".toList),
       ("RegexValue".toList, "string(v)".toList),
       ("NumberValue".toList, "strconv.FormatFloat(float64(v), 'f', -1, 64)".toList),
       ("IntegerValue".toList, "strconv.FormatInt(int64(v), 10)".toList),
       ("BooleanValue".toList, "\"\"".toList), ("DurationValue".toList, "string(v)".toList),
       ("ErrorValue".toList, "string(e)".toList)] := by decide +kernel

/-- The type switch of `BindValue`. -/
theorem gen_bind_type_switch :
    bindTypeSwitch =
      [("float64".toList, "return NumberValue(v)".toList), ("int64".toList, "return IntegerValue(v)".toList),
       ("string".toList, "return StringValue(v)".toList), ("bool".toList, "return BooleanValue(v)".toList),
       ("map[string]interface{}".toList, "return bindObjectValue(v)".toList),
       ("default".toList, "s := fmt.Sprintf(\"unable to bind parameter with type %T\", v)".toList)] := by
  decide +kernel

/-- The key switch of `bindObjectValue` and every constant error text. -/
theorem gen_bind_object_keys :
    bindObjectKeys =
      [["ident".toList, "identifier".toList], ["regex".toList], ["string".toList],
       ["float".toList, "number".toList], ["int".toList, "integer".toList], ["duration".toList], []] ∧
    bindErrorTexts =
      ["bound object parameter value must have exactly one entry".toList,
       "identifier must be a string value".toList, "regex literal must be a string value".toList,
       "string literal must be a string value".toList, "number literal must be a float value".toList,
       "integer literal must be an integer value".toList,
       "duration literal must be a string or integer value".toList] := by decide +kernel

/-- The model's `TokenType()` / `Value()` are these tables. -/
theorem model_value_table (s t : Str) (i : Int) (b : Bool) :
    (ParamValue.identifier s).bound = ⟨.IDENT, s⟩ ∧ (ParamValue.string s).bound = ⟨.STRING, s⟩ ∧
    (ParamValue.regex s).bound = ⟨.REGEX, s⟩ ∧ (ParamValue.number t).bound = ⟨.NUMBER, t⟩ ∧
    (ParamValue.integer i).bound = ⟨.INTEGER, intDigits i⟩ ∧
    (ParamValue.boolean b).bound = ⟨if b then .TRUE else .FALSE, []⟩ ∧
    (ParamValue.duration s).bound = ⟨.DURATIONVAL, s⟩ ∧ (ParamValue.error s).bound = ⟨.BOUNDPARAM, s⟩ :=
  ⟨rfl, rfl, rfl, rfl, rfl, rfl, rfl, rfl⟩

/-! ## `$name` lexes once -/

/-- **C07 (lexing).** `$` followed by a name (a non-empty run of identifier characters, keywords
included) is exactly one BOUNDPARAM token with literal `$name`, ending right after the name,
whatever text follows (`x` = any rune that cannot continue an identifier). -/
theorem dollar_lexes_once (r : Cursor) (name : List Char) (x : Char) (t : List Char)
    (hne : name ≠ []) (hall : ∀ c ∈ name, isIdentChar c = true) (h : r.chars = '$' :: (name ++ x :: t))
    (hx : isIdentChar x = false) (hxq : x ≠ '"') (hxe : x ≠ eofRune) :
    (scan r).1.tok = .BOUNDPARAM ∧ (scan r).1.lit = '$' :: name ∧ (scan r).2.chars = x :: t :=
  scan_dollar_name r name x t hne hall h hx hxq hxe

/-- For any continuation at all (quoted names, stray `$`, unterminated quotes), the `$` and what
`scanIdent` reads after it form *one* token: BOUNDPARAM, or the bad-string token of the quoted
form; its literal is `$` plus that identifier's literal. -/
theorem dollar_is_one_token (r : Cursor) (t : List Char) (h : r.chars = '$' :: t) :
    (scan r).1.lit = '$' :: (scanIdent false r.read.2).1.lit ∧ (scan r).2 = (scanIdent false r.read.2).2 ∧
    ((scan r).1.tok = .BOUNDPARAM ∨ (scan r).1.tok = (scanIdent false r.read.2).1.tok) :=
  scan_dollar_general r t h

/-! ## One token per placeholder -/

/-- **C07 (substitution).** `Parser.Scan` / `ScanRegex` never fail and deliver the raw token
with the substitution applied; for a raw `$k` with `k` bound to `v` that is exactly the one
token `(v.tok, v.text)` at the placeholder's position. Unbound and empty names stay BOUNDPARAM. -/
theorem subst_one_token (regex : Bool) (s : PState) :
    (pscanWith regex).run s = .ok (substTok s.params (rawNext regex s).1, (rawNext regex s).2) ∧
    (∀ v, (rawNext regex s).1.tok = .BOUNDPARAM → trimDollar (rawNext regex s).1.lit ≠ [] →
      lookupParam (trimDollar (rawNext regex s).1.lit) s.params = some v →
      substTok s.params (rawNext regex s).1 = ⟨v.tok, (rawNext regex s).1.pos, v.text⟩) ∧
    ((rawNext regex s).1.tok ≠ .BOUNDPARAM ∨ trimDollar (rawNext regex s).1.lit = [] ∨
      lookupParam (trimDollar (rawNext regex s).1.lit) s.params = none →
      substTok s.params (rawNext regex s).1 = (rawNext regex s).1) :=
  ⟨pscanWith_run regex s, fun v h1 h2 h3 => substTok_bound _ _ v h1 h2 h3, substTok_unbound _ _⟩

/-- **C07 (re-delivery).** After `Unscan`, the next `Scan` — or `ScanRegex`, as in the `$`
look-ahead of `parseRegex` — delivers the same substituted token again and restores the state:
substitution is a function of the buffered raw token, applied on every delivery. -/
theorem subst_redelivery (regex regex' : Bool) (s : PState) :
    (do unscan; pscanWith regex').run (rawNext regex s).2 = (pscanWith regex).run s := by
  rw [P.runBind, unscan_run_eq]
  exact pscan_unscan_pscan regex regex' s

/-! ## The bind table -/

/-- **C07 (bindable kinds).** Each bindable Go value maps to its token kind and carries exactly
the value (`float64` / `int64` / `json.Number` through their `strconv` texts). -/
theorem bindValue_table (s t ft : Str) (i : Int) (b : Bool) :
    (bindValue (.float t)).bound = ⟨.NUMBER, t⟩ ∧
    (bindValue (.int i ft)).bound = ⟨.INTEGER, intDigits i⟩ ∧
    (bindValue (.str s)).bound = ⟨.STRING, s⟩ ∧
    (bindValue (.bool b)).bound = ⟨if b then .TRUE else .FALSE, []⟩ ∧
    (bindValue (.object "ident".toList (.str s))).bound = ⟨.IDENT, s⟩ ∧
    (bindValue (.object "identifier".toList (.str s))).bound = ⟨.IDENT, s⟩ ∧
    (bindValue (.object "regex".toList (.str s))).bound = ⟨.REGEX, s⟩ ∧
    (bindValue (.object "string".toList (.str s))).bound = ⟨.STRING, s⟩ ∧
    (bindValue (.object "float".toList (.float t))).bound = ⟨.NUMBER, t⟩ ∧
    (bindValue (.object "number".toList (.float t))).bound = ⟨.NUMBER, t⟩ ∧
    (bindValue (.object "float".toList (.int i ft))).bound = ⟨.NUMBER, ft⟩ ∧
    (bindValue (.object "number".toList (.int i ft))).bound = ⟨.NUMBER, ft⟩ ∧
    (bindValue (.object "int".toList (.int i ft))).bound = ⟨.INTEGER, intDigits i⟩ ∧
    (bindValue (.object "integer".toList (.int i ft))).bound = ⟨.INTEGER, intDigits i⟩ ∧
    (bindValue (.object "duration".toList (.str s))).bound = ⟨.DURATIONVAL, s⟩ ∧
    (bindValue (.object "duration".toList (.int i ft))).bound = ⟨.DURATIONVAL, formatDuration i⟩ := by
  refine ⟨rfl, rfl, rfl, rfl, ?_, ?_, ?_, ?_, ?_, ?_, ?_, ?_, ?_, ?_, ?_, ?_⟩ <;>
    simp [bindValue, bindObjectValue, convertJsonNumber, ParamValue.bound, ParamValue.tokenType, ParamValue.text] <;> decide

/-- A `json.Number` is first converted: with a `.` in its text through `Float64()`, otherwise
through `Int64()`; a conversion error is an `ErrorValue` with the `strconv` message. -/
theorem bindValue_jsonNumber (text : Str) (asFloat : Except Str Str) (asInt : Except Str (Int × Str)) :
    bindValue (.jsonNumber text asFloat asInt) =
      if containsDot text then
        match asFloat with
        | .ok t => .number t
        | .error e => .error e
      else
        match asInt with
        | .ok (i, _) => .integer i
        | .error e => .error e := by
  by_cases hd : containsDot text = true
  · cases asFloat <;> simp [bindValue, convertJsonNumber, hd]
  · cases asInt with
    | error e => simp [bindValue, convertJsonNumber, hd]
    | ok p => obtain ⟨i, ft⟩ := p; simp [bindValue, convertJsonNumber, hd]

/-- Is this value one of the bindable shapes of `bindValue_table` / `bindValue_jsonNumber`? -/
def Bindable : GoVal → Bool
  | .float _ | .int _ _ | .str _ | .bool _ => true
  | .jsonNumber text asFloat asInt =>
    if containsDot text then asFloat.toBool else asInt.toBool
  | .object k v =>
    match convertJsonNumber v with
    | .error _ => false
    | .ok v =>
      if k = "ident".toList ∨ k = "identifier".toList ∨ k = "regex".toList ∨ k = "string".toList then
        (match v with | .str _ => true | _ => false)
      else if k = "float".toList ∨ k = "number".toList then
        (match v with | .float _ | .int _ _ => true | _ => false)
      else if k = "int".toList ∨ k = "integer".toList then
        (match v with | .int _ _ => true | _ => false)
      else if k = "duration".toList then
        (match v with | .str _ | .int _ _ => true | _ => false)
      else false
  | .objectN | .other _ => false

/-- **C07 (everything else is an error value).** A value is bindable iff `BindValue` does not
return an `ErrorValue`, i.e. iff its token kind is not BOUNDPARAM. -/
theorem bindValue_error_iff (v : GoVal) : (bindValue v).tokenType = .BOUNDPARAM ↔ Bindable v = false := by
  cases v with
  | float t => simp [bindValue, convertJsonNumber, ParamValue.tokenType, Bindable]
  | int i ft => simp [bindValue, convertJsonNumber, ParamValue.tokenType, Bindable]
  | str s => simp [bindValue, convertJsonNumber, ParamValue.tokenType, Bindable]
  | bool b => cases b <;> simp [bindValue, convertJsonNumber, ParamValue.tokenType, Bindable]
  | jsonNumber text asFloat asInt =>
    rw [bindValue_jsonNumber]
    show _ ↔ (if containsDot text = true then asFloat.toBool else asInt.toBool) = false
    by_cases hd : containsDot text = true
    · rw [if_pos hd, if_pos hd]
      cases asFloat <;> simp [ParamValue.tokenType, Except.toBool]
    · rw [if_neg hd, if_neg hd]
      cases asInt with
      | error e => simp [ParamValue.tokenType, Except.toBool]
      | ok p => obtain ⟨i, ft⟩ := p; simp [ParamValue.tokenType, Except.toBool]
  | objectN => simp [bindValue, convertJsonNumber, ParamValue.tokenType, Bindable]
  | other t => simp [bindValue, convertJsonNumber, ParamValue.tokenType, Bindable]
  | object k x =>
    have hb : bindValue (.object k x) = bindObjectValue k x := rfl
    rw [hb]
    show _ ↔ (match convertJsonNumber x with
      | .error _ => false
      | .ok v =>
        if k = "ident".toList ∨ k = "identifier".toList ∨ k = "regex".toList ∨ k = "string".toList then
          (match v with | .str _ => true | _ => false)
        else if k = "float".toList ∨ k = "number".toList then
          (match v with | .float _ | .int _ _ => true | _ => false)
        else if k = "int".toList ∨ k = "integer".toList then
          (match v with | .int _ _ => true | _ => false)
        else if k = "duration".toList then
          (match v with | .str _ | .int _ _ => true | _ => false)
        else false) = false
    unfold bindObjectValue
    cases hx : convertJsonNumber x with
    | error e => simp [ParamValue.tokenType]
    | ok y =>
      simp only
      by_cases h1 : k = "ident".toList ∨ k = "identifier".toList
      · have h1' : k = "ident".toList ∨ k = "identifier".toList ∨ k = "regex".toList ∨ k = "string".toList := by
          rcases h1 with h | h
          · exact Or.inl h
          · exact Or.inr (Or.inl h)
        rw [if_pos h1, if_pos h1']
        cases y <;> simp [ParamValue.tokenType]
      rw [if_neg h1]
      by_cases h2 : k = "regex".toList
      · have h2' : k = "ident".toList ∨ k = "identifier".toList ∨ k = "regex".toList ∨ k = "string".toList :=
          Or.inr (Or.inr (Or.inl h2))
        rw [if_pos h2, if_pos h2']
        cases y <;> simp [ParamValue.tokenType]
      rw [if_neg h2]
      by_cases h3 : k = "string".toList
      · have h3' : k = "ident".toList ∨ k = "identifier".toList ∨ k = "regex".toList ∨ k = "string".toList :=
          Or.inr (Or.inr (Or.inr h3))
        rw [if_pos h3, if_pos h3']
        cases y <;> simp [ParamValue.tokenType]
      rw [if_neg h3]
      have h0 : ¬ (k = "ident".toList ∨ k = "identifier".toList ∨ k = "regex".toList ∨ k = "string".toList) := by
        rintro (h | h | h | h)
        · exact h1 (Or.inl h)
        · exact h1 (Or.inr h)
        · exact h2 h
        · exact h3 h
      rw [if_neg h0]
      by_cases h4 : k = "float".toList ∨ k = "number".toList
      · rw [if_pos h4, if_pos h4]
        cases y <;> simp [ParamValue.tokenType]
      rw [if_neg h4, if_neg h4]
      by_cases h5 : k = "int".toList ∨ k = "integer".toList
      · rw [if_pos h5, if_pos h5]
        cases y <;> simp [ParamValue.tokenType]
      rw [if_neg h5, if_neg h5]
      by_cases h6 : k = "duration".toList
      · rw [if_pos h6, if_pos h6]
        cases y <;> simp [ParamValue.tokenType]
      rw [if_neg h6, if_neg h6]
      simp [ParamValue.tokenType]

/-- **C07 (unbindable, unbound and empty parameters are errors).** If the token delivered to
`parseUnaryExpr` is still BOUNDPARAM — the name is empty (`$`), or not bound, or bound to an
`ErrorValue` (token kind BOUNDPARAM by `bindValue_error_iff`) — parsing fails with
`boundParamError`: "empty bound parameter", "missing parameter: k", or the text the delivered
literal is bound to. (For an `ErrorValue` the delivered literal is the error text itself, which is
looked up again as a name: the message is normally "missing parameter: <error text>".) -/
theorem unbound_or_unbindable_fails (fuel : Nat) (s : PState)
    (h : (substTok s.params (rawNext false s).1).tok = .BOUNDPARAM) :
    (parseUnaryExpr (fuel + 1)).run s =
      .error (.err (.plain (boundParamError s.params (substTok s.params (rawNext false s).1).lit))) :=
  parseUnaryExpr_boundparam_token fuel s h

/-! ## The value is never re-lexed -/

/-- **C07 (no re-lexing, token layer).** The bound values never reach the scanner: for any two
parameter maps the raw token, the cursor and the token ring evolve identically
(`rawNext_params_irrelevant`); the delivered tokens have the same kind and position, and the same
literal except for tokens of kind STRING, whenever the two maps bind the same names to values
that differ only in the text of string values (`ParamsRel`). No content of a string value —
quotes, semicolons, comment markers, keywords — can therefore produce a different token kind, an
additional token, or a different extent. -/
theorem value_not_relexed_tokens (regex : Bool) (s : PState) (p2 : List (Str × BoundValue))
    (h : ParamsRel s.params p2) :
    ∃ lx1 lx2 s', (pscanWith regex).run s = .ok (lx1, s') ∧
      (pscanWith regex).run { s with params := p2 } = .ok (lx2, { s' with params := p2 }) ∧
      LxRel lx1 lx2 := by
  refine ⟨_, _, _, pscanWith_run regex s, ?_, substTok_rel h (rawNext regex s).1⟩
  rw [pscanWith_run, rawNext_params_irrelevant]

/-- **C07 (a string placeholder is a string literal).** When the token delivered to
`parseUnaryExpr` has kind STRING — a placeholder bound to a string value, or a written string —
the operand is the string literal carrying exactly the delivered text, and exactly that token is
consumed. The result does not depend on the text in any other way. -/
theorem string_placeholder_is_literal (fuel : Nat) (s : PState)
    (h : (substTok s.params (rawNext false s).1).tok = .STRING) :
    (parseUnaryExpr (fuel + 1)).run s =
      .ok (.string (substTok s.params (rawNext false s).1).lit, (rawNext false s).2) :=
  parseUnaryExpr_string_token fuel s h

/-! ## The value is never re-lexed: the whole expression parser -/

theorem paramsRel_refl (p : List (Str × BoundValue)) : ParamsRel p p := by
  induction p with
  | nil => trivial
  | cons x t ih => obtain ⟨k, v⟩ := x; exact ⟨rfl, rfl, fun _ => rfl, ih⟩

theorem all2_mono {α : Type} {R R' : α → α → Prop} {l1 l2 : List α} (h : All2 R l1 l2)
    (hr : ∀ x y, R x y → R' x y) : All2 R' l1 l2 := by
  induction h with
  | nil => exact All2.nil
  | cons h _ ih => exact All2.cons (hr _ _ h) ih

/-- **C07 (no re-lexing, whole parser).** Parse the same text with two parameter maps that bind
the same names to values of the same kinds and differ only in the texts of string values
(`ParamsRel`). Then either both parses fail (with failures of the same kind), or both succeed and
the two ASTs are identical up to the contents of string literals (`blank`: every string literal
emptied), the contents being pairwise equal or the two texts of one string-valued parameter
(`strs`: the string contents from left to right, related by `DRel`). So no content of a string
value — quotes, semicolons, comment markers, keywords — can change the structure of the
expression, turn success into failure, or change any other node. Proved by a lock-step
simulation of the two runs through every function of the expression parser
(Lemmas/BindSim.lean). -/
theorem value_not_relexed (text : Str) (tbl : List (Char × Char)) (p1 p2 : List (Str × BoundValue))
    (hp : ParamsRel p1 p2) :
    match parseExprText text p1 tbl, parseExprText text p2 tbl with
    | .ok e1, .ok e2 => e1.blank = e2.blank ∧ All2 (DRel p1 p2) e1.strs e2.strs
    | .error f1, .error f2 => FRel f1 f2
    | _, _ => False :=
  parseExprText_sim hp text tbl

/-- The same for one placeholder: `p ↦ "a"` against `p ↦ "b"` (all other parameters equal). Every
string literal of the first AST is equal to the corresponding one of the second, or is `a` where
the second has `b`. -/
theorem value_not_relexed_single (text : Str) (tbl : List (Char × Char)) (p : Str) (a b : Str)
    (rest : List (Str × BoundValue)) :
    match parseExprText text ((p, ⟨.STRING, a⟩) :: rest) tbl,
        parseExprText text ((p, ⟨.STRING, b⟩) :: rest) tbl with
    | .ok e1, .ok e2 => e1.blank = e2.blank ∧ All2 (fun x y => x = y ∨ (x = a ∧ y = b)) e1.strs e2.strs
    | .error f1, .error f2 => FRel f1 f2
    | _, _ => False := by
  have hp : ParamsRel ((p, ⟨.STRING, a⟩) :: rest) ((p, ⟨.STRING, b⟩) :: rest) :=
    ⟨rfl, rfl, fun h => absurd rfl h, paramsRel_refl rest⟩
  have h := parseExprText_sim hp text tbl
  have hD : ∀ x y, DRel ((p, ⟨.STRING, a⟩) :: rest) ((p, ⟨.STRING, b⟩) :: rest) x y →
      x = y ∨ (x = a ∧ y = b) := by
    intro x y hxy
    rcases hxy with rfl | ⟨k, v1, v2, h1, h2, _, _, hx, hy⟩
    · exact Or.inl rfl
    · simp only [lookupParam] at h1 h2
      by_cases hk : p = k
      · simp only [hk, if_true, Option.some.injEq] at h1 h2
        subst h1 h2
        exact Or.inr ⟨hx.symm, hy.symm⟩
      · simp only [hk, if_false] at h1 h2
        rw [h1] at h2
        injection h2 with h2
        subst h2
        exact Or.inl (hx.symm.trans hy)
  cases h1 : parseExprText text ((p, ⟨.STRING, a⟩) :: rest) tbl <;>
    cases h2 : parseExprText text ((p, ⟨.STRING, b⟩) :: rest) tbl <;>
    rw [h1, h2] at h <;>
    first
      | exact h
      | exact ⟨h.1, all2_mono h.2 hD⟩

/-! ## Kernel-checked examples: hostile string values -/

def exprOf (text : List Char) (params : List (Str × GoVal)) : Option Str :=
  match parseExprText text (setParams params) [] with
  | .ok e => some e.print
  | .error _ => none

/-- `a = $p` with `p` bound to `' OR 1=1 --`, `x; DROP`, `/* */`: one comparison with one string
literal (printed back in quoted form). -/
theorem hostile_string_values :
    exprOf ['a', ' ', '=', ' ', '$', 'p'] [(['p'], .str ['\'', ' ', 'O', 'R', ' ', '1', '=', '1', ' ', '-', '-'])] =
      some ['a', ' ', '=', ' ', '\'', '\\', '\'', ' ', 'O', 'R', ' ', '1', '=', '1', ' ', '-', '-', '\''] ∧
    exprOf ['a', ' ', '=', ' ', '$', 'p'] [(['p'], .str ['x', ';', ' ', 'D', 'R', 'O', 'P'])] =
      some ['a', ' ', '=', ' ', '\'', 'x', ';', ' ', 'D', 'R', 'O', 'P', '\''] ∧
    exprOf ['a', ' ', '=', ' ', '$', 'p'] [(['p'], .str ['/', '*', ' ', '*', '/'])] =
      some ['a', ' ', '=', ' ', '\'', '/', '*', ' ', '*', '/', '\''] := by decide +kernel

/-- An unbound name, the empty name and an unbindable value are rejected. -/
theorem unbound_examples :
    exprOf ['a', ' ', '=', ' ', '$', 'p'] [] = none ∧
    exprOf ['a', ' ', '=', ' ', '$'] [(['p'], .str ['x'])] = none ∧
    exprOf ['a', ' ', '=', ' ', '$', 'p'] [(['p'], .other ['i', 'n', 't', '3', '2'])] = none ∧
    exprOf ['a', ' ', '=', ' ', '$', 'p'] [(['p'], .objectN)] = none := by decide +kernel

-- non-vacuity
example : ParamsRel [(['p'], ⟨.STRING, ['a']⟩)] [(['p'], ⟨.STRING, ['\'', ';']⟩)] := by
  simp [ParamsRel]
example : Bindable (.object "duration".toList (.int 90000000000 [])) = true := by decide +kernel

/-! ## Placeholder = written literal, at the token level

`sigTokens r` (Lemmas/Neutral.lean) is what `ScanIgnoreWhitespace` delivers from the cursor `r` on
(kind and literal of every token that is not white space or a comment, up to the first EOF) *before*
the substitution step of `Parser.scan`; `substSig params` is that step on kind and literal
(`substTok_sig`). `Inlinable params name lit k v` (Lemmas/Inline.lean): `name` is a non-empty run of
identifier runes bound to `v`; the continuation `k` cannot continue a word; the literal spelling `lit`
followed by `k` scans as exactly one token of kind `v.tok` with literal `v.text` (neither BOUNDPARAM nor
EOF). -/

/-- **C07 (placeholder = written literal, token level).** Let the delivered runes of the template be
`a ++ ws ++ $name ++ k` and those of the inlined text `a ++ ws ++ lit ++ k`, where `ws` is white space,
and let the scanner reach the start of `ws` at a token boundary of the template (after `n` tokens) — or
let nothing precede the white space (`a = []`). Then `Parser.scan` delivers the same significant tokens
for both texts: the substituted token streams coincide. (White space before the placeholder is what
scanner locality, `scan_loc`, needs; what follows is only required not to continue the name / the
literal.) -/
theorem inline_equiv_tokens (params : List (Str × BoundValue)) (name lit k : Str) (v : BoundValue)
    (hv : Inlinable params name lit k v) (a ws : Str) (hws : ∀ c ∈ ws, isWhitespace c = true) (n : Nat)
    (r1 r2 : Cursor) (h1 : r1.chars = a ++ (ws ++ ('$' :: (name ++ k)))) (h2 : r2.chars = a ++ (ws ++ (lit ++ k)))
    (hb : a = [] ∨ (ws ≠ [] ∧ (scanN n r1).rest.length = (ws ++ ('$' :: (name ++ k))).length)) :
    (sigTokens r1).map (substSig params) = (sigTokens r2).map (substSig params) :=
  inline_tokens params name lit k v hv a ws hws n r1 r2 h1 h2 hb

/-- The same for two texts (`foldCR`: the reader delivers CR and CRLF as LF; `kk` is the rest of the
text, the sentinel that ends every input follows it). -/
theorem inline_equiv_text (params : List (Str × BoundValue)) (name lit kk : Str) (v : BoundValue)
    (template inlined a ws : Str) (n : Nat) (hv : Inlinable params name lit (kk ++ [eofRune]) v)
    (hws : ∀ c ∈ ws, isWhitespace c = true)
    (hT : foldCR template = a ++ (ws ++ ('$' :: (name ++ kk))))
    (hI : foldCR inlined = a ++ (ws ++ (lit ++ kk)))
    (hb : a = [] ∨ (ws ≠ [] ∧
      (scanN n (Cursor.ofRunes template)).rest.length = (ws ++ ('$' :: (name ++ (kk ++ [eofRune])))).length)) :
    (sigTokens (Cursor.ofRunes template)).map (substSig params) =
      (sigTokens (Cursor.ofRunes inlined)).map (substSig params) := by
  refine inline_tokens params name lit (kk ++ [eofRune]) v hv a ws hws n _ _ ?_ ?_ hb
  · rw [chars_ofRunes, hT]; simp
  · rw [chars_ofRunes, hI]; simp

/-- **The literals of the four kinds are inlinable.** For a placeholder name of identifier runes and a
continuation `k` that cannot continue a word: a string value with `QuoteString` of it (no NUL / CR), a
non-negative integer with its decimal digits (`k` no digit, `.` or unit letter), a boolean with
`true` / `false`, a non-negative duration with `FormatDuration` of it (`k` no letter or digit) — each with
the (kind, text) pair `BindValue` gives. Negative integers and durations are excluded: their spelling
is two tokens (`inline_negative_integer_is_two_tokens`), the equivalence holds for them only after
`parseUnaryExpr` has folded the sign. -/
theorem literal_inlinable (params : List (Str × BoundValue)) (name k : Str) (hn : ParamName name) (hk : WordEnd k) :
    (∀ s, Expressible s → lookupParam name params = some (ParamValue.string s).bound →
      Inlinable params name (quoteString s) k (ParamValue.string s).bound) ∧
    (∀ i : Int, 0 ≤ i → NumEnd k → lookupParam name params = some (ParamValue.integer i).bound →
      Inlinable params name (intDigits i) k (ParamValue.integer i).bound) ∧
    (∀ b : Bool, lookupParam name params = some (ParamValue.boolean b).bound →
      Inlinable params name (if b then "true".toList else "false".toList) k (ParamValue.boolean b).bound) ∧
    (∀ d : Int, 0 ≤ d → DurEnd k → lookupParam name params = some (ParamValue.duration (formatDuration d)).bound →
      Inlinable params name (formatDuration d) k (ParamValue.duration (formatDuration d)).bound) :=
  ⟨fun s hex hb => inlinable_string params name k s hn hk hex hb,
   fun i hi hnum hb => inlinable_integer params name k i hn hk hnum hi hb,
   fun b hb => inlinable_boolean params name k b hn hk hb,
   fun d hd hdur hb => inlinable_duration params name k d hn hk hdur hd hb⟩

/-- **C07 (bridge to the parser).** With nothing pushed back and bound values of the kinds `BindValue`
can produce (`KindsOK`: never WS, COMMENT or EOF), `Parser.ScanIgnoreWhitespace` returns exactly the head
of the *substituted* significant-token stream — kind and literal — and leaves the cursor where the rest of
that stream starts. Together with `inline_equiv_tokens`: the successive `ScanIgnoreWhitespace` results on
the template and on the inlined text are the same sequence of (kind, literal) pairs. -/
theorem scanIW_delivers_substituted (s : PState) (hn : s.n = 0) (hp : KindsOK s.params) :
    ∃ lx s', scanIW.run s = .ok (lx, s') ∧ s'.n = 0 ∧ s'.params = s.params ∧
      (sigTokens s.r).map (substSig s.params) =
        if lx.tok = .EOF then [lx.sig] else lx.sig :: (sigTokens s'.r).map (substSig s.params) := by
  unfold scanIW
  rw [P.runBind, P.run_get]
  exact scanIWLoop_substituted _ s hn hp (by omega)

/-- Every value of `BindValue` has such a kind. -/
theorem setParams_kindsOK (m : List (Str × GoVal)) : KindsOK (setParams m) := by
  intro k v h
  induction m with
  | nil => cases h
  | cons x rest ih =>
    obtain ⟨k1, g⟩ := x
    simp only [setParams, List.map_cons, lookupParam] at h ih
    by_cases hk : k1 = k
    · simp only [hk, if_true, Option.some.injEq] at h
      subst h
      have : ∀ p : ParamValue, p.tokenType ≠ .WS ∧ p.tokenType ≠ .COMMENT ∧ p.tokenType ≠ .EOF := by
        intro p
        cases p <;> simp only [ParamValue.tokenType] <;> try (refine ⟨?_, ?_, ?_⟩ <;> decide)
        rename_i b
        cases b <;> (refine ⟨?_, ?_, ?_⟩ <;> decide)
      exact this (bindValue g)
    · simp only [hk, if_false] at h
      exact ih h

/-- Why negative integers are excluded at this level: `BindValue(-5)` is the single token
(INTEGER, `-5`), the text `-5` is the two tokens `-` and `5`. -/
theorem inline_negative_integer_is_two_tokens :
    (ParamValue.integer (-5)).bound.tok = .INTEGER ∧ (ParamValue.integer (-5)).bound.text = ['-', '5'] ∧
    sigTokens (Cursor.ofRunes ['-', '5']) = [(.SUB, []), (.INTEGER, ['5']), (.EOF, [])] := by
  refine ⟨?_, ?_, ?_⟩ <;> decide +kernel

-- non-vacuity: `a = $v AND b` with v ↦ "x'y" against `a = 'x\'y' AND b`
example :
    (sigTokens (Cursor.ofRunes "a = $v AND b".toList)).map (substSig [("v".toList, (ParamValue.string "x'y".toList).bound)]) =
    (sigTokens (Cursor.ofRunes "a = 'x\\'y' AND b".toList)).map
      (substSig [("v".toList, (ParamValue.string "x'y".toList).bound)]) := by
  have hv := (literal_inlinable [("v".toList, (ParamValue.string "x'y".toList).bound)] "v".toList
    (" AND b".toList ++ [eofRune]) ⟨'v', [], rfl, by decide⟩ (WordEnd.blank _)).1 "x'y".toList (by decide) (by simp [lookupParam])
  exact inline_equiv_text _ "v".toList (quoteString "x'y".toList) " AND b".toList _ _ _ "a =".toList [' '] 3 hv
    (by decide) (by decide +kernel) (by decide +kernel) (Or.inr ⟨by decide, by decide +kernel⟩)

/-! ## Placeholder = written literal, at the level of the expression parser

Lemmas/InlineSim*.lean: the run of `ParseExpr` on the template and the run on the inlined text are
related by a simulation (same push-back count, ring entries equal after the substitution of
`Parser.scan`, cursors before / at / behind the placeholder); every primitive (`Scan`, `ScanRegex`,
`Unscan`, `peekRune`, `peekComment`) and every function up to the five mutually recursive ones
preserves it. `parseRegex` is the one place where the runs part for a moment: in front of the
placeholder the template run sees `$` and takes the `Scan` / `Unscan` path, the other run sees the
literal's first rune — both answer "no regex here", one pushed-back token apart, and the next `Scan`
brings them back in step. -/

/-- **C07 (placeholder = written literal, expression parser).** The template's delivered runes are
`a ++ ws ++ $name ++ kk`, those of the inlined text `a ++ ws ++ lit ++ kk` (`foldCR`: CR / CRLF read as
LF), with `ws` white space, the scanner run on the template reaching the start of `ws` at a token
boundary (after `n` tokens) or nothing preceding it (`a = []`), and `Inlinable` as at the token level
(`name` bound to `v`; `lit` followed by `kk` scans as the single token `(v.tok, v.text)`; `kk` cannot
continue a word). Side conditions of this level, all decidable: the text in front of the placeholder
contains no `/` and no NUL (no regex literal, division or block comment there: `ScanRegex` would lex
across the placeholder, see `inline_inside_regex_is_not_a_placeholder`); the value is not a regex; the
literal does not begin with `/`, `-`, `:`, `.` or `$` (runes `parseRegex` and `parseSegmentedIdents`
look for in the rune reader — true of every string, non-negative number, boolean and duration
spelling). Then parsing the template and parsing the inlined text, with the same parameter map, give
**the same expression tree**, or both fail with **the same error up to its position** (`SameResult`;
`Fail.erase`: same message, same found / expected tokens; only line and column may differ). Calls, regex operators
and parenthesised groups around or behind the placeholder are covered (`f(x, $p)`, `a =~ $p`). -/
theorem inline_equiv_expr_partial (params : List (Str × BoundValue)) (name lit kk : Str) (v : BoundValue)
    (template inlined a ws : Str) (n : Nat) (tbl : List (Char × Char))
    (hv : Inlinable params name lit (kk ++ [eofRune]) v)
    (hws : ∀ c ∈ ws, isWhitespace c = true)
    (hT : foldCR template = a ++ (ws ++ ('$' :: (name ++ kk))))
    (hI : foldCR inlined = a ++ (ws ++ (lit ++ kk)))
    (hb : a = [] ∨ (ws ≠ [] ∧
      (scanN n (Cursor.ofRunes template)).rest.length = (ws ++ ('$' :: (name ++ (kk ++ [eofRune])))).length))
    (hpre : ∀ x ∈ a, x ≠ '/' ∧ x ≠ eofRune)
    (hre : v.tok ≠ .REGEX)
    (hlit : ∃ lh lt, lit = lh :: lt ∧ lh ≠ '/' ∧ lh ≠ '-' ∧ lh ≠ ':' ∧ lh ≠ '.' ∧ lh ≠ '$') :
    SameResult (parseExprText template params tbl) (parseExprText inlined params tbl) := by
  obtain ⟨lh, lt, rfl, hlh⟩ := hlit
  have hc : ICtx.OK ⟨params, name, lh, lt, kk ++ [eofRune], ws, v⟩ := ⟨hv, hws, hre, hlh⟩
  have h1 : (Cursor.ofRunes template).chars =
      a ++ ICtx.t1 ⟨params, name, lh, lt, kk ++ [eofRune], ws, v⟩ := by
    rw [chars_ofRunes, hT]; simp [ICtx.t1]
  have h2 : (Cursor.ofRunes inlined).chars =
      a ++ ICtx.t2 ⟨params, name, lh, lt, kk ++ [eofRune], ws, v⟩ := by
    rw [chars_ofRunes, hI]; simp [ICtx.t2, ICtx.lit]
  have hcr : CR ⟨params, name, lh, lt, kk ++ [eofRune], ws, v⟩ (Cursor.ofRunes template)
      (Cursor.ofRunes inlined) := by
    rcases hb with rfl | ⟨hne, hb⟩
    · by_cases hw : ws = []
      · subst hw
        exact CR.at (by simpa [ICtx.t1] using h1) (by simpa [ICtx.t2] using h2)
      · refine CR.pre [] hw h1 h2 (by simp) ⟨0, ?_⟩
        show (Cursor.ofRunes template).rest.length = _
        have := congrArg List.length h1
        simpa [Cursor.chars] using this
    · exact CR.pre a hne h1 h2 hpre ⟨n, hb⟩
  exact parseExprText_inline hc template inlined tbl hcr

/-- For a string value: `$name` (bound to the string `s`, no NUL / CR in it) against `QuoteString(s)`
written in its place. -/
theorem inline_equiv_expr_string (params : List (Str × BoundValue)) (name kk s : Str)
    (template inlined a ws : Str) (n : Nat) (tbl : List (Char × Char))
    (hn : ParamName name) (hk : WordEnd (kk ++ [eofRune])) (hex : Expressible s)
    (hbound : lookupParam name params = some (ParamValue.string s).bound)
    (hws : ∀ c ∈ ws, isWhitespace c = true)
    (hT : foldCR template = a ++ (ws ++ ('$' :: (name ++ kk))))
    (hI : foldCR inlined = a ++ (ws ++ (quoteString s ++ kk)))
    (hb : a = [] ∨ (ws ≠ [] ∧
      (scanN n (Cursor.ofRunes template)).rest.length = (ws ++ ('$' :: (name ++ (kk ++ [eofRune])))).length))
    (hpre : ∀ x ∈ a, x ≠ '/' ∧ x ≠ eofRune) :
    SameResult (parseExprText template params tbl) (parseExprText inlined params tbl) :=
  inline_equiv_expr_partial params name (quoteString s) kk _ template inlined a ws n tbl
    (inlinable_string params name _ s hn hk hex hbound) hws hT hI hb hpre
    (by show Token.STRING ≠ .REGEX; decide)
    ⟨'\'', _, rfl, by decide, by decide, by decide, by decide, by decide⟩

/-- Why the text in front of the placeholder must not contain a regex literal that reaches over it:
in `a =~ /x $p/` the `$p` is not a placeholder at all (`ScanRegex` reads it as part of the regex), so
writing the literal there gives a different regex. The plain scanner does see a `$p` token after white
space, i.e. the token-level hypotheses alone do not exclude this text. (Not a defect of the code.) -/
theorem inline_inside_regex_is_not_a_placeholder :
    exprOf ['a', ' ', '=', '~', ' ', '/', 'x', ' ', '$', 'p', '/'] [(['p'], .str ['q'])] = some ['a', ' ', '=', '~', ' ', '/', 'x', ' ', '$', 'p', '/'] ∧
    exprOf ['a', ' ', '=', '~', ' ', '/', 'x', ' ', '\'', 'q', '\'', '/'] [(['p'], .str ['q'])] = some ['a', ' ', '=', '~', ' ', '/', 'x', ' ', '\'', 'q', '\'', '/'] := by
  constructor <;> decide +kernel

/-- Kernel-checked instances (p ↦ `x y`): `a = $p AND b > 1` and `a = 'x y' AND b > 1` give the same
tree; so do `f(x, $p)` and `f(x, 'x y')` (a placeholder at the regex look-ahead point of a call); after
a regex operator, `a =~ $p` and `a =~ 'x y'` both fail. -/
theorem inline_examples :
    exprOf ['a', ' ', '=', ' ', '$', 'p', ' ', 'A', 'N', 'D', ' ', 'b', ' ', '>', ' ', '1'] [(['p'], .str ['x', ' ', 'y'])] = some ['a', ' ', '=', ' ', '\'', 'x', ' ', 'y', '\'', ' ', 'A', 'N', 'D', ' ', 'b', ' ', '>', ' ', '1'] ∧
    exprOf ['a', ' ', '=', ' ', '\'', 'x', ' ', 'y', '\'', ' ', 'A', 'N', 'D', ' ', 'b', ' ', '>', ' ', '1'] [(['p'], .str ['x', ' ', 'y'])] = some ['a', ' ', '=', ' ', '\'', 'x', ' ', 'y', '\'', ' ', 'A', 'N', 'D', ' ', 'b', ' ', '>', ' ', '1'] ∧
    exprOf ['f', '(', 'x', ',', ' ', '$', 'p', ')'] [(['p'], .str ['x', ' ', 'y'])] = some ['f', '(', 'x', ',', ' ', '\'', 'x', ' ', 'y', '\'', ')'] ∧
    exprOf ['f', '(', 'x', ',', ' ', '\'', 'x', ' ', 'y', '\'', ')'] [(['p'], .str ['x', ' ', 'y'])] = some ['f', '(', 'x', ',', ' ', '\'', 'x', ' ', 'y', '\'', ')'] ∧
    exprOf ['a', ' ', '=', '~', ' ', '$', 'p'] [(['p'], .str ['x', ' ', 'y'])] = none ∧
    exprOf ['a', ' ', '=', '~', ' ', '\'', 'x', ' ', 'y', '\''] [(['p'], .str ['x', ' ', 'y'])] = none := by
  refine ⟨?_, ?_, ?_, ?_, ?_, ?_⟩ <;> decide +kernel

-- non-vacuity: the hypotheses of `inline_equiv_expr_string` hold for the template `a = $p AND b > 1`,
-- p ↦ `x y`, and the inlined text `a = 'x y' AND b > 1` (a = `a =`, ws = one blank, after 3 tokens)
example :
    ParamName ['p'] ∧ WordEnd ([' ', 'A', 'N', 'D', ' ', 'b', ' ', '>', ' ', '1'] ++ [eofRune]) ∧ Expressible ['x', ' ', 'y'] ∧
    lookupParam ['p'] [(['p'], (ParamValue.string ['x', ' ', 'y']).bound)] = some (ParamValue.string ['x', ' ', 'y']).bound ∧
    (∀ c ∈ [' '], isWhitespace c = true) ∧
    foldCR ['a', ' ', '=', ' ', '$', 'p', ' ', 'A', 'N', 'D', ' ', 'b', ' ', '>', ' ', '1'] = ['a', ' ', '='] ++ ([' '] ++ ('$' :: (['p'] ++ [' ', 'A', 'N', 'D', ' ', 'b', ' ', '>', ' ', '1']))) ∧
    foldCR ['a', ' ', '=', ' ', '\'', 'x', ' ', 'y', '\'', ' ', 'A', 'N', 'D', ' ', 'b', ' ', '>', ' ', '1'] = ['a', ' ', '='] ++ ([' '] ++ (quoteString ['x', ' ', 'y'] ++ [' ', 'A', 'N', 'D', ' ', 'b', ' ', '>', ' ', '1'])) ∧
    ([' '] ≠ [] ∧ (scanN 3 (Cursor.ofRunes ['a', ' ', '=', ' ', '$', 'p', ' ', 'A', 'N', 'D', ' ', 'b', ' ', '>', ' ', '1'])).rest.length =
      ([' '] ++ ('$' :: (['p'] ++ ([' ', 'A', 'N', 'D', ' ', 'b', ' ', '>', ' ', '1'] ++ [eofRune])))).length) ∧
    (∀ x ∈ ['a', ' ', '='], x ≠ '/' ∧ x ≠ eofRune) :=
  ⟨⟨'p', [], rfl, by decide⟩, WordEnd.blank _, by decide, by simp [lookupParam], by decide,
    by decide +kernel, by decide +kernel, ⟨by decide, by decide +kernel⟩, by decide⟩

end InfluxQL.C07

import InfluxQL.Model.ParserStmt
import InfluxQL.Model.PrintStmt
import InfluxQL.Lemmas.Digits
import InfluxQL.Lemmas.ParserTok
import InfluxQL.Lemmas.IntLit
import InfluxQL.Lemmas.RegexRoundTrip
import InfluxQL.Lemmas.NumberRoundTrip
import InfluxQL.Props.C01
import InfluxQL.Props.C08
import InfluxQL.Props.C06
/-
C02 — printed statements re-parse to the same AST.

The model is `Model/PrintStmt.lean` ∘ `Model/ParserStmt.lean`. The statement-level theorem

  print_parse : Parsed a → NoPassword a → parseStatement (print a) = ok a

is *not yet proved* (see notes/C02.md); it is tied to the implementation by the stream
`print.stmt` (exact equality of `String()` with the model's printer on every parsed statement) and
by the double round trip run on the implementation. Proved here, for all values: the lexical core
of the round trip — what the printers write for integers, unsigned integers, durations and
regular expressions is read back as the same value by the literal parsers of the model.
-/
namespace InfluxQL.C02
open InfluxQL Gen

/-! ## integers -/

/-- `IntegerLiteral.String()` of a non-negative value is read back by the INTEGER case of
`parseUnaryExpr` as the same `IntegerLiteral`. -/
theorem integer_print_parse (n : Nat) (h : (n : Int) ≤ maxInt64) (pos : Pos) (s : PState) :
    (parseIntegerLit (intDigits n) pos).run s = .ok (.integer n, s) := by
  have hd : intDigits (n : Int) = natDigits n := by
    unfold intDigits
    simp
  rw [hd]
  unfold parseIntegerLit
  rw [splitSign_natDigits]
  have h0 : minInt64 ≤ (n : Int) := by unfold minInt64; omega
  simp [allDigits_natDigits, digitsVal_natDigits, h, h0, StateT.run, pure, StateT.pure, Except.pure]

/-- `UnsignedLiteral.String()` (a value above `MaxInt64`) is read back as the same
`UnsignedLiteral`: `ParseInt` fails, `ParseUint` succeeds. -/
theorem unsigned_print_parse (n : Nat) (h1 : maxInt64 < (n : Int)) (h2 : (n : Int) ≤ maxUInt64) (pos : Pos) (s : PState) :
    (parseIntegerLit (natDigits n) pos).run s = .ok (.unsigned n, s) := by
  unfold parseIntegerLit
  rw [splitSign_natDigits]
  have hd := natDigits_all_digits n
  have hne := natDigits_ne_nil n
  have hh : (natDigits n).head? ≠ some '-' ∧ (natDigits n).head? ≠ some '+' := by
    match hx : natDigits n with
    | [] => exact absurd hx hne
    | c :: rest =>
      have hc : isDigit c = true := hd c (by rw [hx]; exact List.mem_cons_self)
      constructor
      · intro h; simp at h; rw [h] at hc; exact absurd hc (by decide)
      · intro h; simp at h; rw [h] at hc; exact absurd hc (by decide)
  have hnot : ¬ (minInt64 ≤ (n : Int) ∧ (n : Int) ≤ maxInt64) := by omega
  simp [allDigits_natDigits, digitsVal_natDigits, hnot, hh.1, hh.2, h2, StateT.run, pure, StateT.pure, Except.pure]

/-- The one negative value whose digits exceed `MaxInt64`: `-9223372036854775808` is printed as `-`
followed by these digits; they are read as the unsigned literal 2^63, which the unary-minus case
of `parseUnaryExpr` maps back to `MinInt64` (its `lit.Val == uint64(math.MaxInt64+1)` test). -/
theorem minInt64_digits_parse (pos : Pos) (s : PState) :
    (parseIntegerLit (natDigits minInt64.natAbs) pos).run s = .ok (.unsigned 9223372036854775808, s) :=
  unsigned_print_parse 9223372036854775808 (by decide) (by decide) pos s

/-! ## numbers -/

/-- `NumberLiteral.String()` of a non-negative finite value (`Dec.print`: integer part, point,
fraction digits without trailing zeros, `.0` for a whole number) is read back by the NUMBER case
of `parseUnaryExpr` as a number literal of the same value: `mant' / 10^scale' = mant / 10^scale`.
(The sign of a negative literal is a separate `-` token. In the model a number literal *is* its
exact decimal; that this coincides with `float64` formatting is the trusted-base assumption for
literals of at most 15 significant digits.) -/
theorem number_print_parse (d : Dec) (hneg : d.neg = false)
    (hfin : d.mant < (2 ^ 1024 - 2 ^ 970) * 10 ^ d.scale) (pos : Pos) (s : PState) :
    ∃ d' : Dec, (parseNumberLit d.print pos).run s = .ok (.number d', s) ∧ d'.neg = false ∧
      d'.mant * 10 ^ d.scale = d.mant * 10 ^ d'.scale :=
  ⟨_, parseNumberLit_print d hneg hfin pos s, rfl, d.fracDigits_value⟩

example : (⟨false, 1500, 3⟩ : Dec).print = "1.5".toList := by decide
example : (⟨false, 3, 0⟩ : Dec).print = "3.0".toList := by decide

/-! ## durations -/

/-- `DurationLiteral.String()` (`FormatDuration`) is read back by `ParseDuration` as the same
duration, for every value except `MinInt64` (whose magnitude does not fit). -/
theorem duration_print_parse (d : Int) (hmin : minInt64 < d) (hmax : d ≤ maxInt64) :
    parseDuration (formatDuration d) = .ok d :=
  C08.parse_format d hmin hmax

/-! ## regular expressions -/

/-- `RegexLiteral.String()` writes `/` ++ source with every `/` escaped ++ `/`. `ScanRegex` on that
text (followed by anything, `k`) returns the REGEX token carrying the source and stops right after
the closing slash — for every source without newline and NUL that does not end in a backslash. -/
theorem regex_print_scan (r : Cursor) (q0 q : Pos) (l k : List (Char × Pos)) (src : List Char)
    (hr : r.rest = ('/', q0) :: (l ++ ('/', q) :: k))
    (hl : l.map Prod.fst = escapeSlashes src)
    (hok : RegexRunes src) (hend : endsBS src = false) :
    (scanRegex r).1 = ⟨.REGEX, r.prev.2, src⟩ ∧ (scanRegex r).2.rest = k :=
  scanRegex_print r q0 q l k src hr hl hok hend

/-- Conversely every source `ScanRegex` can return has that shape, so the hypothesis of
`regex_print_scan` excludes no regex that was *written as text*. (A regex bound through a
parameter can end in a backslash; that case is outside the property.) -/
theorem regex_scan_image (fin : Pos) (l : List (Char × Pos)) (pv : Char × Pos) (n : Nat) (out : List Char)
    (h : (scanRegexLoop fin l [] false pv n).1 = some out) :
    RegexRunes out ∧ endsBS out = false :=
  scanRegexLoop_image fin l [] false pv n out (fun _ hc => by cases hc) (fun _ => rfl) h

/-- Non-vacuity: the source `a/b\.c` is printed as `/a\/b\.c/` and scanned back. -/
example : (scanRegex (Cursor.ofRunes "/a\\/b\\.c/ rest".toList)).1.lit = "a/b\\.c".toList := by decide

example : escapeSlashes "a/b\\.c".toList = "a\\/b\\.c".toList := by decide

/-- Why the hypothesis is needed: the source `a\` is printed as `/a\/`, whose last slash the
scanner takes for an escaped one. -/
example : (scanRegex (Cursor.ofRunes "/a\\/".toList)).1.tok = .BADREGEX := by decide

/-! ## a first statement family: the single-name statements

`DROP DATABASE n`, `DROP MEASUREMENT n`, `DROP USER n`, `SHOW GRANTS FOR n` print as their
keywords, one blank and `QuoteIdent(n)`. The keyword prefix is handled at token level
(`C01.dispatch_step_sub` / `dispatch_step_handler`); from the handler on the theorem is about the
text. -/

/-- The four handlers that read exactly one name. -/
def singleNameHandlers : List (Handler × (Str → Statement)) :=
  [(.parseDropDatabaseStatement, .dropDatabase), (.parseDropMeasurementStatement, .dropMeasurement),
   (.parseDropUserStatement, .dropUser), (.parseGrantsForUserStatement, .showGrantsForUser)]

/-- What these statements print after their keywords. -/
theorem singleName_print (name : Str) :
    (Statement.dropDatabase name).print = "DROP DATABASE ".toList ++ quoteIdent [name] ∧
    (Statement.dropMeasurement name).print = "DROP MEASUREMENT ".toList ++ quoteIdent [name] ∧
    (Statement.dropUser name).print = "DROP USER ".toList ++ quoteIdent [name] ∧
    (Statement.showGrantsForUser name).print = "SHOW GRANTS FOR ".toList ++ quoteIdent [name] :=
  ⟨rfl, rfl, rfl, rfl⟩

/-- **Print → parse for the single-name statements, from the handler on (partial: the keyword
prefix is covered at token level only).** For a name that is printed in quotes (it needs them, or
is empty) and is expressible (no NUL, no CR): the handler, started with nothing pushed back on the
text `' ' ++ QuoteIdent(name) ++ k`, returns the statement with exactly that name and stops right
after the closing quote. -/
theorem singleName_quoted_print_parse_partial (fuel : Nat) (h : Handler) (C : Str → Statement)
    (hh : (h, C) ∈ singleNameHandlers) (s : PState) (name k tail : Str) (hn : s.n = 0)
    (hq : (identNeedsQuotes name || name == []) = true) (hex : Expressible name)
    (hr : s.r.rest.map Prod.fst = foldCR (' ' :: (quoteIdent [name] ++ k)) ++ tail) :
    ∃ s', (runHandler fuel h).run s = .ok (C name, s') ∧ s'.n = 0 ∧
      s'.r.rest.map Prod.fst = foldCR k ++ tail := by
  rw [C06.quoteIdent_single, hq] at hr
  simp only [↓reduceIte, List.cons_append, List.append_assoc, List.nil_append] at hr
  rw [foldCR_cons_of_ne _ _ (by decide), foldCR_cons_of_ne _ _ (by decide)] at hr
  simp only [List.cons_append] at hr
  obtain ⟨b1, l1, hrest, hb1, hl1⟩ := List.map_eq_cons_iff.mp hr
  obtain ⟨b2, l2, rfl, hb2, hl2⟩ := List.map_eq_cons_iff.mp hl1
  obtain ⟨c1, q1⟩ := b1
  obtain ⟨c2, q2⟩ := b2
  simp only at hb1 hb2
  subst hb1 hb2
  have hblank := scan_blank s.r q1 q2 '"' l2 hrest (by decide) (by decide)
  have hquoted := C06.scan_quotedIdent_contained (scan s.r).2 name k tail (by
    rw [hblank.2, foldCR_cons_of_ne _ _ (by decide)]
    simp only [List.map_cons, List.cons_append, hl2])
  rcases hquoted with ⟨_, hid, hlit, hrest'⟩ | ⟨hne, _⟩
  · obtain ⟨s', hrun, hr', hn'⟩ := parseIdent_after_blank s name hn hblank.1 hid hlit
    refine ⟨s', ?_, hn', by rw [hr']; exact hrest'⟩
    simp only [singleNameHandlers, List.mem_cons, Prod.mk.injEq, List.not_mem_nil, or_false] at hh
    rcases hh with ⟨rfl, rfl⟩ | ⟨rfl, rfl⟩ | ⟨rfl, rfl⟩ | ⟨rfl, rfl⟩ <;>
      (simp only [runHandler]; rw [P.run_bind _ _ s name s' hrun]; rfl)
  · exact absurd hex hne

/-- **The same for a name that is printed bare** (a non-keyword identifier): here the text after
the name must not continue it — it starts with a rune `x` that is no identifier rune, no `"` and
not the end of input (partial in that sense too: at the very end of the input the NUL sentinel is
swallowed by the scanner, which C05 records). -/
theorem singleName_bare_print_parse_partial (fuel : Nat) (h : Handler) (C : Str → Statement)
    (hh : (h, C) ∈ singleNameHandlers) (s : PState) (name : Str) (x : Char) (t : Str) (hn : s.n = 0)
    (hne : name ≠ []) (hq : identNeedsQuotes name = false)
    (hx : isIdentChar x = false) (hxq : x ≠ '"') (hxe : x ≠ eofRune)
    (hr : s.r.rest.map Prod.fst = ' ' :: (quoteIdent [name] ++ x :: t)) :
    ∃ s', (runHandler fuel h).run s = .ok (C name, s') ∧ s'.n = 0 ∧ s'.r.rest.map Prod.fst = x :: t := by
  obtain ⟨_, c, tl, hname, hc, _⟩ := (identNeedsQuotes_false_iff name hne).mp hq
  have hqi : quoteIdent [name] = name := by
    rw [C06.quoteIdent_single]
    have : (name == []) = false := by simpa using hne
    simp only [hq, this, Bool.or_self, Bool.false_eq_true, ↓reduceIte]
    exact C06.esc_identChars name (by
      intro y hy
      obtain ⟨_, c', tl', hname', hc', htl'⟩ := (identNeedsQuotes_false_iff name hne).mp hq
      rw [hname'] at hy
      rcases List.mem_cons.mp hy with rfl | hy
      · unfold isIdentFirstChar at hc'
        unfold isIdentChar
        simp only [Bool.or_eq_true] at hc' ⊢
        rcases hc' with h1 | h1
        · exact Or.inl (Or.inl h1)
        · exact Or.inr h1
      · exact htl' y hy)
  rw [hqi, hname] at hr
  simp only [List.cons_append] at hr
  obtain ⟨b1, l1, hrest, hb1, hl1⟩ := List.map_eq_cons_iff.mp hr
  obtain ⟨b2, l2, rfl, hb2, hl2⟩ := List.map_eq_cons_iff.mp hl1
  obtain ⟨c1, q1⟩ := b1
  obtain ⟨c2, q2⟩ := b2
  simp only at hb1 hb2
  subst hb1 hb2
  have hcb := identFirst_not_blank hc
  have hblank := scan_blank s.r q1 q2 c2 l2 hrest hcb.1 hcb.2.1
  have hbare := scan_bareIdent (scan s.r).2 name x t hne hq (by
    rw [hblank.2, hname]
    simp only [List.map_cons, List.cons_append, hl2]) hx hxq hxe
  obtain ⟨s', hrun, hr', hn'⟩ := parseIdent_after_blank s name hn hblank.1 hbare.1 hbare.2.1
  refine ⟨s', ?_, hn', by rw [hr']; exact hbare.2.2⟩
  simp only [singleNameHandlers, List.mem_cons, Prod.mk.injEq, List.not_mem_nil, or_false] at hh
  rcases hh with ⟨rfl, rfl⟩ | ⟨rfl, rfl⟩ | ⟨rfl, rfl⟩ | ⟨rfl, rfl⟩ <;>
    (simp only [runHandler]; rw [P.run_bind _ _ s name s' hrun]; rfl)

/-- Non-vacuity: `DROP DATABASE "a b"` after its keywords. -/
example : ∃ s', (runHandler 10 .parseDropDatabaseStatement).run
      (PState.init (' ' :: (quoteIdent ["a b".toList] ++ [])) [] []) = .ok (.dropDatabase "a b".toList, s') := by
  obtain ⟨s', h, _⟩ := singleName_quoted_print_parse_partial 10 .parseDropDatabaseStatement .dropDatabase
    (by simp [singleNameHandlers]) (PState.init (' ' :: (quoteIdent ["a b".toList] ++ [])) [] []) "a b".toList [] [eofRune]
    rfl (by decide) (by decide) (by simp [PState.init, Cursor.ofRunes, stampRunes_map_fst])
  exact ⟨s', h⟩

/-- Non-vacuity: `SHOW GRANTS FOR cpu;` after its keywords. -/
example : ∃ s', (runHandler 10 .parseGrantsForUserStatement).run
      (PState.init " cpu;".toList [] []) = .ok (.showGrantsForUser "cpu".toList, s') := by
  obtain ⟨s', h, _⟩ := singleName_bare_print_parse_partial 10 .parseGrantsForUserStatement .showGrantsForUser
    (by simp [singleNameHandlers]) (PState.init " cpu;".toList [] []) "cpu".toList ';' [eofRune]
    rfl (by decide) (by decide) (by decide) (by decide) (by decide) (by decide)
  exact ⟨s', h⟩

/-! ## passwords -/

/-- The printed form of `CREATE USER` / `SET PASSWORD` does not depend on the password. -/
theorem print_password_redacted (name p p' : Str) (admin : Bool) :
    (Statement.createUser name p admin).print = (Statement.createUser name p' admin).print ∧
    (Statement.setPasswordUser p name).print = (Statement.setPasswordUser p' name).print :=
  ⟨rfl, rfl⟩

end InfluxQL.C02
